"""F26 (C05-CHILDLESS::initial): a tree built with track_childless=True starts with its root in the set of nodes
still to divide.  For a one-tensor network the root is a leaf: contract_nodes_pair never puts leaves into that
set (`len > 1`) and nothing removes one, so `while tree.childless` in PartitionTreeBuilder.build_divide -- the
'labels' and 'kahypar' hyper methods -- never terminated.  The check runs the builder in a child process with a
time limit.  Exit 1 on the defective tree, 0 after the repair."""
import subprocess
import sys

code = r"""
from cotengra.core import ContractionTree
from cotengra.pathfinders.path_labels import labels_to_tree
t = labels_to_tree.build_divide([("a", "b")], ("b", "a"), {"a": 2, "b": 3})
assert t.is_complete() and tuple(t.get_path()) == ()
t = ContractionTree([("a", "b")], ("b", "a"), {"a": 2, "b": 3}, track_childless=True)
assert not t.childless, "a single leaf is listed as still to divide"
t = ContractionTree([("a", "b"), ("b", "c")], ("a", "c"), {"a": 2, "b": 3, "c": 2}, track_childless=True)
assert list(t.childless) == [t.root]
print("ok")
"""
try:
    r = subprocess.run([sys.executable, "-c", code], capture_output=True, text=True, timeout=30)
except subprocess.TimeoutExpired:
    print("labels_to_tree.build_divide on a one-tensor network did not terminate within 30 s")
    sys.exit(1)
if r.returncode != 0:
    print(r.stdout + r.stderr[-800:])
    sys.exit(1)
print("ok")
