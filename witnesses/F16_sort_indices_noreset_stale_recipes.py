"""F16 (C02): ``sort_contraction_indices(reset=False)`` rewrites the cached index
order ("inds") of nodes but keeps the recipes derived from the old order
(tensordot axes / permutation, einsum equation) when they were already cached -
e.g. after ``print_contractions()`` or an earlier ``contract``.  The history
   print_contractions -> sort_contraction_indices(reset=False) -> contract
then returns a wrong value (or raises) for a fraction of random networks.

Run with cwd=/repo:  /venv/bin/python /verif/witnesses/F16_sort_indices_noreset_stale_recipes.py
Exit status 1 and a line starting ``WITNESS`` if any history fails.
"""
import contextlib
import io
import sys
import warnings

import numpy as np

sys.path.insert(0, "/verif/witnesses")
from _common import network, ok  # noqa: E402

warnings.simplefilter("ignore")
bad = 0
total = 0
for seed in range(30):
    tree, arrays, expected = network(seed, n=8, reg=3, n_out=2)
    with contextlib.redirect_stdout(io.StringIO()):
        tree.print_contractions()           # caches inds + tensordot recipes of every node
    for priority in ("flops", "root"):
        t = tree.copy()
        t.sort_contraction_indices(priority=priority, reset=False)
        total += 1
        if not ok(t, arrays, expected):
            bad += 1
print(f"{bad} of {total} histories print_contractions -> sort_contraction_indices(reset=False) -> contract fail")
if bad:
    print("WITNESS F16: sort_contraction_indices(reset=False) leaves recipes derived from the old index orders")
    sys.exit(1)
