"""F30 (C12-BLANKS): numpy.einsum ignores blanks in the subscripts string ('ij, jk -> ik' is the usual way to
write it); cotengra's front end split the string as given, one index label per character, so a blank became a
label of its own: `cotengra.einsum('ab, bc -> ac', x, y)` raised, and the shape-only interfaces
(`einsum_tree`, `einsum_expression`) silently described another network.
Exit 1 on the defective tree, 0 after the repair."""
import sys
import numpy as np
import cotengra as ctg

rng = np.random.default_rng(0)
x, y, z = rng.standard_normal((2, 3)), rng.standard_normal((3, 4)), rng.standard_normal((5, 2, 3))
bad = []
for eq, ops in [
    ("ab, bc -> ac", (x, y)),
    ("ab,bc -> ac", (x, y)),
    ("ab , bc", (x, y)),
    (" ab,bc->ca ", (x, y)),
    ("... a b, b c -> ... c", (z, y)),
    ("a b -> b a", (x,)),
]:
    ref = np.einsum(eq, *ops)
    try:
        got = ctg.einsum(eq, *ops)
    except Exception as e:  # noqa
        bad.append(f"einsum({eq!r}): {type(e).__name__}: {e}")
        continue
    if np.shape(got) != np.shape(ref) or not np.allclose(got, ref):
        bad.append(f"einsum({eq!r}): differs from numpy")
    t = ctg.einsum_tree(eq, *[o.shape for o in ops])
    if any(" " in term for term in t.inputs) or " " in t.output:
        bad.append(f"einsum_tree({eq!r}): a blank became an index label: {t.inputs} -> {t.output}")
if bad:
    for b in bad:
        print("  ", b)
    sys.exit(1)
print("ok")
