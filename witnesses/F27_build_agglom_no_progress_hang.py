"""F27 (C05-PROGRESS): PartitionTreeBuilder.build_agglom re-partitions `leaves` while there are more than
`groupsize` of them, but never looks at what the partitioner returned.  Label propagation on tensors that share no
index (a disconnected network: an outer product of vectors, a list of scalars) leaves every tensor in a community
of its own, the list of leaves does not shrink and the 'labels-agglom' method never returned -- build_divide has
the sibling escape ('no communities found - contract all remaining').  The builder runs in a child process with a
time limit.  Exit 1 on the defective tree, 0 after the repair."""
import subprocess
import sys

code = r"""
from cotengra.pathfinders.path_labels import labels_to_tree
for n in (6, 12):
    inputs = [(chr(97 + i),) for i in range(n)]
    output = tuple(chr(97 + i) for i in range(n))
    sd = {ix: 2 for ix in output}
    t = labels_to_tree.build_agglom(inputs, output, sd, seed=1)
    assert t.is_complete() and len(t.get_path()) == n - 1, (n, t.get_path())
    t = labels_to_tree.build_agglom([()] * n, (), {}, seed=1)
    assert t.is_complete() and len(t.get_path()) == n - 1
print("ok")
"""
try:
    r = subprocess.run([sys.executable, "-c", code], capture_output=True, text=True, timeout=60)
except subprocess.TimeoutExpired:
    print("labels_to_tree.build_agglom on a network without shared indices did not terminate within 60 s")
    sys.exit(1)
if r.returncode != 0:
    print(r.stdout + r.stderr[-800:])
    sys.exit(1)
print("ok")
