"""F5 (C15): DiskDict writes entries in place, so a writer killed mid-write
leaves a truncated pickle under the final name; every later reader then sees
the key as present and fails on it (UnboundLocalError from ``raise e``)."""
import os
import pickle
import sys
import tempfile

from cotengra.utils import DiskDict

bad = 0
with tempfile.TemporaryDirectory() as d:
    dd = DiskDict(d)

    # 1. simulate a writer that dies after writing only part of the payload:
    #    intercept pickle.dump and stop half way through
    payload = {"path": tuple((i, i + 1) for i in range(200)), "score": 1.0, "sliced_inds": ()}
    real_dump = pickle.dump

    class Killed(BaseException):
        pass

    def dying_dump(v, f, *a, **k):
        data = pickle.dumps(v)
        f.write(data[: len(data) // 2])
        f.flush()
        raise Killed()

    import cotengra.utils as U

    U.pickle.dump = dying_dump
    try:
        dd[("ab", "cdef")] = payload
    except Killed:
        pass
    finally:
        U.pickle.dump = real_dump

    # 2. a later process pointed at the same directory
    later = DiskDict(d)
    present = ("ab", "cdef") in later
    try:
        v = later[("ab", "cdef")]
        outcome = "value" if v == payload else "WRONG VALUE"
    except KeyError:
        outcome = "KeyError"
    except BaseException as e:  # noqa
        outcome = type(e).__name__
    print("F5: after a mid-write death: present =", present, "lookup ->", outcome)
    # acceptable: absent (False, KeyError) -- anything else poisons later runs
    if present or outcome != "KeyError":
        bad += 1

    # 3. an already corrupt entry must read as KeyError, not as another error
    os.makedirs(os.path.join(d, "zz"), exist_ok=True)
    with open(os.path.join(d, "zz", "trunc"), "wb") as f:
        f.write(pickle.dumps(payload)[:10])
    try:
        later[("zz", "trunc")]
        outcome = "value"
    except KeyError:
        outcome = "KeyError"
    except BaseException as e:  # noqa
        outcome = type(e).__name__
    print("F5: lookup of a truncated entry ->", outcome)
    if outcome != "KeyError":
        bad += 1
sys.exit(1 if bad else 0)
