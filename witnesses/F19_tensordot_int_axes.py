"""F19 (C11-AXES int-fallback): cotengra.contract.tensordot with an integer ``axes`` (the documented
default is 2) raises TypeError: the fall-back ``int(axes)`` sits under ``except IndexError`` but
``axes[0]`` on an int raises TypeError.  Exit 0 = defect absent, 1 = present."""
import sys

import numpy as np

from cotengra.contract import tensordot

rng = np.random.default_rng(0)
a, b = rng.normal(size=(2, 3, 4)), rng.normal(size=(3, 4, 5))
bad = 0
for axes in (2, 1, 0):
    aa, bb = (a, b) if axes == 2 else ((a, rng.normal(size=(4, 5))) if axes == 1 else (a[0, 0], b[0, 0]))
    try:
        ok = np.allclose(tensordot(aa, bb, axes), np.tensordot(aa, bb, axes))
        print(f"axes={axes}: {'ok' if ok else 'WRONG VALUE'}")
        bad += not ok
    except Exception as e:  # noqa: BLE001
        print(f"axes={axes}: raises {type(e).__name__}: {e}")
        bad += 1
try:
    ok = np.allclose(tensordot(a, b), np.tensordot(a, b))
    print(f"default axes: {'ok' if ok else 'WRONG VALUE'}")
    bad += not ok
except Exception as e:  # noqa: BLE001
    print(f"default axes: raises {type(e).__name__}: {e}")
    bad += 1
sys.exit(1 if bad else 0)
