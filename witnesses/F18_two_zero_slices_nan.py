"""F18 (C19-ADDER zero pair): two per-slice results that are both exactly zero
(check_zero=True reports them as (0.0, -inf)) are added as
``0 * 10 ** (-inf - -inf)`` = nan, which poisons the sum although the total
contraction is non-zero.  Exit 0 = defect absent, 1 = defect present."""
import sys

import numpy as np

import cotengra as ctg

EQ = "ab,bc,cd,de->ae"
SHAPES = [(3, 4), (4, 3), (3, 5), (5, 4)]


def main():
    rng = np.random.default_rng(5)
    bad = 0
    for zero_cols in ([0, 1], [1, 2], [0, 2]):
        arrays = [rng.uniform(0.5, 1.5, size=s) for s in SHAPES]
        for c in zero_cols:
            arrays[1][:, c] = 0.0  # slices c in zero_cols vanish identically
        ref = np.einsum(EQ, *arrays)
        assert np.all(ref != 0)
        tree = ctg.einsum_tree(EQ, *SHAPES, optimize="greedy")
        tree.remove_ind_("c")
        m, e = tree.contract(arrays, strip_exponent=True, check_zero=True)
        got = np.asarray(m) * 10.0 ** float(e)
        ok = np.all(np.isfinite(got)) and np.allclose(got, ref)
        print(f"zero slices c={zero_cols}: {'ok' if ok else 'WRONG ' + str(np.asarray(m).ravel()[:3])}")
        bad += not ok
    return 1 if bad else 0


if __name__ == "__main__":
    sys.exit(main())
