"""F9 (C19): gen_output_chunks sums the per-slice results of one output chunk
with ``+``; with strip_exponent=True these are (mantissa, exponent) tuples, so
``+`` concatenates them instead of adding the values."""
import sys
import numpy as np
import cotengra as ct

inputs, output, shapes, size_dict = ct.utils.rand_equation(8, 3, n_out=2, seed=5)
arrays = [np.random.default_rng(i).uniform(0.5, 1.5, size=s) for i, s in enumerate(shapes)]
tree = ct.array_contract_tree(inputs, output, size_dict, optimize="greedy")
inner = [ix for ix in size_dict if ix not in output][:2]
for ix in inner + [output[0]]:
    tree.remove_ind_(ix)
plain = list(tree.gen_output_chunks(arrays))
bad = 0
for k, chunk in enumerate(tree.gen_output_chunks(arrays, strip_exponent=True)):
    if not (isinstance(chunk, tuple) and len(chunk) == 2):
        print("F9: chunk", k, "is a", type(chunk).__name__, "of length", len(chunk))
        bad += 1
        continue
    m, e = chunk
    if not np.allclose(m * 10**e, plain[k]):
        print("F9: chunk", k, "has the wrong value")
        bad += 1
print("F9: bad chunks:", bad, "of", len(plain))
sys.exit(1 if bad else 0)
