import numpy as np
import cotengra as ct


def network(seed, n=9, reg=3, n_out=2, optimize="greedy"):
    inputs, output, shapes, size_dict = ct.utils.rand_equation(n, reg, n_out=n_out, seed=seed)
    inputs = ["".join(t) for t in inputs]
    output = "".join(output)
    arrays = [np.random.default_rng(seed + i).normal(size=s) for i, s in enumerate(shapes)]
    eq = ",".join(inputs) + "->" + output
    expected = np.einsum(eq, *arrays, optimize="greedy")
    tree = ct.array_contract_tree(inputs, output, size_dict, optimize=optimize)
    return tree, arrays, expected


def ok(tree, arrays, expected):
    try:
        got = tree.contract(arrays)
    except Exception:
        return False
    return got.shape == expected.shape and np.allclose(got, expected)
