"""F32 (C12-INTERLEAVEDEVAL): in numpy's interleaved form an implicit output is ordered by the *labels*
(`np.einsum(x, [1, 0])` transposes).  cotengra renamed the labels to symbols in order of first appearance and the
string form then sorted the implicit output by symbol, i.e. by appearance: `cotengra.einsum(x, [1, 0])` returned x
itself, `einsum(x, [5, 3], y, [3, 1])` the transposed result.  Exit 1 on the defective tree, 0 after the repair."""
import sys
import numpy as np
import cotengra as ctg

rng = np.random.default_rng(0)
x, y, z = rng.standard_normal((2, 3)), rng.standard_normal((3, 4)), rng.standard_normal((2, 3, 4))
bad = []
for args in [(x, [1, 0]), (x, [5, 3], y, [3, 1]), (x, [0, 1], y, [1, 2]), (z, [Ellipsis, 7, 2]), (z, [9, Ellipsis], y, [3, 2]),
             (x, [1, 0], [0, 1]), (x, [5, 3], y, [3, 1], [5, 1]), (z, [2, 1, 0])]:
    ref = np.einsum(*args)
    got = ctg.einsum(*args)
    if np.shape(got) != ref.shape or not np.allclose(got, ref):
        bad.append(f"einsum(*{[a for a in args if isinstance(a, list)]}): numpy shape {ref.shape}, cotengra {np.shape(got)}")
if bad:
    for b in bad:
        print("  ", b)
    sys.exit(1)
print("ok")
