"""F24 (C05-EMPTYPATH): the complete explicit path of a one-tensor network is the empty sequence, and
`array_contract_tree` builds exactly that (`optimize = ()`) whenever it is given a single tensor -- whatever
`optimize` the caller asked for.  The handlers registered for tuple/list paths (`_find_tree_explicit`,
`_find_path_explicit_path`) and `utils.is_edge_path` all looked at `optimize[0]` first, so every
`array_contract_tree` / `einsum_tree` call on one tensor raised IndexError instead of returning the single-leaf
contraction (C05 names the 1-tensor case and `array_contract_tree` explicitly).
Exit 1 on the defective tree, 0 after the repair."""
import sys
import warnings
import cotengra as ctg

warnings.simplefilter("ignore")
sd = {"a": 2, "b": 3}
net = ([("a", "b")], ("b", "a"), sd)
bad = []
cases = {
    "array_contract_tree(optimize='greedy')": lambda: ctg.array_contract_tree(*net, optimize="greedy"),
    "array_contract_tree(optimize='auto')": lambda: ctg.array_contract_tree(*net),
    "array_contract_tree(optimize=())": lambda: ctg.array_contract_tree(*net, optimize=()),
    "einsum_tree('ab->ba')": lambda: ctg.einsum_tree("ab->ba", (2, 3)),
}
for name, fn in cases.items():
    try:
        t = fn()
    except Exception as e:  # noqa
        bad.append(f"{name}: {type(e).__name__}: {e}")
        continue
    if not (t.is_complete() and t.N == 1 and tuple(t.get_path()) == ()):
        bad.append(f"{name}: not the single-leaf contraction")
for name, fn in {
    "array_contract_path(optimize=())": lambda: ctg.array_contract_path(*net, optimize=()),
    "array_contract_path(optimize=[])": lambda: ctg.array_contract_path(*net, optimize=[]),
    "find_path(optimize=())": lambda: ctg.interface.find_path(*net, ()),
}.items():
    try:
        p = fn()
    except Exception as e:  # noqa
        bad.append(f"{name}: {type(e).__name__}: {e}")
        continue
    if tuple(p) != ():
        bad.append(f"{name}: returned {p!r}")
# an empty explicit path on a larger network is a partial path like any other: completed, every tensor consumed
t = ctg.array_contract_tree([("a", "b"), ("b", "c"), ("c",)], ("a",), {"a": 2, "b": 2, "c": 2}, optimize=[]) if not bad else None
if t is not None and not t.is_complete():
    bad.append("empty partial path on three tensors: incomplete tree")
if bad:
    print("one-tensor network / empty explicit path:")
    for b in bad:
        print("  ", b)
    sys.exit(1)
print("ok")
