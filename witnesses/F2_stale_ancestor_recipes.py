"""F2 (C02): restructuring / slicing a tree after a contraction recipe has been
cached leaves ancestors' inds / tensordot recipes stale."""
import sys
import numpy as np
import cotengra as ct


from _common import network, ok


def h_reconf(tree, arrays, seed):
    tree.contract(arrays)
    tree.subtree_reconfigure_(subtree_size=4, maxiter=2)


def h_sort_slice(tree, arrays, seed):
    tree.sort_contraction_indices()
    tree.contract(arrays)
    rng = np.random.default_rng(seed)
    inds = sorted(tree.size_dict)
    tree.remove_ind_(inds[rng.integers(len(inds))])


def h_sort_slice_restore(tree, arrays, seed):
    rng = np.random.default_rng(seed)
    inds = sorted(tree.size_dict)
    ix = inds[rng.integers(len(inds))]
    tree.remove_ind_(ix)
    tree.sort_contraction_indices()
    tree.contract(arrays)
    tree.restore_ind_(ix)


def h_anneal(tree, arrays, seed):
    tree.sort_contraction_indices()
    tree.contract(arrays)
    # drop the self-contained compiled function: only the per-node recipes
    # cached on the tree decide what the next contraction does
    tree.contraction_cores.clear()
    # low temperature: only a few local moves are accepted, the rest of the
    # tree keeps its cached recipes
    tree.simulated_anneal_(tstart=0.3, tfinal=0.2, tsteps=1, numiter=1, seed=seed)


total = 0
for name, h in [("reconf", h_reconf), ("sort+slice", h_sort_slice),
                ("slice+sort+restore", h_sort_slice_restore), ("sort+anneal", h_anneal)]:
    bad = 0
    for seed in range(60):
        tree, arrays, expected = network(seed)
        h(tree, arrays, seed)
        if not ok(tree, arrays, expected):
            bad += 1
    print(f"F2 history {name}: failing seeds {bad} / 60")
    total += bad
sys.exit(1 if total else 0)
