"""F23 (C14-FPCOV count): hash_contraction_b builds its fingerprint from per-index incidence lists; a tensor
without indices leaves no trace in them, so `ab,bc->ac` and `ab,bc,->ac` (one more scalar factor) share a
record.  A reusable optimizer with hash_method='b' then answers the 3-tensor query with the 2-tensor path —
an incomplete path.  Exit 1 on the defective tree, 0 after the repair."""
import sys
import warnings
from cotengra.reusable import hash_contraction
from cotengra.pathfinders.path_basic import ReusableRandomGreedyOptimizer

warnings.simplefilter("ignore")
sd = {"a": 2, "b": 3, "c": 4}
A = ([("a", "b"), ("b", "c")], ("a", "c"), sd)
B = ([("a", "b"), ("b", "c"), ()], ("a", "c"), sd)
bad = []
if hash_contraction(*A, method="b") == hash_contraction(*B, method="b"):
    bad.append("method 'b' gives the 2-tensor and the 3-tensor contraction the same fingerprint")
opt = ReusableRandomGreedyOptimizer(hash_method="b", max_repeats=4, seed=0)
opt(*A)
path = opt(*B)
n_left = 3 - sum(len(p) - 1 for p in path)
if n_left != 1:
    bad.append(f"path {path} returned for 3 inputs leaves {n_left} tensors")
if bad:
    for b in bad:
        print("FAIL:", b)
    sys.exit(1)
print("ok")
