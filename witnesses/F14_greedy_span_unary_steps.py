"""F14 (C20, last clause): greedy-span contracts the tensors carrying output
indices with the greedy optimizer, whose SSA path contains *unary*
single-term-simplification steps ``(i,)``; the loop ``for pi, pj in o_ssa_path``
assumes pairs, so the pathfinder raises for most ordinary networks in which
three or more tensors carry output indices."""
import sys
import warnings
import cotengra as ct

warnings.simplefilter("ignore")
bad = 0
for seed in range(20):
    inputs, output, shapes, size_dict = ct.utils.rand_equation(8, 3, n_out=3, seed=seed)
    try:
        t = ct.array_contract_tree(inputs, output, size_dict, optimize="greedy-span")
        if not t.is_complete() or len(t.get_path()) != len(inputs) - 1:
            bad += 1
    except Exception as e:  # noqa
        bad += 1
        if bad == 1:
            print("F14 example:", type(e).__name__, e)
print("F14: greedy-span failed on", bad, "of 20 ordinary networks with 3 output indices")
sys.exit(1 if bad else 0)
