"""F13 (C20, recorded as known finding): with nothing truncated (huge chi) the
compressed estimate of the largest tensor is seeded with the sizes of the *input*
tensors (CompressedStatsTracker.__init__), whereas the exact ``max_size`` of the
same tree ranges over intermediates only.  For a network whose largest tensor is
an input the two figures differ although no bond is ever truncated."""
import sys
import cotengra as ct

inputs = [("a", "b"), ("b", "c"), ("c", "d")]
output = ("a", "d")
size_dict = {"a": 2, "b": 64, "c": 2, "d": 2}
path = [(0, 1), (0, 1)]
tree = ct.ContractionTree.from_path(inputs, output, size_dict, path=path)
ctree = ct.ContractionTreeCompressed.from_path(inputs, output, size_dict, path=path)
st = ctree.compressed_contract_stats(chi=10**9)
print("F13: exact max_size", tree.max_size(), "| compressed estimate with huge chi", st.max_size)
print("F13: exact flops", tree.total_flops(), "| compressed flops", st.flops,
      "| write differs by the inputs:", st.write - tree.total_write(),
      "== sum of input sizes", sum(tree.get_size(l) for l in tree.gen_leaves()))
sys.exit(0 if st.max_size == tree.max_size() else 1)
