"""F8a (C18, recorded as known finding): the lightweight processor drops an index
that sits on every tensor (simplify_batch -> remove_ix) before it starts counting
flops, so RandomGreedyOptimizer.best_flops -- and with it the score stored by
ReusableRandomGreedyOptimizer -- is smaller than the cost of the tree built from
the path it returns, by the size of the dropped index for every step."""
import sys
import cotengra as ct

inputs = [("a", "b", "c"), ("a", "c", "d"), ("a", "d", "e"), ("a", "e", "b")]
output = ("a",)
size_dict = {"a": 7, "b": 2, "c": 2, "d": 2, "e": 2}
opt = ct.RandomGreedyOptimizer(max_repeats=4, seed=0, accel=False, parallel=False)
tree = opt.search(inputs, output, size_dict)
reported = round(10 ** opt.best_flops)
actual = tree.total_flops()
print("F8a: best_flops reported", reported, "| tree built from the returned path", actual)
ropt = ct.ReusableRandomGreedyOptimizer(max_repeats=4, seed=0, accel=False, parallel=False)
ropt.search(inputs, output, size_dict)
h, _ = ropt.hash_query(inputs, output, size_dict)
print("F8a: stored score", ropt._cache[h]["score"], "(log10 of", round(10 ** ropt._cache[h]["score"]), ")")
sys.exit(0 if reported == actual else 1)
