"""F31 (C19-ZEROSHAPE, recorded, not repaired): with strip_exponent=True, check_zero=True the contractor leaves
early with the *scalar* pair (0.0, -inf) as soon as an intermediate vanishes.  When an output index is sliced, the
per-slice results are stacked into the output: a slice that vanishes (while others do not - the total is non-zero)
is a scalar among arrays and numpy.stack raises.  Without check_zero the same input gives nan (documented), so no
option contracts it with exponent stripping.  Exit 1 while the defect is present."""
import sys
import numpy as np
import cotengra as ctg

inputs = [("a", "b"), ("b", "c")]
output = ("a", "c")
sd = {"a": 2, "b": 3, "c": 2}
x = np.arange(1.0, 7.0).reshape(2, 3)
x[0, :] = 0.0          # the slice a = 0 vanishes, a = 1 does not
y = np.arange(1.0, 7.0).reshape(3, 2)
ref = x @ y
tree = ctg.array_contract_tree(inputs, output, sd, optimize="greedy", canonicalize=False).remove_ind("a")
try:
    m, e = tree.contract([x, y], strip_exponent=True, check_zero=True)
except Exception as exc:  # noqa
    print(f"sliced output index, one vanishing slice, check_zero=True: {type(exc).__name__}: {exc}")
    sys.exit(1)
if not np.allclose(np.asarray(m) * 10.0 ** e, ref):
    print("wrong value")
    sys.exit(1)
print("ok")
