"""F4 (C13): the in-memory expression cache is keyed on hash(...) of the query,
not on the query; hash(-1) == hash(-2) in CPython, so two contractions that
differ only in output order share one cached expression."""
import sys
import numpy as np
import cotengra as ct

x = np.arange(8.0).reshape(2, 4)
y = np.arange(8.0).reshape(4, 2) + 1
inputs = ((-1, 5), (5, -2))
xx = np.arange(6.0).reshape(2, 3)
yy = np.arange(12.0).reshape(3, 4)
a = ct.array_contract([xx, yy], inputs, (-1, -2), canonicalize=False)
b_cached = ct.array_contract([xx, yy], inputs, (-2, -1), canonicalize=False)
b_plain = ct.array_contract([xx, yy], inputs, (-2, -1), canonicalize=False, cache_expression=False)
print("F4: first", a.shape, "second cached", b_cached.shape, "second uncached", b_plain.shape)
ok = b_cached.shape == b_plain.shape and np.allclose(b_cached, b_plain)
sys.exit(0 if ok else 1)
