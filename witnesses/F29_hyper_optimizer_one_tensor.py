"""F29 (C05-ZEROSTEP::score, recorded, not repaired): every exact objective of the hyper-optimizer takes log2 of a
trial's flops / write / size; for a one-tensor network the tree has no step (flops 0, write 0, size -inf), the
objective raises ValueError for every trial and `HyperOptimizer.search` / `array_contract_path(...,
optimize=HyperOptimizer(...))` return no contraction (with the default on_trial_error='warn' the search ends in
KeyError: 'tree').  Exit 1 while the defect is present."""
import sys
import warnings
import cotengra as ctg

warnings.simplefilter("ignore")
inputs, output, sd = [("a", "b")], ("b", "a"), {"a": 2, "b": 3}
bad = []
for minimize in ("flops", "write", "size", "combo", "limit"):
    for on_err in ("raise", "warn"):
        opt = ctg.HyperOptimizer(methods=["greedy"], minimize=minimize, max_repeats=2, parallel=False,
                                 progbar=False, on_trial_error=on_err)
        try:
            path = ctg.array_contract_path(inputs, output, sd, optimize=opt)
            if tuple(path) != ():
                bad.append(f"minimize={minimize}: path {path!r}")
        except Exception as e:  # noqa
            bad.append(f"minimize={minimize} on_trial_error={on_err}: {type(e).__name__}: {e}")
if bad:
    print("HyperOptimizer on a one-tensor network:")
    for b in bad:
        print("  ", b)
    sys.exit(1)
print("ok")
