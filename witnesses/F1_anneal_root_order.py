"""F1 (C02): after simulated annealing the root's legs are stored in the order
produced by the local move evaluator, not in the declared output order, so
``contract`` returns a transposed array."""
import sys
from _common import network, ok

bad = 0
for seed in range(60):
    tree, arrays, expected = network(seed)
    tree.simulated_anneal_(tstart=50, tfinal=40, tsteps=2, numiter=2, seed=seed)
    if not ok(tree, arrays, expected):
        bad += 1
print("F1 failing seeds:", bad, "/ 60")
sys.exit(1 if bad else 0)
