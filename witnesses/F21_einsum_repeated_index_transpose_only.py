"""F21 (C11-PERM permutation): `_parse_eq_to_batch_matmul` plans a bare transposition for an operand whenever
the *sets* of its indices and of the wanted layout agree.  For an operand with a repeated index (`aab`, wanted
`ab`) the tuple has fewer entries than the operand has axes and transpose raises — `cotengra.contract.einsum`
fails where the reference einsum returns a value.  Exit 1 on the defective tree, 0 after the repair."""
import sys
import numpy as np
from cotengra.contract import einsum

rng = np.random.default_rng(0)
bad = []
for eq, sa, sb in [("aab,bc->ac", (2, 2, 3), (3, 4)), ("a,aa->", (3,), (3, 3)), ("ab,bcc->ac", (2, 3), (3, 4, 4)),
                   ("aab,bcc->ac", (2, 2, 3), (3, 4, 4)), ("baa,bc->ac", (3, 2, 2), (3, 4))]:
    a, b = rng.normal(size=sa), rng.normal(size=sb)
    try:
        got = einsum(eq, a, b)
        if not np.allclose(got, np.einsum(eq, a, b)):
            bad.append(f"{eq}: wrong value")
    except Exception as e:  # noqa
        bad.append(f"{eq}: {type(e).__name__}: {e}")
if bad:
    print("cotengra.contract.einsum disagrees with numpy.einsum:")
    for x in bad:
        print("  ", x)
    sys.exit(1)
print("ok")
