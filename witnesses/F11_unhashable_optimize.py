"""F11 (C13): array_contract_path with cache=True raises for an explicit path
given as a list of lists, while cache=False returns the path."""
import sys
import cotengra as ct

inputs = (("a", "b"), ("b", "c"), ("c", "d"))
shapes = ((2, 3), (3, 4), (4, 5))
plain = ct.array_contract_path(inputs, ("a", "d"), shapes=shapes, optimize=[[0, 1], [0, 1]], cache=False)
try:
    cached = ct.array_contract_path(inputs, ("a", "d"), shapes=shapes, optimize=[[0, 1], [0, 1]], cache=True)
except TypeError as e:
    print("F11: TypeError with cache=True:", e, "| uncached:", plain)
    sys.exit(1)
print("F11: cached", cached, "uncached", plain)
sys.exit(0 if tuple(map(tuple, cached)) == tuple(map(tuple, plain)) else 1)
