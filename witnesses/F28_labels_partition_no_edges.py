"""F28 (C05-NONEMPTY::max-over-edges): labels_partition normalises edge weights by `max(winfo["edge_weights"])`;
a network made of scalars only has no edge, max() of the empty collection raised ValueError and the 'labels' /
'labels-agglom' builders returned no contraction for more tensors than their cutoff / group size.
Exit 1 on the defective tree, 0 after the repair."""
import sys
from cotengra.pathfinders.path_labels import labels_partition, labels_to_tree

bad = []
for n in (6, 12, 30):
    inputs, output, sd = [()] * n, (), {}
    for what, fn in {
        "labels_partition": lambda: labels_partition(inputs, output, sd, parts=2, seed=1),
        "labels_to_tree.build_divide": lambda: labels_to_tree.build_divide(inputs, output, sd, seed=1),
    }.items():
        try:
            res = fn()
        except Exception as e:  # noqa
            bad.append(f"{n} scalars: {what}: {type(e).__name__}: {e}")
            continue
        if what == "labels_partition":
            if len(res) != n:
                bad.append(f"{n} scalars: {what}: {len(res)} labels")
        elif not (res.is_complete() and len(res.get_path()) == n - 1):
            bad.append(f"{n} scalars: {what}: incomplete")
if bad:
    for b in bad:
        print("  ", b)
    sys.exit(1)
print("ok")
