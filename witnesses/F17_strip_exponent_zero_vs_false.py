"""F17 (C13): the cached-expression key compares options by ``==``; the contractor
tested ``strip_exponent is not False``.  ``strip_exponent=0`` equals (and hashes as)
``False``, so after one call with ``False`` the call with ``0`` is answered from that
entry (plain array), while without the cache it strips (returns (mantissa, exponent)).

Run with cwd=/repo:  /venv/bin/python /verif/witnesses/F17_strip_exponent_zero_vs_false.py
Exit status 1 and a line starting ``WITNESS`` if cached and uncached calls disagree.
"""
import sys
import numpy as np
import cotengra as ct

inputs, output, shapes, size_dict = ct.utils.rand_equation(6, 3, n_out=1, seed=0)
arrays = [np.ones(s) for s in shapes]
kw = dict(size_dict=size_dict)
ct.array_contract(arrays, inputs, output, strip_exponent=False, cache_expression=True, **kw)
cached = ct.array_contract(arrays, inputs, output, strip_exponent=0, cache_expression=True, **kw)
plain = ct.array_contract(arrays, inputs, output, strip_exponent=0, cache_expression=False, **kw)
print("cached:", type(cached).__name__, " uncached:", type(plain).__name__)
if type(cached) is not type(plain):
    print("WITNESS F17: strip_exponent=0 is answered differently with and without the expression cache")
    sys.exit(1)
