"""F7 (C17): three seeded operations consume the *global* random generator
because the seed is not passed down to a helper:
 a) subtree_reconfigure(seed=, subtree_search='random') -> get_subtree
 b) subtree_reconfigure_forest(seed=) -> the per-sapling subtree_reconfigure
 c) PartitionTreeBuilder.build_agglom(seed=) -> partition_fn
Each is run several times with the same arguments and seed, the global
generator deliberately perturbed in between."""
import random
import sys
import cotengra as ct

inputs, output, shapes, size_dict = ct.utils.rand_equation(30, 3, n_out=2, seed=42)
base = ct.array_contract_tree(inputs, output, size_dict, optimize="greedy")


def distinct(fn, runs=6):
    seen = set()
    for k in range(runs):
        random.seed(1000 + k)
        [random.random() for _ in range(k)]
        seen.add(fn())
    return len(seen)


def a():
    t = base.subtree_reconfigure(seed=7, subtree_search="random", subtree_size=6, maxiter=20)
    return t.get_path()


def b():
    t = base.subtree_reconfigure_forest(seed=7, parallel=False, num_trees=3, num_restarts=2,
                                        subtree_maxiter=10, subtree_size=6)
    return t.get_path()


def c():
    from cotengra.pathfinders.path_kahypar import kahypar_to_tree
    t = kahypar_to_tree.build_agglom(inputs, output, size_dict, seed=5, groupsize=4)
    return t.get_path()


def c2():
    from cotengra.pathfinders.path_labels import labels_to_tree
    t = labels_to_tree.build_agglom(inputs, output, size_dict, seed=5, groupsize=4)
    return t.get_path()


bad = 0
for name, fn in [("a subtree_reconfigure/random", a), ("b subtree_reconfigure_forest", b),
                 ("c kahypar build_agglom", c), ("c labels build_agglom", c2)]:
    n = distinct(fn)
    print(f"F7 {name}: {n} distinct results in 6 runs with one seed")
    bad += n != 1
sys.exit(1 if bad else 0)
