"""F12 (C04): nodes created by simulated annealing get their flops/size
pre-supplied, so their 'involved' (and, for the root, 'legs') entries are never
cached.  remove_ind computes them lazily *after* it has updated sliced_inds and
reset the sliced leaves, finds that the index is 'not involved', and skips the
node: the tracked totals then disagree with a tree rebuilt from
(get_path(), sliced_inds)."""
import sys
import cotengra as ct

bad = 0
for seed in range(10):
    inputs, output, shapes, size_dict = ct.utils.rand_equation(10, 3, n_out=2, seed=seed)
    tree = ct.array_contract_tree(inputs, output, size_dict, optimize="greedy")
    tree.simulated_anneal_(tstart=50, tfinal=40, tsteps=2, numiter=2, seed=seed)
    # n.b. array_contract_tree relabels the indices: use the tree's own labels
    out = list(tree.output)
    for ix in out[:1] + [ix for ix in tree.size_dict if ix not in out][:2]:
        tree.remove_ind_(ix)
    rebuilt = ct.ContractionTree.from_path(
        tree.inputs, tree.output, tree.size_dict, path=tree.get_path()
    )
    for ix in tree.sliced_inds:
        rebuilt.remove_ind_(ix)
    a, b = tree.contract_stats(), rebuilt.contract_stats()
    if a != b:
        bad += 1
        if bad == 1:
            print("F12 example: tracked", a, "rebuilt", b)
print("F12: histories with stale tracked costs:", bad, "/ 10")
sys.exit(1 if bad else 0)
