"""F10 (C14, recorded as known finding): hash_contraction_a feeds pickle.dumps
of a structure in which every index label occurs several times; pickle's memo
emits a back-reference when the *same object* recurs and a second copy when an
*equal but distinct* string recurs, so two equal contractions can get different
fingerprints -- e.g. one whose labels are shared objects (built in this process)
and one rebuilt from a file / another process (load_from_json)."""
import json
import sys
import tempfile

from cotengra.reusable import hash_contraction

k2 = "k2"
inputs_shared = (("k1", k2), (k2, "k3"))
inputs_distinct = (("k1", "".join(["k", "2"])), ("".join(["k", "2"]), "k3"))
output = ("k1", "k3")
size_dict = {"k1": 2, "k2": 3, "k3": 4}
assert inputs_shared == inputs_distinct
bad = 0
for method in ("a", "b"):
    h1 = hash_contraction(inputs_shared, output, size_dict, method)
    h2 = hash_contraction(inputs_distinct, output, size_dict, method)
    print(f"F10 method {method}: equal contractions, equal fingerprints: {h1 == h2}")
    if method == "a" and h1 != h2:
        bad += 1
# the realistic route: the same contraction round-tripped through JSON
from cotengra.utils import save_to_json, load_from_json  # noqa: E402

with tempfile.TemporaryDirectory() as d:
    fn = d + "/c.json"
    save_to_json([list(t) for t in inputs_shared], list(output), size_dict, fn)
    i2, o2, s2 = load_from_json(fn)
    h1 = hash_contraction(tuple(map(tuple, inputs_shared)), tuple(output), size_dict, "a")
    h2 = hash_contraction(tuple(map(tuple, i2)), tuple(o2), s2, "a")
    print("F10 after a JSON round trip the default fingerprint is unchanged:", h1 == h2)
    if h1 != h2:
        bad += 1
sys.exit(1 if bad else 0)
