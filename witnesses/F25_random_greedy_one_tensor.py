"""F25 (C05-ZEROSTEP): `optimize_random_greedy_track_flops` reports log10 of the best operation count; a
one-tensor network is contracted in no steps, the count stays 0 and math.log10(0) raised ValueError, so
`array_contract_path(..., optimize='random-greedy')` (and RandomGreedyOptimizer) returned no path for the 1-tensor
case that C05 names.  Exit 1 on the defective tree, 0 after the repair."""
import sys
import cotengra as ctg
from cotengra.pathfinders.path_basic import optimize_random_greedy_track_flops, RandomGreedyOptimizer

bad = []
for name, (inputs, output, sd) in {
    "matrix": ([("a", "b")], ("b", "a"), {"a": 2, "b": 3}),
    "trace": ([("a", "a")], (), {"a": 2}),
    "scalar": ([()], (), {}),
}.items():
    for what, fn in {
        "optimize_random_greedy_track_flops": lambda: optimize_random_greedy_track_flops(inputs, output, sd)[0],
        "array_contract_path('random-greedy')": lambda: ctg.array_contract_path(inputs, output, sd, optimize="random-greedy"),
        "RandomGreedyOptimizer()": lambda: RandomGreedyOptimizer(max_repeats=4)(inputs, output, sd),
    }.items():
        try:
            p = fn()
        except Exception as e:  # noqa
            bad.append(f"{name}: {what}: {type(e).__name__}: {e}")
            continue
        if len(p) != 0:
            bad.append(f"{name}: {what}: returned {p!r}")
if bad:
    print("random-greedy on a one-tensor network:")
    for b in bad:
        print("  ", b)
    sys.exit(1)
print("ok")
