"""F22 (C10-COUNT, also C05 'completion of partial paths'): ContractionTreeCompressed.from_path converts a
linear `path=` with `linear_to_ssa(path)`, which infers the number of inputs from the path.  For an
incomplete path (accepted and auto-completed by both tree classes) the inferred count is too small and the
conversion raises IndexError, while ContractionTree.from_path completes the same path.
Exit 1 on the defective tree, 0 after the repair."""
import sys
import warnings
from cotengra.core import ContractionTree, ContractionTreeCompressed

warnings.simplefilter("ignore")
inputs = [("a", "b"), ("b", "c"), ("c", "d"), ("d", "e")]
output = ("a", "e")
sd = {k: 2 for k in "abcde"}
bad = []
for path in ([(2, 3)], [(2, 3), (0, 1)], [(1, 2)], [(0, 1), (0, 1), (0, 1)]):
    ref = ContractionTree.from_path(inputs, output, sd, path=path)
    try:
        t = ContractionTreeCompressed.from_path(inputs, output, sd, path=path)
    except Exception as e:  # noqa
        bad.append(f"path={path}: {type(e).__name__}: {e}")
        continue
    if not t.is_complete():
        bad.append(f"path={path}: incomplete tree")
    # the first step given by the caller is a node of the tree
    first = frozenset(path[0])
    if first not in set(t.children):
        bad.append(f"path={path}: first step {path[0]} is not a node of the compressed tree")
if bad:
    print("ContractionTreeCompressed.from_path disagrees with ContractionTree.from_path on incomplete paths:")
    for b in bad:
        print("  ", b)
    sys.exit(1)
print("ok")
