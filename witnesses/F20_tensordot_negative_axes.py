"""F20 (C11-AXES negative): negative axis numbers for the second operand (valid for numpy.tensordot)
never match the enumerated positions in _parse_tensordot_axes_to_matmul, the axis is treated as
uncontracted and the call fails.  Exit 0 = defect absent, 1 = present."""
import sys

import numpy as np

from cotengra.contract import tensordot

rng = np.random.default_rng(1)
a, b = rng.normal(size=(2, 3, 4)), rng.normal(size=(4, 3, 5))
bad = 0
for axes in (([-1], [0]), ([2], [-3]), ([-1, -2], [-3, -2]), ([1, 2], [-2, 0])):
    try:
        ok = np.allclose(tensordot(a, b, axes), np.tensordot(a, b, axes))
        print(f"axes={axes}: {'ok' if ok else 'WRONG VALUE'}")
        bad += not ok
    except Exception as e:  # noqa: BLE001
        print(f"axes={axes}: raises {type(e).__name__}: {str(e)[:80]}")
        bad += 1
sys.exit(1 if bad else 0)
