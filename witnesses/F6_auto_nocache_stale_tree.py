"""F6 (C16): AutoOptimizer(cache=False) keeps one HyperOptimizer per thread and
reuses it for later queries; HyperOptimizer carries its best tree across
searches, so a later query about a different contraction can get the earlier
contraction's tree back."""
import sys
import cotengra as ct

opt = ct.AutoOptimizer(cache=False, optimal_cutoff=0, max_repeats=4)
i1, o1, _, s1 = ct.utils.rand_equation(6, 3, n_out=1, seed=1)
i2, o2, _, s2 = ct.utils.rand_equation(12, 3, n_out=1, seed=2)
t1 = opt.search(i1, o1, s1)
t2 = opt.search(i2, o2, s2)
print("F6: first query N =", t1.N, "second query N =", t2.N, "(asked about", len(i2), "tensors)")
ok = t2.N == len(i2) and tuple(map(tuple, t2.inputs)) == tuple(map(tuple, i2))
p2 = opt(i2, o2, s2)
p1 = opt(i1, o1, s1)
print("F6: path lengths", len(p2), len(p1))
ok = ok and len(p2) == len(i2) - 1 and len(p1) == len(i1) - 1
sys.exit(0 if ok else 1)
