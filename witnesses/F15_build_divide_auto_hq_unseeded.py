"""F15 (C17, known finding): the partition-based builder with a fixed integer seed is
not a function of its arguments once the number of parts is large enough for the
default ``super_optimize="auto-hq"`` to fall through to the (unseedable, time-budgeted)
hyper-optimizer: two fresh interpreters, same arguments, same seed, same
PYTHONHASHSEED, only the global RNG state differs -> different trees.

Run with cwd=/repo:  /venv/bin/python /verif/witnesses/F15_build_divide_auto_hq_unseeded.py
(takes a few minutes: the hyper-optimizer runs 128 trials per process)
Exit status 1 and a line starting ``WITNESS`` if the two runs differ.
"""
import hashlib
import os
import subprocess
import sys

CHILD = r"""
import random, sys, hashlib
import cotengra as ct
from cotengra.pathfinders.path_labels import labels_to_tree
inputs, output, shapes, size_dict = ct.utils.rand_equation(%(n)d, %(reg)d, n_out=0, seed=1)
random.seed(int(sys.argv[1]))
t = labels_to_tree.build_divide(inputs, output, size_dict, seed=5, parts=16,
                                parts_decay=0.0, cutoff=10)
print('PATHHASH', hashlib.sha1(repr(t.get_path()).encode()).hexdigest(), t.contraction_cost())
"""


def main():
    n, reg = (int(sys.argv[1]), int(sys.argv[2])) if len(sys.argv) > 2 else (100, 4)
    env = dict(os.environ, PYTHONHASHSEED="1")
    procs = [subprocess.Popen([sys.executable, "-c", CHILD % {"n": n, "reg": reg}, str(k)],
                              stdout=subprocess.PIPE, stderr=subprocess.DEVNULL, env=env, text=True)
             for k in (1, 2)]
    outs = []
    for p in procs:
        o, _ = p.communicate()
        outs.append([l for l in o.splitlines() if l.startswith("PATHHASH")])
    print(outs)
    if outs[0] and outs[1] and outs[0] != outs[1]:
        print("WITNESS F15: build_divide(seed=5, parts=16) returned different trees in two "
              "interpreters that differ only in the global RNG state")
        return 1
    print("no difference observed")
    return 0


if __name__ == "__main__":
    sys.exit(main())
