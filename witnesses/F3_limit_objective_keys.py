"""F3 (C08): minimize='limit' never fills trial['flops'|'write'|'size'], so the
hyper-optimizer cannot record the trial and every search raises KeyError."""
import sys
import cotengra as ct

inputs, output, shapes, size_dict = ct.utils.rand_equation(8, 3, n_out=1, seed=3)
opt = ct.HyperOptimizer(methods=["greedy"], minimize="limit", max_repeats=4, parallel=False, progbar=False)
try:
    tree = opt.search(inputs, output, size_dict)
except KeyError as e:
    print("F3: KeyError", e)
    sys.exit(1)
best = opt.best
stats = tree.contract_stats()
assert all(best[k] == stats[k] for k in ("flops", "write", "size")), (best, stats)
print("F3: ok, recorded costs equal the returned tree's")
