"""E1/E2 — loader and call resolution for the cotengra sources.

The program is a mapping ``relpath -> ast.Module`` built from the *current*
working tree of /repo (or from an in-memory ``{relpath: source}`` mapping, which
is how the self-validation variants are analysed).  cotengra is never imported.
"""

from __future__ import annotations

import ast
import hashlib
import os
import subprocess

REPO = os.environ.get("COTENGRA_REPO", "/repo")
PKG = "cotengra"


class AnalysisError(Exception):
    """The analysis itself cannot be carried out (vanished anchor, idiom not
    recognised, too few instances).  Mapped to exit code 2, never to a
    VIOLATION."""


# --------------------------------------------------------------------------- #
#                                   loading                                   #
# --------------------------------------------------------------------------- #


def read_sources(root=None):
    root = root or REPO
    out = {}
    base = os.path.join(root, PKG)
    for dp, dns, fns in os.walk(base):
        dns[:] = sorted(d for d in dns if d != "__pycache__")
        for fn in sorted(fns):
            if fn.endswith(".py"):
                p = os.path.join(dp, fn)
                rel = os.path.relpath(p, root)
                with open(p, encoding="utf-8") as f:
                    out[rel] = f.read()
    return out


def read_sources_git(rev, root=None):
    """Sources of the package at a git revision (used by the self-validation to
    analyse the pre-fix tree)."""
    root = root or REPO
    names = subprocess.run(
        ["git", "-C", root, "ls-tree", "-r", "--name-only", rev, PKG],
        capture_output=True,
        text=True,
        check=True,
    ).stdout.split()
    out = {}
    for n in names:
        if n.endswith(".py"):
            out[n] = subprocess.run(
                ["git", "-C", root, "show", f"{rev}:{n}"],
                capture_output=True,
                text=True,
                check=True,
            ).stdout
    return out


class Func:
    """A function or method definition."""

    __slots__ = (
        "node",
        "module",
        "cls",
        "name",
        "qual",
        "parent_func",
        "decorators",
        "bound_kwargs",
        "_params",
    )

    def __init__(self, node, module, cls=None, parent_func=None):
        self.node = node
        self.module = module
        self.cls = cls
        self.name = node.name
        self.parent_func = parent_func
        if parent_func is not None:
            self.qual = f"{parent_func.qual}.<locals>.{node.name}"
        elif cls is not None:
            self.qual = f"{cls.name}.{node.name}"
        else:
            self.qual = node.name
        self.decorators = node.decorator_list
        self.bound_kwargs = {}
        self._params = None

    @property
    def key(self):
        return f"{self.module.path}::{self.qual}"

    @property
    def params(self):
        if self._params is None:
            a = self.node.args
            ps = [x.arg for x in a.posonlyargs + a.args]
            ps += [x.arg for x in a.kwonlyargs]
            self._params = ps
        return self._params

    @property
    def positional(self):
        a = self.node.args
        return [x.arg for x in a.posonlyargs + a.args]

    @property
    def vararg(self):
        return self.node.args.vararg.arg if self.node.args.vararg else None

    @property
    def kwarg(self):
        return self.node.args.kwarg.arg if self.node.args.kwarg else None

    def defaults(self):
        """param -> default expression (ast)"""
        a = self.node.args
        pos = a.posonlyargs + a.args
        out = {}
        for p, d in zip(pos[len(pos) - len(a.defaults):], a.defaults):
            out[p.arg] = d
        for p, d in zip(a.kwonlyargs, a.kw_defaults):
            if d is not None:
                out[p.arg] = d
        return out

    def has_decorator(self, name):
        for d in self.decorators:
            if dotted(d) == name or (
                isinstance(d, ast.Call) and dotted(d.func) == name
            ):
                return True
        return False

    def decorator_call(self, name):
        for d in self.decorators:
            if isinstance(d, ast.Call) and dotted(d.func) in (
                name,
                "functools." + name,
            ):
                return d
        return None

    @property
    def loc(self):
        return f"{self.module.path}:{self.node.lineno}"

    def __repr__(self):
        return f"<Func {self.key}>"


class Alias:
    """A class-body or module-level alias ``name = <callable expr>``."""

    __slots__ = ("name", "target", "kind", "bound_kwargs", "node")

    def __init__(self, name, target, kind, bound_kwargs=None, node=None):
        self.name = name
        self.target = target  # Func or None
        self.kind = kind  # 'name' | 'partialmethod' | 'deprecated' | 'attr'
        self.bound_kwargs = bound_kwargs or {}
        self.node = node


class ClassInfo:
    __slots__ = (
        "node",
        "module",
        "name",
        "base_exprs",
        "bases",
        "methods",
        "aliases",
        "subclasses",
        "class_assigns",
    )

    def __init__(self, node, module):
        self.node = node
        self.module = module
        self.name = node.name
        self.base_exprs = node.bases
        self.bases = []  # resolved ClassInfo
        self.methods = {}  # name -> Func (defined here)
        self.aliases = {}  # name -> Alias (defined here)
        self.subclasses = []
        self.class_assigns = {}  # name -> value expr

    @property
    def key(self):
        return f"{self.module.path}::{self.name}"

    def mro(self):
        out, seen = [], set()
        stack = [self]
        while stack:
            c = stack.pop(0)
            if id(c) in seen:
                continue
            seen.add(id(c))
            out.append(c)
            stack.extend(c.bases)
        return out

    def lookup(self, name):
        """Resolve ``name`` through the MRO to a Func (following aliases)."""
        for c in self.mro():
            if name in c.methods:
                return c.methods[name]
            if name in c.aliases and c.aliases[name].target is not None:
                return c.aliases[name].target
        return None

    def lookup_alias(self, name):
        for c in self.mro():
            if name in c.methods:
                return None
            if name in c.aliases:
                return c.aliases[name]
        return None

    def all_subclasses(self):
        out, stack = [], list(self.subclasses)
        while stack:
            c = stack.pop()
            if c not in out:
                out.append(c)
                stack.extend(c.subclasses)
        return out

    def is_subclass_of(self, other):
        return other in self.mro()

    def all_method_names(self):
        names = set()
        for c in self.mro():
            names.update(c.methods)
            names.update(c.aliases)
        return names

    def __repr__(self):
        return f"<Class {self.key}>"


class Module:
    __slots__ = (
        "path",
        "name",
        "tree",
        "source",
        "funcs",
        "classes",
        "imports",
        "assigns",
        "aliases",
        "all_funcs",
        "parents",
        "is_pkg",
    )

    def __init__(self, path, source, tree=None):
        self.path = path
        self.source = source
        self.tree = tree if tree is not None else ast.parse(source, path)
        self.is_pkg = path.endswith("__init__.py")
        mod = path[:-3].replace("/", ".")
        if self.is_pkg:
            mod = mod[: -len(".__init__")]
        self.name = mod
        self.funcs = {}  # top-level functions (last definition wins)
        self.classes = {}
        self.imports = {}  # local name -> (module name, attr or None)
        self.assigns = {}  # name -> list of value exprs (module level)
        self.aliases = {}
        self.all_funcs = []  # every Func incl. nested & methods
        self.parents = {}

    def package(self):
        return self.name if self.is_pkg else self.name.rsplit(".", 1)[0]


def dotted(node):
    """'a.b.c' for Name/Attribute chains, else None."""
    parts = []
    while isinstance(node, ast.Attribute):
        parts.append(node.attr)
        node = node.value
    if isinstance(node, ast.Name):
        parts.append(node.id)
        return ".".join(reversed(parts))
    return None


def iter_child_stmts(body):
    """All statements reachable without entering nested defs/classes."""
    for st in body:
        yield st
        for fld in ("body", "orelse", "finalbody"):
            sub = getattr(st, fld, None)
            if sub and not isinstance(
                st, (ast.FunctionDef, ast.AsyncFunctionDef, ast.ClassDef)
            ):
                yield from iter_child_stmts(sub)
        if isinstance(st, ast.Try):
            for h in st.handlers:
                yield from iter_child_stmts(h.body)
        if isinstance(st, ast.Match):
            for c in st.cases:
                yield from iter_child_stmts(c.body)


def walk_local(node):
    """ast.walk that does not descend into nested function/class definitions
    (lambdas and comprehensions are descended into)."""
    stack = [node]
    first = True
    while stack:
        n = stack.pop()
        if not first and isinstance(
            n, (ast.FunctionDef, ast.AsyncFunctionDef, ast.ClassDef)
        ):
            continue
        first = False
        yield n
        stack.extend(ast.iter_child_nodes(n))


class Program:
    def __init__(self, sources, label="worktree"):
        self.label = label
        self.sources = dict(sources)
        self.modules = {}  # path -> Module
        self.by_name = {}  # dotted -> Module
        self.parse_errors = []
        for path in sorted(sources):
            src = sources[path]
            try:
                m = Module(path, src)
            except SyntaxError as e:
                raise AnalysisError(f"cannot parse {path}: {e}")
            self.modules[path] = m
            self.by_name[m.name] = m
        self.funcs = {}  # key -> Func
        self.classes = {}  # key -> ClassInfo
        self.classes_by_name = {}
        self.methods_by_name = {}
        for m in self.modules.values():
            self._index_module(m)
        self._resolve_bases()
        for m in self.modules.values():
            self._resolve_aliases(m)
        self._build_method_index()
        self._callcache = {}
        self._callers = None

    # ---------------------------------------------------------------- build

    @classmethod
    def from_repo(cls, root=None):
        return cls(read_sources(root), label="worktree")

    def digest(self):
        h = hashlib.sha256()
        for p in sorted(self.sources):
            h.update(p.encode())
            h.update(self.sources[p].encode())
        return h.hexdigest()

    def _index_module(self, m):
        for node in ast.walk(m.tree):
            for ch in ast.iter_child_nodes(node):
                m.parents[ch] = node

        def visit_body(body, cls, parent_func):
            for st in iter_child_stmts(body):
                if isinstance(st, (ast.FunctionDef, ast.AsyncFunctionDef)):
                    f = Func(st, m, cls=cls, parent_func=parent_func)
                    m.all_funcs.append(f)
                    if parent_func is None and cls is None:
                        m.funcs[st.name] = f
                    elif parent_func is None and cls is not None:
                        cls.methods[st.name] = f
                    self.funcs[f.key] = f
                    visit_body(st.body, None, f)
                elif isinstance(st, ast.ClassDef):
                    if parent_func is None and cls is None:
                        c = ClassInfo(st, m)
                        m.classes[st.name] = c
                        self.classes[c.key] = c
                        self.classes_by_name.setdefault(st.name, []).append(c)
                        visit_body(st.body, c, None)
                        for s2 in st.body:
                            if isinstance(s2, ast.Assign):
                                for t in s2.targets:
                                    if isinstance(t, ast.Name):
                                        c.class_assigns[t.id] = s2.value
                    else:
                        # nested class: index its functions as nested funcs
                        visit_body(st.body, None, parent_func)
                elif parent_func is None and cls is None:
                    if isinstance(st, ast.Import):
                        for a in st.names:
                            local = a.asname or a.name.split(".")[0]
                            m.imports[local] = (
                                a.name if a.asname else a.name.split(".")[0],
                                None,
                            )
                    elif isinstance(st, ast.ImportFrom):
                        modname = self._abs_module(m, st.module, st.level)
                        for a in st.names:
                            m.imports[a.asname or a.name] = (modname, a.name)
                    elif isinstance(st, ast.Assign):
                        for t in st.targets:
                            if isinstance(t, ast.Name):
                                m.assigns.setdefault(t.id, []).append(st.value)
                            elif isinstance(t, ast.Tuple):
                                for e in t.elts:
                                    if isinstance(e, ast.Name):
                                        m.assigns.setdefault(e.id, []).append(
                                            st.value
                                        )
                    elif isinstance(st, ast.AnnAssign) and isinstance(
                        st.target, ast.Name
                    ):
                        if st.value is not None:
                            m.assigns.setdefault(st.target.id, []).append(
                                st.value
                            )

        visit_body(m.tree.body, None, None)

    def _abs_module(self, m, module, level):
        if level == 0:
            return module
        pkg = m.package().split(".")
        if level > 1:
            pkg = pkg[: len(pkg) - (level - 1)]
        if module:
            pkg = pkg + module.split(".")
        return ".".join(pkg)

    def local_imports(self, func):
        """Imports executed inside ``func`` (function-level imports are common
        in this code base): local name -> (module, attr)."""
        cache = self.__dict__.setdefault("_li_cache", {})
        hit = cache.get(id(func.node))
        if hit is not None:
            return hit
        out = {}
        cache[id(func.node)] = out
        f = func
        while f is not None:
            for n in walk_local(f.node):
                if isinstance(n, ast.ImportFrom):
                    modname = self._abs_module(f.module, n.module, n.level)
                    for a in n.names:
                        out.setdefault(a.asname or a.name, (modname, a.name))
                elif isinstance(n, ast.Import):
                    for a in n.names:
                        local = a.asname or a.name.split(".")[0]
                        out.setdefault(
                            local,
                            (a.name if a.asname else a.name.split(".")[0], None),
                        )
            f = f.parent_func
        return out

    def _resolve_bases(self):
        for c in self.classes.values():
            for b in c.base_exprs:
                r = self.resolve_expr_static(c.module, b)
                if isinstance(r, ClassInfo):
                    c.bases.append(r)
                    r.subclasses.append(c)

    def _resolve_aliases(self, m):
        # class-body aliases
        for c in m.classes.values():
            for st in c.node.body:
                if not isinstance(st, ast.Assign) or len(st.targets) != 1:
                    continue
                t = st.targets[0]
                if not isinstance(t, ast.Name):
                    continue
                al = self._alias_of(m, c, t.id, st.value)
                if al is not None:
                    c.aliases[t.id] = al
        for name, vals in m.assigns.items():
            if len(vals) == 1:
                al = self._alias_of(m, None, name, vals[0])
                if al is not None:
                    m.aliases[name] = al

    def _alias_of(self, m, cls, name, value):
        def res(expr):
            if isinstance(expr, ast.Name) and cls is not None:
                if expr.id in cls.methods:
                    return cls.methods[expr.id]
                if expr.id in cls.aliases:
                    return cls.aliases[expr.id].target
            r = self.resolve_expr_static(m, expr)
            if isinstance(r, Func):
                return r
            if isinstance(r, Alias):
                return r.target
            return None

        if isinstance(value, (ast.Name, ast.Attribute)):
            r = res(value)
            if r is not None:
                return Alias(name, r, "name", node=value)
            return None
        if isinstance(value, ast.Call):
            fn = dotted(value.func)
            if fn in ("functools.partialmethod", "partialmethod",
                      "functools.partial", "partial") and value.args:
                r = res(value.args[0])
                inner_kw = {}
                if isinstance(value.args[0], ast.Name) and cls is not None:
                    a0 = cls.aliases.get(value.args[0].id)
                    if a0 is not None:
                        inner_kw = dict(a0.bound_kwargs)
                if r is not None:
                    kw = dict(inner_kw)
                    kw.update({k.arg: k.value for k in value.keywords if k.arg})
                    return Alias(name, r, "partialmethod", kw, node=value)
            if fn == "deprecated" and value.args:
                r = res(value.args[0])
                if r is not None:
                    return Alias(name, r, "deprecated", node=value)
        return None

    def _build_method_index(self):
        for c in self.classes.values():
            for n, f in c.methods.items():
                self.methods_by_name.setdefault(n, []).append(f)
            for n, a in c.aliases.items():
                if a.target is not None:
                    self.methods_by_name.setdefault(n, []).append(a.target)

    # ------------------------------------------------------------ resolution

    def resolve_expr_static(self, m, expr, func=None, _depth=0):
        """Resolve a Name/Attribute expression, evaluated in module ``m`` (and
        optionally inside ``func`` for function-level imports), to a Func,
        ClassInfo, Module, Alias or ('const', expr) / None."""
        if _depth > 12:
            return None
        if isinstance(expr, ast.Name):
            return self.resolve_name(m, expr.id, func=func, _depth=_depth)
        if isinstance(expr, ast.Attribute):
            base = self.resolve_expr_static(m, expr.value, func, _depth + 1)
            if isinstance(base, Module):
                return self.resolve_name(base, expr.attr, _depth=_depth + 1)
            if isinstance(base, ClassInfo):
                f = base.lookup(expr.attr)
                if f is not None:
                    return f
                return None
            if isinstance(base, tuple) and base[0] == "instance":
                f = base[1].lookup(expr.attr)
                if f is not None:
                    return ("bound", base[1], f)
            return None
        return None

    def resolve_name(self, m, name, func=None, _depth=0):
        if _depth > 12:
            return None
        if func is not None:
            li = self.local_imports(func)
            if name in li:
                return self._resolve_import(li[name], _depth)
        if name in m.funcs:
            return m.funcs[name]
        if name in m.classes:
            return m.classes[name]
        if name in m.imports:
            return self._resolve_import(m.imports[name], _depth)
        if name in m.aliases:
            return m.aliases[name]
        if name in m.assigns:
            vals = m.assigns[name]
            if len(vals) == 1:
                v = vals[0]
                if isinstance(v, ast.Call):
                    callee = self.resolve_expr_static(m, v.func, None, _depth + 1)
                    if isinstance(callee, ClassInfo):
                        return ("instance", callee, v)
                return ("const", v, m)
            return ("multi", vals)
        return None

    def _resolve_import(self, imp, _depth):
        modname, attr = imp
        if attr is None:
            return self.by_name.get(modname)
        mod = self.by_name.get(modname)
        if mod is None:
            sub = self.by_name.get(f"{modname}.{attr}")
            return sub
        r = self.resolve_name(mod, attr, _depth=_depth + 1)
        if r is None:
            sub = self.by_name.get(f"{modname}.{attr}")
            return sub
        return r

    # convenient accessors ------------------------------------------------

    def module(self, path):
        try:
            return self.modules[path]
        except KeyError:
            raise AnalysisError(f"anchor module {path} not found")

    def func(self, path, qual):
        f = self.funcs.get(f"{path}::{qual}")
        if f is None:
            # resolve through class aliases (e.g. ContractionTree.simulated_anneal)
            if "." in qual:
                cn, mn = qual.split(".", 1)
                c = self.modules.get(path) and self.modules[path].classes.get(cn)
                if c is not None:
                    f = c.lookup(mn)
        if f is None:
            raise AnalysisError(f"anchor function {path}::{qual} not found")
        return f

    def cls(self, path, name):
        m = self.module(path)
        c = m.classes.get(name)
        if c is None:
            raise AnalysisError(f"anchor class {path}::{name} not found")
        return c

    def try_func(self, path, qual):
        try:
            return self.func(path, qual)
        except AnalysisError:
            return None

    def enclosing_func(self, m, node):
        n = m.parents.get(node)
        while n is not None:
            if isinstance(n, (ast.FunctionDef, ast.AsyncFunctionDef)):
                for f in m.all_funcs:
                    if f.node is n:
                        return f
            n = m.parents.get(n)
        return None

    def func_of_node(self, m, fnode):
        for f in m.all_funcs:
            if f.node is fnode:
                return f
        return None

    def nested_funcs(self, func):
        return [f for f in func.module.all_funcs if f.parent_func is func]

    def all_funcs(self, paths=None):
        for p, m in self.modules.items():
            if paths is None or p in paths:
                yield from m.all_funcs
