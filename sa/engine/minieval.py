"""A small evaluator for *pure* planner functions (string / tuple / list / set / dict bookkeeping).

Some clauses are about tiny pure functions whose whole job is bookkeeping on index strings (which axis lands
where after a diagonal, which positions are summed, which permutation is left).  Their truth is not visible in the
shape of one statement but it is decidable by evaluating the function's *source* on a finite family of sample
arguments with an interpreter that knows a fixed, side-effect-free fragment of Python.  Nothing of cotengra is
imported or executed: the interpreter walks the syntax tree; any construct outside the fragment raises ``NoEval``
(callers turn that into an analysis error — fail closed), and a step budget bounds every evaluation.
"""

from __future__ import annotations

import ast


class NoEval(Exception):
    pass


class _Return(Exception):
    def __init__(self, value):
        self.value = value


class _Break(Exception):
    pass


class _Continue(Exception):
    pass


class Raised(Exception):
    """the interpreted function executed a ``raise``"""

    def __init__(self, text):
        super().__init__(text)
        self.text = text


SLICE_ALL = ("slice", None)

_PURE_BUILTINS = {
    "len": len, "sorted": sorted, "min": min, "max": max, "sum": sum, "str": str, "int": int, "bool": bool,
    "tuple": tuple, "list": list, "set": set, "frozenset": frozenset, "dict": dict, "zip": lambda *a: list(zip(*a)),
    "range": lambda *a: list(range(*a)), "enumerate": lambda x, start=0: list(enumerate(x, start)),
    "reversed": lambda x: list(reversed(x)), "any": any, "all": all, "abs": abs, "chr": chr, "ord": ord, "float": float,
    "divmod": divmod, "round": round, "pow": pow, "next": next, "iter": iter,
}
_MATH = {"isfinite", "isinf", "isnan", "log10", "log2", "log", "floor", "ceil", "prod", "sqrt", "copysign", "fabs", "exp"}
_METHODS = {
    str: {"count", "replace", "index", "find", "rfind", "join", "split", "startswith", "endswith", "partition", "strip", "lstrip", "rstrip"},
    list: {"append", "extend", "pop", "index", "count", "insert", "copy", "remove", "sort", "reverse"},
    tuple: {"index", "count"},
    set: {"add", "discard", "remove", "update", "copy", "clear", "union", "intersection", "difference", "pop"},
    frozenset: {"union", "intersection", "difference"},
    dict: {"get", "setdefault", "items", "keys", "values", "pop", "copy", "update"},
}


class Mini:
    def __init__(self, funcs=None, budget=20000, consts=None, externals=None, classes=None):
        """``funcs``: name -> ast.FunctionDef of helper functions that may be called (interpreted recursively);
        ``consts``: module-level constants (strings, numbers) the functions read."""
        self.funcs = funcs or {}
        self.budget = budget
        self.consts = consts or {}
        # name -> python callable standing in for a function that is outside the fragment (called with evaluated args)
        self.externals = externals or {}
        # class name -> {method name -> ast.FunctionDef}: instances are namespaces carrying `__cls__`
        self.classes = classes or {}

    # ------------------------------------------------------------ expressions
    def ev(self, e, env):
        self.budget -= 1
        if self.budget < 0:
            raise NoEval("step budget exhausted")
        if isinstance(e, ast.Constant):
            return e.value
        if isinstance(e, ast.Name):
            if e.id in env:
                return env[e.id]
            par_ = env.get("__parent__")
            while par_ is not None:
                if e.id in par_:
                    return par_[e.id]
                par_ = par_.get("__parent__")
            if e.id in ("True", "False", "None"):
                return {"True": True, "False": False, "None": None}[e.id]
            if e.id in self.consts:
                return self.consts[e.id]
            raise NoEval(f"name {e.id}")
        if isinstance(e, (ast.Tuple, ast.List)):
            out = []
            for x in e.elts:
                if isinstance(x, ast.Starred):
                    out.extend(self.ev(x.value, env))
                else:
                    out.append(self.ev(x, env))
            return tuple(out) if isinstance(e, ast.Tuple) else out
        if isinstance(e, ast.Set):
            return {self.ev(x, env) for x in e.elts}
        if isinstance(e, ast.Dict):
            return {self.ev(k, env): self.ev(v, env) for k, v in zip(e.keys, e.values)}
        if isinstance(e, ast.JoinedStr):
            out = ""
            for v in e.values:
                out += str(self.ev(v.value, env)) if isinstance(v, ast.FormattedValue) else v.value
            return out
        if isinstance(e, ast.BinOp):
            a, b = self.ev(e.left, env), self.ev(e.right, env)
            ops = {ast.Add: lambda: a + b, ast.Sub: lambda: a - b, ast.Mult: lambda: a * b, ast.FloorDiv: lambda: a // b,
                   ast.Mod: lambda: a % b, ast.BitOr: lambda: a | b, ast.BitAnd: lambda: a & b, ast.Pow: lambda: a ** b,
                   ast.Div: lambda: a / b, ast.LShift: lambda: a << b, ast.RShift: lambda: a >> b, ast.BitXor: lambda: a ^ b}
            if type(e.op) in ops:
                return ops[type(e.op)]()
            raise NoEval("binary operator")
        if isinstance(e, ast.UnaryOp):
            v = self.ev(e.operand, env)
            if isinstance(e.op, ast.Not):
                return not v
            if isinstance(e.op, ast.USub):
                return -v
            raise NoEval("unary operator")
        if isinstance(e, ast.BoolOp):
            if isinstance(e.op, ast.And):
                v = True
                for x in e.values:
                    v = self.ev(x, env)
                    if not v:
                        return v
                return v
            v = False
            for x in e.values:
                v = self.ev(x, env)
                if v:
                    return v
            return v
        if isinstance(e, ast.Compare):
            left = self.ev(e.left, env)
            for op, r in zip(e.ops, e.comparators):
                right = self.ev(r, env)
                t = {ast.In: lambda: left in right, ast.NotIn: lambda: left not in right, ast.Eq: lambda: left == right,
                     ast.NotEq: lambda: left != right, ast.Lt: lambda: left < right, ast.LtE: lambda: left <= right,
                     ast.Gt: lambda: left > right, ast.GtE: lambda: left >= right, ast.Is: lambda: left is right,
                     ast.IsNot: lambda: left is not right}
                if type(op) not in t:
                    raise NoEval("comparison")
                if not t[type(op)]():
                    return False
                left = right
            return True
        if isinstance(e, ast.IfExp):
            return self.ev(e.body if self.ev(e.test, env) else e.orelse, env)
        if isinstance(e, ast.Subscript):
            v = self.ev(e.value, env)
            sl = e.slice
            if isinstance(sl, ast.Slice):
                lo = self.ev(sl.lower, env) if sl.lower is not None else None
                hi = self.ev(sl.upper, env) if sl.upper is not None else None
                st = self.ev(sl.step, env) if sl.step is not None else None
                return v[lo:hi:st]
            return v[self.ev(sl, env)]
        if isinstance(e, (ast.GeneratorExp, ast.ListComp, ast.SetComp)):
            out = []
            self._comp(e.generators, 0, env, lambda env2: out.append(self.ev(e.elt, env2)))
            return set(out) if isinstance(e, ast.SetComp) else out
        if isinstance(e, ast.DictComp):
            out = {}

            def put(env2):
                out[self.ev(e.key, env2)] = self.ev(e.value, env2)
            self._comp(e.generators, 0, env, put)
            return out
        if isinstance(e, ast.Call):
            return self._call(e, env)
        if isinstance(e, ast.Attribute):
            import types as _types
            recv = self.ev(e.value, env)
            if isinstance(recv, _types.SimpleNamespace) and hasattr(recv, e.attr):
                return getattr(recv, e.attr)
            raise NoEval(f"attribute .{e.attr}")
        raise NoEval(type(e).__name__)

    def _comp(self, gens, i, env, emit):
        if i == len(gens):
            emit(env)
            return
        g = gens[i]
        for v in self.ev(g.iter, env):
            env2 = dict(env)
            self._bind(g.target, v, env2)
            if all(self.ev(c, env2) for c in g.ifs):
                self._comp(gens, i + 1, env2, emit)

    def _args(self, e, env):
        out = []
        for a in e.args:
            if isinstance(a, ast.Starred):
                out.extend(self.ev(a.value, env))
            else:
                out.append(self.ev(a, env))
        return out

    def _call(self, e, env):
        fn = e.func
        if e.keywords and not (isinstance(fn, ast.Attribute) or (isinstance(fn, ast.Name) and (
                fn.id in self.funcs or fn.id in self.externals or fn.id in self.classes or fn.id == "sorted" or True))):
            raise NoEval("keyword arguments")
        if isinstance(fn, ast.Name):
            if fn.id == "slice":
                args = [self.ev(a, env) for a in e.args]
                if args == [None]:
                    return SLICE_ALL
                raise NoEval("slice(...)")
            if fn.id == "isinstance" and len(e.args) == 2:
                types = {"tuple": tuple, "list": list, "str": str, "int": int, "float": float, "dict": dict, "set": set}
                spec = e.args[1]
                names_ = [x.id for x in (spec.elts if isinstance(spec, ast.Tuple) else [spec]) if isinstance(x, ast.Name)]
                if not names_ or any(n_ not in types for n_ in names_):
                    raise NoEval("isinstance(...)")
                return isinstance(self.ev(e.args[0], env), tuple(types[n_] for n_ in names_))
            if fn.id == "map" and len(e.args) == 2:
                seq = self.ev(e.args[1], env)
                f0 = e.args[0]
                if isinstance(f0, ast.Attribute):
                    recv = self.ev(f0.value, env)
                    self._check_method(recv, f0.attr)
                    return [getattr(recv, f0.attr)(x) for x in seq]
                if isinstance(f0, ast.Name) and f0.id in _PURE_BUILTINS:
                    return [_PURE_BUILTINS[f0.id](x) for x in seq]
                raise NoEval("map(...)")
            if isinstance(env.get(fn.id), tuple) and env[fn.id][:1] == ("mathfn",):
                import math as _math
                return getattr(_math, env[fn.id][1])(*[self.ev(a, env) for a in e.args])
            target_ = None
            scope_ = env
            while scope_ is not None and target_ is None:
                if isinstance(scope_.get(fn.id), tuple) and scope_[fn.id][:1] == ("closure",):
                    target_ = scope_[fn.id]
                scope_ = scope_.get("__parent__")
            if target_ is not None:
                _tag, fdef_, cenv_ = target_
                return self.call(fdef_, self._args(e, env), {k.arg: self.ev(k.value, env) for k in e.keywords}, parent=cenv_)
            if fn.id in self.classes:
                import types as _types
                obj = _types.SimpleNamespace(__cls__=fn.id)
                init = self.classes[fn.id].get("__init__")
                if init is not None:
                    self.call(init, [obj] + [self.ev(a, env) for a in e.args], {k.arg: self.ev(k.value, env) for k in e.keywords})
                return obj
            if isinstance(env.get(fn.id), tuple) and env[fn.id][:1] == ("minifn",):
                _tag, name_, extra = env[fn.id]
                kw = {k.arg: self.ev(k.value, env) for k in e.keywords}
                kw.update(extra)
                return self.call(self.funcs[name_], [self.ev(a, env) for a in e.args], kw)
            if fn.id in self.externals:
                return self.externals[fn.id](*[self.ev(a, env) for a in e.args], **{k.arg: self.ev(k.value, env) for k in e.keywords})
            if fn.id in self.funcs:
                args = [self.ev(a, env) for a in e.args]
                kw = {k.arg: self.ev(k.value, env) for k in e.keywords}
                return self.call(self.funcs[fn.id], args, kw)
            if fn.id in _PURE_BUILTINS:
                if e.keywords:
                    if fn.id == "sorted" and all(k.arg == "reverse" for k in e.keywords):
                        return sorted(self.ev(e.args[0], env), reverse=bool(self.ev(e.keywords[0].value, env)))
                    raise NoEval("keyword arguments")
                return _PURE_BUILTINS[fn.id](*[self.ev(a, env) for a in e.args])
            raise NoEval(f"call of {fn.id}")
        if isinstance(fn, ast.Attribute):
            if ast.unparse(fn) == "functools.reduce" and len(e.args) in (2, 3) and ast.unparse(e.args[0]) in ("operator.mul", "operator.add"):
                seq = list(self.ev(e.args[1], env))
                acc = self.ev(e.args[2], env) if len(e.args) == 3 else None
                for v in seq:
                    if acc is None:
                        acc = v
                    else:
                        acc = acc * v if ast.unparse(e.args[0]) == "operator.mul" else acc + v
                return acc
            if ast.unparse(fn) in ("bisect.bisect_left", "bisect.bisect_right", "bisect.bisect") and len(e.args) == 2:
                import bisect as _b
                seq, x = self.ev(e.args[0], env), self.ev(e.args[1], env)
                return (_b.bisect_left if fn.attr == "bisect_left" else _b.bisect_right)(seq, x)
            if isinstance(fn.value, ast.Name) and fn.value.id in self.classes and fn.attr == "__new__":
                import types as _types
                return _types.SimpleNamespace(__cls__=fn.value.id)
            if isinstance(fn.value, ast.Name) and fn.value.id == "heapq" and "heapq" not in env:
                import heapq as _hq
                if fn.attr not in ("heappush", "heappop", "heapify", "heappushpop", "nsmallest", "nlargest"):
                    raise NoEval(f"heapq.{fn.attr}")
                return getattr(_hq, fn.attr)(*[self.ev(a, env) for a in e.args])
            if isinstance(fn.value, ast.Name) and fn.value.id == "itertools" and "itertools" not in env:
                import itertools as _it
                if fn.attr not in ("product", "combinations", "permutations", "chain", "count"):
                    raise NoEval(f"itertools.{fn.attr}")
                if fn.attr == "count":
                    raise NoEval("itertools.count")
                return list(getattr(_it, fn.attr)(*[self.ev(a, env) for a in e.args]))
            recv = self.ev(fn.value, env) if not (isinstance(fn.value, ast.Name) and fn.value.id == "math" and "math" not in env) else __import__("math")
            import types as _types
            if isinstance(recv, _types.SimpleNamespace) and getattr(recv, "__cls__", None) in self.classes and \
                    fn.attr in self.classes[recv.__cls__] and not hasattr(recv, fn.attr):
                return self.call(self.classes[recv.__cls__][fn.attr], [recv] + self._args(e, env),
                                 {k.arg: self.ev(k.value, env) for k in e.keywords})
            if isinstance(recv, _types.SimpleNamespace) and callable(getattr(recv, fn.attr, None)):
                return getattr(recv, fn.attr)(*[self.ev(a, env) for a in e.args], **{k.arg: self.ev(k.value, env) for k in e.keywords})
            import math as _math
            if recv is _math:
                if fn.attr not in _MATH:
                    raise NoEval(f"math.{fn.attr}")
                return getattr(_math, fn.attr)(*[self.ev(a, env) for a in e.args])
            self._check_method(recv, fn.attr)
            return getattr(recv, fn.attr)(*[self.ev(a, env) for a in e.args])
        raise NoEval("call")

    @staticmethod
    def _check_method(recv, name):
        for t, names in _METHODS.items():
            if isinstance(recv, t) and name in names:
                return
        raise NoEval(f"method {type(recv).__name__}.{name}")

    # ------------------------------------------------------------ statements
    def _bind(self, t, v, env):
        if isinstance(t, ast.Name):
            env[t.id] = v
        elif isinstance(t, (ast.Tuple, ast.List)):
            v = list(v)
            stars = [i for i, te in enumerate(t.elts) if isinstance(te, ast.Starred)]
            if stars:
                i = stars[0]
                after = len(t.elts) - i - 1
                if len(stars) > 1 or len(v) < len(t.elts) - 1:
                    raise Raised("ValueError: unpack")
                for te, ve in zip(t.elts[:i], v[:i]):
                    self._bind(te, ve, env)
                self._bind(t.elts[i].value, v[i:len(v) - after], env)
                for te, ve in zip(t.elts[i + 1:], v[len(v) - after:]):
                    self._bind(te, ve, env)
                return
            if len(v) != len(t.elts):
                raise Raised("ValueError: unpack")
            for te, ve in zip(t.elts, v):
                self._bind(te, ve, env)
        elif isinstance(t, ast.Subscript):
            self.ev(t.value, env)[self.ev(t.slice, env)] = v
        elif isinstance(t, ast.Attribute):
            import types as _types
            recv = self.ev(t.value, env)
            if not isinstance(recv, _types.SimpleNamespace):
                raise NoEval("attribute assignment")
            setattr(recv, t.attr, v)
        else:
            raise NoEval("assignment target")

    def run(self, stmts, env):
        for st in stmts:
            self.budget -= 1
            if self.budget < 0:
                raise NoEval("step budget exhausted")
            if isinstance(st, ast.Expr):
                if isinstance(st.value, ast.Constant):
                    continue
                if isinstance(st.value, ast.Yield):
                    self._yields(env).append(self.ev(st.value.value, env) if st.value.value is not None else None)
                    continue
                if isinstance(st.value, ast.YieldFrom):
                    self._yields(env).extend(list(self.ev(st.value.value, env)))
                    continue
                self.ev(st.value, env)
            elif isinstance(st, ast.Assign):
                v = self.ev(st.value, env)
                for t in st.targets:
                    self._bind(t, v, env)
            elif isinstance(st, ast.AugAssign):
                cur = self.ev(st.target, env)
                v = self.ev(st.value, env)
                ops = {ast.Add: lambda: cur + v, ast.Sub: lambda: cur - v, ast.Mult: lambda: cur * v, ast.BitOr: lambda: cur | v,
                       ast.Mod: lambda: cur % v, ast.FloorDiv: lambda: cur // v, ast.BitAnd: lambda: cur & v, ast.Div: lambda: cur / v}
                if type(st.op) not in ops:
                    raise NoEval("augmented assignment")
                self._bind(st.target, ops[type(st.op)](), env)
            elif isinstance(st, ast.If):
                self.run(st.body if self.ev(st.test, env) else st.orelse, env)
            elif isinstance(st, ast.For):
                broke = False
                for v in list(self.ev(st.iter, env)):
                    self._bind(st.target, v, env)
                    try:
                        self.run(st.body, env)
                    except _Continue:
                        continue
                    except _Break:
                        broke = True
                        break
                if not broke:
                    self.run(st.orelse, env)
            elif isinstance(st, ast.While):
                while self.ev(st.test, env):
                    try:
                        self.run(st.body, env)
                    except _Continue:
                        continue
                    except _Break:
                        break
            elif isinstance(st, ast.Return):
                raise _Return(self.ev(st.value, env) if st.value is not None else None)
            elif isinstance(st, ast.Continue):
                raise _Continue()
            elif isinstance(st, ast.Break):
                raise _Break()
            elif isinstance(st, ast.Pass):
                pass
            elif isinstance(st, ast.FunctionDef):
                env[st.name] = ("closure", st, env)
            elif isinstance(st, ast.Try):
                self._try(st, env)
            elif isinstance(st, (ast.Import, ast.ImportFrom)):
                import math as _math
                if isinstance(st, ast.Import) and all(a.name == "math" for a in st.names):
                    for a in st.names:
                        env[a.asname or "math"] = _math
                elif isinstance(st, ast.ImportFrom) and st.module == "math" and all(a.name in _MATH for a in st.names):
                    for a in st.names:
                        env[a.asname or a.name] = ("mathfn", a.name)
                else:
                    raise NoEval("import")
            elif isinstance(st, ast.Delete):
                for t in st.targets:
                    if isinstance(t, ast.Subscript):
                        del self.ev(t.value, env)[self.ev(t.slice, env)]
                    elif isinstance(t, ast.Name):
                        env.pop(t.id, None)
                    else:
                        raise NoEval("del target")
            elif isinstance(st, ast.Assert):
                if not self.ev(st.test, env):
                    raise Raised("AssertionError")
            elif isinstance(st, ast.Raise):
                raise Raised(ast.unparse(st)[:80])
            else:
                raise NoEval(type(st).__name__)

    def _try(self, st, env):
        import re as _re
        try:
            try:
                self.run(st.body, env)
            except (_Return, _Break, _Continue, NoEval):
                raise
            except Raised as ex:
                m_ = _re.match(r"raise\s+([A-Za-z_][A-Za-z_0-9]*)", ex.text)
                self._handle(st, env, m_.group(1) if m_ else "Exception", ex)
            except Exception as ex:  # an operation of the evaluated source failed
                self._handle(st, env, type(ex).__name__, ex)
            else:
                self.run(st.orelse, env)
        finally:
            if st.finalbody:
                self.run(st.finalbody, env)

    _BASES = {"KeyError": ("LookupError",), "IndexError": ("LookupError",), "ZeroDivisionError": ("ArithmeticError",),
              "OverflowError": ("ArithmeticError",), "UnicodeError": ("ValueError",)}

    def _handle(self, st, env, exname, ex):
        for h in st.handlers:
            names = None
            if h.type is not None:
                names = [x.id for x in (h.type.elts if isinstance(h.type, ast.Tuple) else [h.type]) if isinstance(x, ast.Name)]
            if names is None or exname in names or "Exception" in names or "BaseException" in names or \
                    any(b in names for b in self._BASES.get(exname, ())):
                if h.name:
                    env[h.name] = ex
                self.run(h.body, env)
                return
        raise ex

    @staticmethod
    def _yields(env):
        if "__yields__" not in env:
            raise NoEval("yield outside a generator call")
        return env["__yields__"]

    def call(self, fdef, args, kwargs=None, parent=None):
        a = fdef.args
        names = [x.arg for x in a.posonlyargs + a.args]
        env = {}
        if parent is not None:
            env["__parent__"] = parent
        is_gen = any(isinstance(n_, (ast.Yield, ast.YieldFrom)) for n_ in ast.walk(fdef)
                     if not isinstance(n_, ast.FunctionDef) or n_ is fdef)
        if is_gen:
            env["__yields__"] = []
        for kwa, kwd in zip(a.kwonlyargs, a.kw_defaults):
            if kwargs and kwa.arg in kwargs:
                env[kwa.arg] = kwargs[kwa.arg]
            elif kwd is not None:
                env[kwa.arg] = self.ev(kwd, {})
        defaults = dict(zip(names[len(names) - len(a.defaults):], a.defaults))
        for n, v in zip(names, args):
            env[n] = v
        for n in names[len(args):]:
            if kwargs and n in kwargs:
                env[n] = kwargs[n]
            elif n in defaults:
                env[n] = self.ev(defaults[n], {})
            else:
                raise NoEval(f"missing argument {n}")
        try:
            self.run(fdef.body, env)
        except _Return as r:
            return env["__yields__"] if is_gen else r.value
        return env["__yields__"] if is_gen else None
