"""E6/E7 — rule runtime, constructs, known findings, evidence."""

from __future__ import annotations

import hashlib
import json
import os
import time

from .program import AnalysisError, Program
from .resolve import Resolver
from .dataflow import FuncFlow

VERIF = os.path.dirname(os.path.dirname(os.path.dirname(os.path.abspath(__file__))))
KNOWN = os.path.join(VERIF, "known_findings.json")


class Instance:
    __slots__ = ("rule", "construct", "loc", "verdict", "reason", "detail")

    def __init__(self, rule, construct, loc, verdict, reason="", detail=None):
        self.rule = rule
        self.construct = construct
        self.loc = loc
        self.verdict = verdict  # ok | violation | exempt
        self.reason = reason
        self.detail = detail or {}

    def as_dict(self):
        d = {
            "rule": self.rule,
            "construct": self.construct,
            "loc": self.loc,
            "verdict": self.verdict,
        }
        if self.reason:
            d["reason"] = self.reason
        if self.detail:
            d["detail"] = self.detail
        return d


class RuleResult:
    def __init__(self, rule, description, min_instances=1):
        self.rule = rule
        self.description = description
        self.min_instances = min_instances
        self.instances = []
        self.notes = []

    def ok(self, construct, loc, reason="", **detail):
        self.instances.append(Instance(self.rule, construct, loc, "ok", reason, detail))

    def violation(self, construct, loc, reason, **detail):
        self.instances.append(
            Instance(self.rule, construct, loc, "violation", reason, detail)
        )

    def exempt(self, construct, loc, reason, **detail):
        self.instances.append(
            Instance(self.rule, construct, loc, "exempt", reason, detail)
        )

    def note(self, s):
        self.notes.append(s)

    @property
    def violations(self):
        return [i for i in self.instances if i.verdict == "violation"]

    def check_min(self):
        n = len(self.instances)
        if n < self.min_instances:
            raise AnalysisError(
                f"rule {self.rule} matched {n} < expected {self.min_instances} "
                f"instances (anchor idiom changed beyond recognition?)"
            )


class Ctx:
    """Shared analysis context handed to every rule."""

    def __init__(self, program, tier="quick"):
        self.p = program
        self.r = Resolver(program)
        self.tier = tier
        self._flows = {}
        self._effects = None

    def flow(self, func):
        f = self._flows.get(func.key)
        if f is None or f.func is not func:
            f = self._flows[func.key] = FuncFlow(func, self.p)
            f.reaching()
        return f

    @property
    def effects(self):
        if self._effects is None:
            from .effects import Effects

            self._effects = Effects(self.p, self.r)
        return self._effects

    def key(self, func_or_path, rule, disc=None, qual=None):
        if isinstance(func_or_path, str):
            base = f"{func_or_path}::{qual}" if qual else func_or_path
        else:
            base = func_or_path.key
        k = f"{base}::{rule}"
        if disc:
            k += f"::{disc}"
        return k


def load_known():
    if not os.path.exists(KNOWN):
        return {"findings": [], "fixed": []}
    with open(KNOWN) as f:
        return json.load(f)


def run_rules(pid, rules, program, tier):
    """Run the rule functions; returns (results, ctx)."""
    ctx = Ctx(program, tier)
    results = []
    ctx.rule_errors = []
    for fn in rules:
        try:
            res = fn(ctx)
        except AnalysisError as e:
            # one rule that cannot be carried out must not hide what the others find: the error is kept and
            # decides the outcome (exit 2) only if no rule reports a new violation (see check.run_property)
            ctx.rule_errors.append(f"{getattr(fn, '__name__', 'rule')}: {e}")
            continue
        if res is None:
            continue
        if isinstance(res, RuleResult):
            res = [res]
        for r in res:
            # the instance floor guards against rules that silently match nothing;
            # when the rule already reports a violation that is the verdict
            if not r.violations:
                try:
                    r.check_min()
                except AnalysisError as e:
                    ctx.rule_errors.append(str(e))
            results.append(r)
    return results, ctx


def summarise(pid, results, known=None):
    """Split violations into known findings and new violations."""
    known = known if known is not None else load_known()
    kf = {
        (k["property"], k["rule"], k["construct"]): k
        for k in known.get("findings", [])
    }
    new, matched = [], []
    for r in results:
        for v in r.violations:
            k = kf.get((pid, v.rule, v.construct))
            if k is not None:
                matched.append((v, k))
            else:
                new.append(v)
    # a known finding that no longer fires is reported (stale entry), not fatal
    fired = {(pid, v.rule, v.construct) for v, _ in matched}
    stale = [k for key, k in kf.items() if key[0] == pid and key not in fired]
    return new, matched, stale


def write_replay(pid, v):
    d = os.path.join(VERIF, "evidence", "replay")
    os.makedirs(d, exist_ok=True)
    h = hashlib.sha1(v.construct.encode()).hexdigest()[:10]
    path = os.path.join(d, f"{pid}-{v.rule}-{h}.json")
    with open(path, "w") as f:
        json.dump(
            {"property": pid, "rule": v.rule, "construct": v.construct,
             "loc": v.loc, "reason": v.reason, "detail": v.detail},
            f, indent=1, default=str,
        )
    return path


def write_evidence(pid, tier, results, ctx, new, matched, stale, wall, extra=None,
                   explanation="", assumptions=(), seed=0):
    d = os.path.join(VERIF, "evidence")
    os.makedirs(d, exist_ok=True)
    instances = [i for r in results for i in r.instances]
    constructs = {i.construct for i in instances}
    per_rule = []
    for r in results:
        per_rule.append(
            {
                "rule": r.rule,
                "description": r.description,
                "instances": len(r.instances),
                "min_instances": r.min_instances,
                "violations": len(r.violations),
                "exempt": sum(1 for i in r.instances if i.verdict == "exempt"),
                "notes": r.notes,
            }
        )
    samples = []
    for r in results:
        for i in r.instances[:6]:
            samples.append(i.as_dict())
        for i in r.violations:
            dd = i.as_dict()
            if dd not in samples:
                samples.append(dd)
    p = ctx.p
    cov = {
        "explanation": explanation,
        "evaluations": len(instances),
        "distinct_nontrivial": len(constructs),
        "rule": "one evaluation = one rule instance (a site in the current /repo "
                "sources on which the rule's precondition matched, so the obligation "
                "is non-vacuous); distinct = distinct construct keys "
                "path::function::RULE::discriminator",
        "samples": samples,
        "rules": per_rule,
        "modules_parsed": len(p.modules),
        "functions_parsed": len(p.funcs),
        "classes_parsed": len(p.classes),
        "source_digest": p.digest(),
        "known_findings_matched": [
            {"rule": v.rule, "construct": v.construct, "what_fails": k["what_fails"]}
            for v, k in matched
        ],
        "known_findings_stale": [k["construct"] for k in stale],
        "new_violations": [v.as_dict() for v in new],
        "exhaustive": True,
    }
    if extra:
        cov.update(extra)
    ev = {
        "property_id": pid,
        "tier": tier,
        "seed": seed,
        "level": "other",
        "coverage": cov,
        "assumptions": list(assumptions),
        "wall_s": round(wall, 3),
        "violations": len(new),
    }
    path = os.path.join(d, f"{pid}.json")
    with open(path, "w") as f:
        json.dump(ev, f, indent=1, default=str)
    return path
