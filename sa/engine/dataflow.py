"""E4 — reaching definitions and value dependence on a function's CFG.

``FuncFlow(func)`` gives, for an expression evaluated at a CFG node, the set of
*atoms* its value may (union over reaching definitions) or must (intersection)
depend on:

    ('param', name)            a parameter of the function (incl. closure's)
    ('attr', base, attr)       ``base.attr`` read, base a param/global/self name
    ('global', name)           module-level / builtin / free name
    ('call', dotted)           result of calling ``dotted`` (e.g. self.get_legs)
    ('key', dotted, const)     subscript with constant key (e.g. trial['flops'])
"""

from __future__ import annotations

import ast

from .cfg import CFG
from .program import dotted, walk_local

MUTATORS = {
    "add", "discard", "pop", "clear", "update", "setdefault", "append",
    "extend", "insert", "remove", "sort", "popitem", "reverse",
    "difference_update", "intersection_update", "symmetric_difference_update",
    "appendleft", "popleft",
}


class Def:
    __slots__ = ("name", "value", "node", "kind", "index", "strong")

    def __init__(self, name, value, node, kind, index=None, strong=True):
        self.name = name
        self.value = value  # ast expr (or None)
        self.node = node  # cfg node id
        self.kind = kind  # assign|aug|iter|with|except|import|def|mutate|param
        self.index = index  # position when unpacked from a tuple
        self.strong = strong

    def __repr__(self):
        return f"<Def {self.name}@{self.node} {self.kind}>"


def target_names(t):
    """(name, index-path) for every Name bound by assignment target ``t``."""
    if isinstance(t, ast.Name):
        yield t.id, None
    elif isinstance(t, (ast.Tuple, ast.List)):
        for i, e in enumerate(t.elts):
            if isinstance(e, ast.Starred):
                e = e.value
            for n, idx in target_names(e):
                yield n, (i if idx is None else idx)
    elif isinstance(t, ast.Starred):
        yield from target_names(t.value)


def _subscript_keys(expr):
    out = []
    while isinstance(expr, ast.Subscript):
        out.append(expr.slice)
        expr = expr.value
    return out


def _through_attr(expr):
    """the access path from the root name passes an attribute (a.b[c])"""
    while isinstance(expr, (ast.Subscript, ast.Attribute, ast.Call)):
        if isinstance(expr, ast.Attribute):
            return True
        expr = expr.value if not isinstance(expr, ast.Call) else expr.func
    return False


def base_name(expr):
    """Root Name of an attribute/subscript/call chain (``a`` for a.b[c].d)."""
    while True:
        if isinstance(expr, ast.Attribute):
            expr = expr.value
        elif isinstance(expr, ast.Subscript):
            expr = expr.value
        elif isinstance(expr, ast.Call):
            expr = expr.func
        else:
            break
    return expr.id if isinstance(expr, ast.Name) else None


class FuncFlow:
    def __init__(self, func, program=None):
        self.func = func
        self.program = program
        self.cfg = CFG(func.node)
        self.parents = func.module.parents
        self.defs = []  # all Def
        self.defs_at = {}  # node id -> [Def]
        self._collect()
        self._reach = None
        self._memo = {}

    # ------------------------------------------------------------ collect

    def _add(self, d):
        self.defs.append(d)
        self.defs_at.setdefault(d.node, []).append(d)

    def _collect(self):
        cfg = self.cfg
        a = self.func.node.args
        for p in a.posonlyargs + a.args + a.kwonlyargs:
            self._add(Def(p.arg, None, cfg.entry.id, "param"))
        if a.vararg:
            self._add(Def(a.vararg.arg, None, cfg.entry.id, "param"))
        if a.kwarg:
            self._add(Def(a.kwarg.arg, None, cfg.entry.id, "param"))
        for n in cfg.nodes:
            st = n.ast
            if st is None:
                continue
            if n.kind == "stmt":
                self._collect_stmt(st, n.id)
            elif n.kind == "for":
                for name, idx in target_names(st.target):
                    self._add(Def(name, st.iter, n.id, "iter", idx))
                self._collect_walrus(st.iter, n.id)
            elif n.kind == "with" and isinstance(st, (ast.With, ast.AsyncWith)):
                for it in st.items:
                    if it.optional_vars is not None:
                        for name, idx in target_names(it.optional_vars):
                            self._add(Def(name, it.context_expr, n.id, "with", idx))
            elif n.kind == "handler":
                if st.name:
                    self._add(Def(st.name, st.type, n.id, "except"))
            elif n.kind == "def":
                self._add(Def(st.name, None, n.id, "def"))
            elif n.kind == "test":
                test = getattr(st, "test", None) or getattr(st, "subject", None)
                if test is not None:
                    self._collect_walrus(test, n.id)

    def _collect_walrus(self, expr, nid):
        for sub in walk_local(expr):
            if isinstance(sub, ast.NamedExpr):
                self._add(Def(sub.target.id, sub.value, nid, "assign"))

    def _collect_stmt(self, st, nid):
        if isinstance(st, ast.Assign):
            for t in st.targets:
                self._bind_target(t, st.value, nid)
            self._collect_walrus(st.value, nid)
        elif isinstance(st, ast.AnnAssign):
            if st.value is not None:
                self._bind_target(st.target, st.value, nid)
        elif isinstance(st, ast.AugAssign):
            if isinstance(st.target, ast.Name):
                self._add(Def(st.target.id, st, nid, "aug"))
            elif isinstance(st.target, ast.Subscript) and not _through_attr(st.target):
                b = base_name(st.target)
                if b:
                    self._add(Def(b, st.value, nid, "mutate", strong=False))
        elif isinstance(st, (ast.Import, ast.ImportFrom)):
            for al in st.names:
                nm = al.asname or al.name.split(".")[0]
                self._add(Def(nm, None, nid, "import"))
        elif isinstance(st, ast.Expr):
            v = st.value
            self._collect_walrus(v, nid)
            if isinstance(v, ast.Call) and isinstance(v.func, ast.Attribute):
                if v.func.attr in MUTATORS and not _through_attr(v.func.value):
                    # x.append(v) / x[k].append(v): v (and k) flow into container x
                    b = base_name(v.func.value)
                    if b:
                        vals = list(v.args) + [k.value for k in v.keywords]
                        vals += _subscript_keys(v.func.value)
                        for arg in vals:
                            self._add(Def(b, arg, nid, "mutate", strong=False))
        elif isinstance(st, ast.Delete):
            pass
        elif isinstance(st, ast.Return) and st.value is not None:
            self._collect_walrus(st.value, nid)

    def _bind_target(self, t, value, nid):
        if isinstance(t, ast.Name):
            self._add(Def(t.id, value, nid, "assign"))
        elif isinstance(t, (ast.Tuple, ast.List)):
            if isinstance(value, (ast.Tuple, ast.List)) and len(value.elts) == len(
                t.elts
            ) and not any(isinstance(e, ast.Starred) for e in t.elts + value.elts):
                for te, ve in zip(t.elts, value.elts):
                    self._bind_target(te, ve, nid)
            else:
                for name, idx in target_names(t):
                    self._add(Def(name, value, nid, "assign", idx))
        elif isinstance(t, ast.Subscript) and not _through_attr(t):
            # x[k] = v flows v into the container x (x.attr[k] = v / x.attr = v
            # do not change what the *name* x denotes and are not value defs)
            b = base_name(t)
            if b:
                self._add(Def(b, value, nid, "mutate", strong=False))
                for kx in _subscript_keys(t):
                    self._add(Def(b, kx, nid, "mutate", strong=False))
        elif isinstance(t, ast.Starred):
            self._bind_target(t.value, value, nid)

    # ------------------------------------------------------------ reaching

    def reaching(self):
        """node id -> {name: frozenset(Def)} holding at node *entry*."""
        if self._reach is not None:
            return self._reach
        cfg = self.cfg
        IN = {n.id: {} for n in cfg.nodes}
        OUT = {n.id: {} for n in cfg.nodes}

        def transfer(nid, inn):
            out = dict(inn)
            for d in self.defs_at.get(nid, ()):
                if d.strong:
                    out[d.name] = frozenset([d])
            for d in self.defs_at.get(nid, ()):
                if not d.strong:
                    out[d.name] = out.get(d.name, frozenset()) | frozenset([d])
            return out

        work = [n.id for n in cfg.nodes]
        OUT[cfg.entry.id] = transfer(cfg.entry.id, {})
        is_handler = {n.id for n in cfg.nodes if n.kind == "handler"}
        while work:
            nid = work.pop(0)
            inn = {}
            for p in cfg.pred[nid]:
                if nid in is_handler:
                    # exceptional edge: the statement that raised did not complete its own (strong)
                    # bindings — the handler sees the state *before* it, plus whatever it may have
                    # mutated on the way (weak definitions)
                    src = dict(IN[p])
                    for d in self.defs_at.get(p, ()):
                        if not d.strong:
                            src[d.name] = src.get(d.name, frozenset()) | frozenset([d])
                else:
                    src = OUT[p]
                for k, v in src.items():
                    inn[k] = inn.get(k, frozenset()) | v
            changed_in = inn != IN[nid]
            IN[nid] = inn
            out = transfer(nid, inn)
            if out != OUT[nid] or changed_in:
                OUT[nid] = out
                for s in cfg.succ[nid]:
                    if s not in work:
                        work.append(s)
        self._reach = IN
        self._out = OUT
        return IN

    def defs_reaching(self, name, nid):
        return self.reaching().get(nid, {}).get(name, frozenset())

    # ------------------------------------------------------------ dependence

    def node_of_expr(self, expr):
        n = self.cfg.containing(expr, self.parents)
        return n.id if n is not None else None

    def deps(self, expr, at=None, mode="may", _stack=None, _bound=None):
        """Atoms ``expr`` (evaluated at CFG node ``at``) depends on."""
        if at is None:
            at = self.node_of_expr(expr)
        if _stack is None:
            _stack = set()
        bound = _bound or {}
        out = set()
        self._deps_expr(expr, at, mode, _stack, bound, out)
        return out

    def _deps_expr(self, e, at, mode, stack, bound, out):
        if e is None:
            return
        if isinstance(e, ast.Name):
            if e.id in bound:
                out |= bound[e.id]
                return
            self._deps_name(e.id, at, mode, stack, out)
            return
        if isinstance(e, ast.Attribute):
            d = dotted(e)
            if d is not None:
                root = d.split(".")[0]
                if root in bound:
                    out |= bound[root]
                    return
                rdefs = self.defs_reaching(root, at) if at is not None else ()
                only_param = rdefs and all(x.kind == "param" for x in rdefs)
                if only_param or not rdefs:
                    parts = d.split(".")
                    out.add(("attr", parts[0], parts[1]))
                    if not rdefs:
                        out.add(("global", root))
                    else:
                        out.add(("param", root))
                    return
            self._deps_expr(e.value, at, mode, stack, bound, out)
            out.add(("attrname", e.attr))
            return
        if isinstance(e, ast.Call):
            d = dotted(e.func)
            if d is not None:
                out.add(("call", d))
            elif isinstance(e.func, ast.Attribute):
                out.add(("call", "?." + e.func.attr))
            self._deps_expr(e.func, at, mode, stack, bound, out)
            for a in e.args:
                self._deps_expr(a.value if isinstance(a, ast.Starred) else a,
                                at, mode, stack, bound, out)
            for k in e.keywords:
                self._deps_expr(k.value, at, mode, stack, bound, out)
            return
        if isinstance(e, ast.Subscript):
            d = dotted(e.value)
            if d is not None and isinstance(e.slice, ast.Constant):
                out.add(("key", d, e.slice.value))
            self._deps_expr(e.value, at, mode, stack, bound, out)
            self._deps_expr(e.slice, at, mode, stack, bound, out)
            return
        if isinstance(e, ast.IfExp):
            self._deps_expr(e.test, at, mode, stack, bound, out)
            a, b = set(), set()
            self._deps_expr(e.body, at, mode, stack, bound, a)
            self._deps_expr(e.orelse, at, mode, stack, bound, b)
            out |= (a & b) if mode == "must" else (a | b)
            return
        if isinstance(e, (ast.ListComp, ast.SetComp, ast.GeneratorExp, ast.DictComp)):
            b2 = dict(bound)
            for g in e.generators:
                it = set()
                self._deps_expr(g.iter, at, mode, stack, b2, it)
                for name, _ in target_names(g.target):
                    b2[name] = it
                for c in g.ifs:
                    self._deps_expr(c, at, mode, stack, b2, out)
                out |= it
            if isinstance(e, ast.DictComp):
                self._deps_expr(e.key, at, mode, stack, b2, out)
                self._deps_expr(e.value, at, mode, stack, b2, out)
            else:
                self._deps_expr(e.elt, at, mode, stack, b2, out)
            return
        if isinstance(e, ast.Lambda):
            b2 = dict(bound)
            for p in e.args.args + e.args.kwonlyargs:
                b2[p.arg] = set()
            self._deps_expr(e.body, at, mode, stack, b2, out)
            return
        if isinstance(e, ast.NamedExpr):
            self._deps_expr(e.value, at, mode, stack, bound, out)
            return
        if isinstance(e, ast.AugAssign):
            # synthetic: value of an augmented assignment target
            self._deps_expr(e.value, at, mode, stack, bound, out)
            if isinstance(e.target, ast.Name):
                self._deps_name(e.target.id, at, mode, stack, out, before=True)
            return
        if isinstance(e, ast.JoinedStr):
            for v in e.values:
                self._deps_expr(v, at, mode, stack, bound, out)
            return
        if isinstance(e, ast.FormattedValue):
            self._deps_expr(e.value, at, mode, stack, bound, out)
            return
        for ch in ast.iter_child_nodes(e):
            if isinstance(ch, ast.expr):
                self._deps_expr(ch, at, mode, stack, bound, out)
            elif isinstance(ch, ast.keyword):
                self._deps_expr(ch.value, at, mode, stack, bound, out)

    def _deps_name(self, name, at, mode, stack, out, before=False):
        rdefs = self.defs_reaching(name, at) if at is not None else frozenset()
        if not rdefs:
            # free variable: closure of an enclosing function, global or builtin
            out.add(("global", name))
            return
        sets = []
        for d in sorted(rdefs, key=lambda d: (d.node, d.kind)):
            if d.kind == "param":
                sets.append({("param", name)})
                continue
            if d.kind in ("import", "def"):
                sets.append({("global", name)})
                continue
            key = (id(d), mode)
            if key in stack:
                continue  # cycle: contributes nothing new
            if key in self._memo:
                sets.append(self._memo[key])
                continue
            stack.add(key)
            s = set()
            self._deps_expr(d.value, d.node, mode, stack, {}, s)
            if d.kind == "iter":
                s.add(("iterof",))
            stack.discard(key)
            if not stack:
                self._memo[key] = s
            sets.append(s)
        if not sets:
            return
        if mode == "must":
            strong = [s for s, d in zip(sets, sorted(rdefs, key=lambda d: (d.node, d.kind))) ]
            acc = set(sets[0])
            for s in sets[1:]:
                acc &= s
            out |= acc
        else:
            for s in sets:
                out |= s

    # convenience -----------------------------------------------------------

    def returns(self):
        return [
            n for n in self.cfg.nodes
            if n.kind == "stmt" and isinstance(n.ast, ast.Return)
        ]

    def yields(self):
        out = []
        for n in self.cfg.nodes:
            if n.ast is None or n.kind in ("def",):
                continue
            for sub in walk_local(n.ast) if n.kind == "stmt" else ():
                if isinstance(sub, (ast.Yield, ast.YieldFrom)):
                    out.append((n, sub))
        return out

    def calls(self):
        """(cfg node, ast.Call) for every call in the function body (not in
        nested defs)."""
        out = []
        for n in self.cfg.nodes:
            if n.ast is None or n.kind == "def":
                continue
            roots = self._own_exprs(n)
            for r in roots:
                for sub in walk_local(r):
                    if isinstance(sub, ast.Call):
                        out.append((n, sub))
        return out

    def _own_exprs(self, n):
        """The expressions evaluated *at* CFG node n (not its nested body)."""
        st = n.ast
        if n.kind == "stmt":
            return [st]
        if n.kind == "test":
            t = getattr(st, "test", None) or getattr(st, "subject", None)
            return [t] if t is not None else []
        if n.kind == "for":
            return [st.iter, st.target]
        if n.kind == "with":
            if isinstance(st, (ast.With, ast.AsyncWith)):
                return [i.context_expr for i in st.items]
            return []
        if n.kind == "handler":
            return [st.type] if st.type is not None else []
        return []

    def own_nodes(self, n, types):
        out = []
        for r in self._own_exprs(n):
            for sub in walk_local(r):
                if isinstance(sub, types):
                    out.append(sub)
        return out
