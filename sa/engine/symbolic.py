"""A tiny abstract domain for cost arithmetic: Laurent polynomials over named symbols with rational
coefficients.  The repository's cost figures are products of index dimensions; an update such as
``new = old // d`` (exact by construction: ``d`` divides ``old``) is the monomial ``old * d**-1``.  Rules
evaluate the arithmetic *expressions* of an update function on symbolic inputs and compare the normal
forms with the definition — no repository code is executed and no solver is involved; anything outside
the domain raises ``NotPoly`` and the rule reports the site as not decided (or fail-closed).
"""

from __future__ import annotations

import ast
from fractions import Fraction


class NotPoly(Exception):
    pass


class Poly:
    __slots__ = ("terms",)

    def __init__(self, terms=None):
        # {monomial: coeff}; monomial = tuple(sorted((symbol, exponent)))
        self.terms = {m: c for m, c in (terms or {}).items() if c != 0}

    @staticmethod
    def sym(name):
        return Poly({((name, 1),): Fraction(1)})

    @staticmethod
    def const(v):
        return Poly({(): Fraction(v)})

    def is_monomial(self):
        return len(self.terms) == 1

    def __add__(self, o):
        o = _p(o)
        t = dict(self.terms)
        for m, c in o.terms.items():
            t[m] = t.get(m, 0) + c
        return Poly(t)

    __radd__ = __add__

    def __neg__(self):
        return Poly({m: -c for m, c in self.terms.items()})

    def __sub__(self, o):
        return self + (-_p(o))

    def __rsub__(self, o):
        return _p(o) - self

    def __mul__(self, o):
        o = _p(o)
        t = {}
        for m1, c1 in self.terms.items():
            for m2, c2 in o.terms.items():
                e = dict(m1)
                for s, k in m2:
                    e[s] = e.get(s, 0) + k
                m = tuple(sorted((s, k) for s, k in e.items() if k != 0))
                t[m] = t.get(m, 0) + c1 * c2
        return Poly(t)

    __rmul__ = __mul__

    def div(self, o):
        """exact division by a monomial"""
        o = _p(o)
        if not o.is_monomial():
            raise NotPoly("division by a sum")
        (m, c), = o.terms.items()
        inv = Poly({tuple(sorted((s, -k) for s, k in m)): 1 / c})
        return self * inv

    def __eq__(self, o):
        return isinstance(o, (Poly, int, Fraction)) and self.terms == _p(o).terms

    def __hash__(self):
        return hash(tuple(sorted(self.terms.items())))

    def __repr__(self):
        if not self.terms:
            return "0"
        out = []
        for m, c in sorted(self.terms.items()):
            mono = "*".join(s if k == 1 else f"{s}^{k}" for s, k in m)
            if not mono:
                out.append(str(c))
            elif c == 1:
                out.append(mono)
            elif c == -1:
                out.append("-" + mono)
            else:
                out.append(f"{c}*{mono}")
        return " + ".join(out).replace("+ -", "- ")


def _p(x):
    if isinstance(x, Poly):
        return x
    if isinstance(x, (int, Fraction)) and not isinstance(x, bool):
        return Poly.const(x)
    raise NotPoly(f"not a number: {x!r}")


def ev(e, env, subst=None):
    """Evaluate an arithmetic expression to a Poly.  ``env`` maps names (and, by their unparsed text,
    any sub-expression such as ``c[IDX_FLOPS]`` or ``self.size_dict[ix]``) to Poly values."""
    txt = " ".join(ast.unparse(e).split())
    if txt in env:
        return _p(env[txt])
    if isinstance(e, ast.Constant) and isinstance(e.value, (int,)) and not isinstance(e.value, bool):
        return Poly.const(e.value)
    if isinstance(e, ast.Name):
        raise NotPoly(f"unbound name {e.id}")
    if isinstance(e, ast.UnaryOp) and isinstance(e.op, ast.USub):
        return -ev(e.operand, env)
    if isinstance(e, ast.BinOp):
        l, r = ev(e.left, env), ev(e.right, env)
        if isinstance(e.op, ast.Add):
            return l + r
        if isinstance(e.op, ast.Sub):
            return l - r
        if isinstance(e.op, ast.Mult):
            return l * r
        if isinstance(e.op, (ast.FloorDiv, ast.Div)):
            return l.div(r)
        raise NotPoly(f"operator {type(e.op).__name__}")
    if isinstance(e, ast.Call) and isinstance(e.func, ast.Name) and e.func.id in ("max", "min") and e.args \
            and not e.keywords:
        args = sorted(repr(ev(a, env)) for a in e.args)
        return Poly.sym(f"{e.func.id}({', '.join(args)})")
    raise NotPoly(f"expression `{txt[:60]}`")


class Effect:
    __slots__ = ("kind", "target", "op", "value", "expr", "conds", "loops", "node", "cvals")

    @property
    def delta(self):
        """net additive change of an `aug` effect (None if not additive / not in the domain)"""
        if self.kind != "aug" or not isinstance(self.value, Poly):
            return None
        if self.op == "Add":
            return self.value
        if self.op == "Sub":
            return -self.value
        return None

    def __init__(self, kind, target, op, value, expr, conds, loops, node):
        self.kind, self.target, self.op, self.value = kind, target, op, value
        self.expr, self.loops, self.node = expr, tuple(loops), node
        # a condition is (text of the test, outcome); its evaluated operands travel separately
        self.conds = tuple((c[0], c[1]) for c in conds)
        self.cvals = tuple(c[2] if len(c) > 2 else None for c in conds)

    def __repr__(self):
        return f"<{self.kind} {self.target} {self.op or ''} {self.value!r} if {list(self.conds)} in {list(self.loops)}>"


def _txt(e):
    return " ".join(ast.unparse(e).split())


class Interp:
    """Walks a statement list once, forking at `if` (both branches, with the test recorded as a path
    condition) and entering each loop body once.  Names bound to arithmetic are tracked as Poly values in
    a per-path environment, names bound to `X.copy()` / plain aliases of a *set symbol* are tracked as
    (base, removed-elements).  Everything that writes non-local state is recorded as an Effect:

      aug     target op= value          (attribute / subscript targets)
      store   target = value
      call    target.method(args)       (value = tuple of evaluated args)
      del     del target
      return  value
    """

    def __init__(self, env=None, sets=None, tuples=None):
        self.env0 = dict(env or {})
        self.sets0 = dict(sets or {})
        self.tuples = dict(tuples or {})   # text of an expression -> tuple of names/Polys it unpacks to
        self.effects = []
        self.watch = set()                 # local names whose augmented assignments are recorded as effects
        self.track_attrs = False           # also keep `obj.attr` stores/updates in the environment (straight-line state)
        self.tests = {}                    # text of a test -> its AST

    # -- values
    def val(self, e, env, sets):
        if isinstance(e, ast.Tuple):
            return tuple(self.val(x, env, sets) for x in e.elts)
        if isinstance(e, ast.Name) and e.id in sets:
            return ("set",) + sets[e.id]
        try:
            return ev(e, env)
        except NotPoly:
            return None

    def run(self, body, env=None, sets=None, conds=(), loops=()):
        env = dict(self.env0 if env is None else env)
        sets = dict(self.sets0 if sets is None else sets)
        self._block(body, env, sets, list(conds), list(loops))
        return self.effects

    def _block(self, body, env, sets, conds, loops):
        for i, st in enumerate(body):
            if isinstance(st, ast.If):
                t = _txt(st.test)
                self.tests[t] = st.test
                cv = None
                if isinstance(st.test, ast.Compare) and len(st.test.ops) == 1:
                    cv = (self.val(st.test.left, env, sets), type(st.test.ops[0]).__name__,
                          self.val(st.test.comparators[0], env, sets))
                e1, s1 = dict(env), dict(sets)
                self._block(st.body + body[i + 1:], e1, s1, conds + [(t, True, cv)], loops)
                e2, s2 = dict(env), dict(sets)
                self._block(st.orelse + body[i + 1:], e2, s2, conds + [(t, False, cv)], loops)
                return
            self._stmt(st, env, sets, conds, loops)
            if isinstance(st, (ast.Raise, ast.Return, ast.Continue, ast.Break)):
                return   # the rest of this block is not reached on this path

    def _bind(self, target, value_expr, env, sets, conds, loops, st):
        if isinstance(target, ast.Name):
            v = value_expr
            # set aliases / copies
            if isinstance(v, ast.Call) and isinstance(v.func, ast.Attribute) and v.func.attr == "copy" \
                    and isinstance(v.func.value, ast.Name) and v.func.value.id in sets:
                sets[target.id] = sets[v.func.value.id]
                env.pop(target.id, None)
                return
            if isinstance(v, ast.Name) and v.id in sets:
                sets[target.id] = sets[v.id]
                env.pop(target.id, None)
                return
            sets.pop(target.id, None)
            try:
                env[target.id] = ev(v, env)
            except NotPoly:
                env.pop(target.id, None)
            return
        if isinstance(target, ast.Tuple) and _txt(value_expr) in self.tuples:
            parts = self.tuples[_txt(value_expr)]
            if len(parts) == len(target.elts):
                for t, p in zip(target.elts, parts):
                    if isinstance(t, ast.Name):
                        if isinstance(p, tuple) and p and p[0] == "set":
                            sets[t.id] = p[1:]
                            env.pop(t.id, None)
                        else:
                            env[t.id] = p
                            sets.pop(t.id, None)
                return
        if isinstance(target, ast.Tuple):
            for t in target.elts:
                if isinstance(t, ast.Name):
                    env.pop(t.id, None)
                    sets.pop(t.id, None)
            return
        # attribute / subscript store
        v_ = self.val(value_expr, env, sets)
        self.effects.append(Effect("store", _txt(target), None, v_, value_expr, conds, loops, st))
        if self.track_attrs and isinstance(target, ast.Attribute):
            if isinstance(v_, Poly):
                env[_txt(target)] = v_
            else:
                env.pop(_txt(target), None)

    def _stmt(self, st, env, sets, conds, loops):
        if isinstance(st, ast.Assign):
            for t in st.targets:
                self._bind(t, st.value, env, sets, conds, loops, st)
        elif isinstance(st, ast.AugAssign):
            if isinstance(st.target, ast.Name):
                if st.target.id in self.watch:
                    self.effects.append(Effect("aug", st.target.id, type(st.op).__name__,
                                               self.val(st.value, env, sets), st.value, conds, loops, st))
                try:
                    cur = env[st.target.id]
                    v = ev(st.value, env)
                    env[st.target.id] = {ast.Add: cur + v, ast.Sub: cur - v, ast.Mult: cur * v}.get(type(st.op)) \
                        if type(st.op) in (ast.Add, ast.Sub, ast.Mult) else cur.div(v)
                except (KeyError, NotPoly):
                    env.pop(st.target.id, None)
            else:
                v_ = self.val(st.value, env, sets)
                self.effects.append(Effect("aug", _txt(st.target), type(st.op).__name__, v_, st.value, conds, loops, st))
                if self.track_attrs and isinstance(st.target, ast.Attribute):
                    t_ = _txt(st.target)
                    cur = env.get(t_)
                    if isinstance(v_, Poly) and isinstance(cur, Poly) and type(st.op) in (ast.Add, ast.Sub, ast.Mult):
                        env[t_] = cur + v_ if isinstance(st.op, ast.Add) else cur - v_ if isinstance(st.op, ast.Sub) else cur * v_
                    else:
                        env.pop(t_, None)
        elif isinstance(st, ast.Expr) and isinstance(st.value, ast.Call) and isinstance(st.value.func, ast.Attribute):
            c = st.value
            recv = c.func.value
            if isinstance(recv, ast.Name) and recv.id in sets and c.func.attr in ("discard", "remove", "add") and c.args:
                base, removed = sets[recv.id]
                el = _txt(c.args[0])
                if c.func.attr == "add":
                    sets[recv.id] = (base, tuple(x for x in removed if x != el))
                else:
                    sets[recv.id] = (base, tuple(sorted(set(removed) | {el})))
                return
            self.effects.append(Effect("call", _txt(recv) + "." + c.func.attr, None,
                                       tuple(self.val(a, env, sets) for a in c.args), c, conds, loops, st))
        elif isinstance(st, ast.Delete):
            for t in st.targets:
                self.effects.append(Effect("del", _txt(t), None, None, t, conds, loops, st))
        elif isinstance(st, ast.Return):
            self.effects.append(Effect("return", "", None,
                                       self.val(st.value, env, sets) if st.value is not None else None,
                                       st.value, conds, loops, st))
        elif isinstance(st, (ast.For, ast.While)):
            it = _txt(st.iter) if isinstance(st, ast.For) else _txt(st.test)
            e1, s1 = dict(env), dict(sets)
            if isinstance(st, ast.For):
                for t in ast.walk(st.target):
                    if isinstance(t, ast.Name):
                        e1.pop(t.id, None)
                        s1.pop(t.id, None)
                if isinstance(st.iter, ast.Name) and st.iter.id in sets:
                    it = "set:" + repr(sets[st.iter.id])
            self._enter_loop(st, e1, s1)
            self._block(st.body, e1, s1, conds, loops + [it])
        elif isinstance(st, ast.With):
            self._block(st.body, env, sets, conds, loops)
        elif isinstance(st, ast.Try):
            self._block(st.body, env, sets, conds, loops)

    def _enter_loop(self, st, env, sets):
        """hook for subclasses / callers: bind loop-dependent symbols (``env``) on entering a loop"""
        hook = getattr(self, "on_loop", None)
        if hook:
            hook(st, env, sets)
