"""E2 — call resolution (class-hierarchy analysis + light local type inference).

``Resolver.resolve_call(func, call)`` returns a ``Resolution`` with the list of
possible repo callees (``Func``), the bound keyword arguments contributed by
aliases / ``functools.partial`` and a reason string.  Calls into builtins or
third-party code resolve to an empty callee list with ``external=True``; calls
whose target cannot be determined at all are ``unknown=True``.
"""

from __future__ import annotations

import ast
import builtins

from .program import Alias, ClassInfo, Func, Module, dotted, walk_local
from .dataflow import target_names

BUILTINS = set(dir(builtins))

# method names that exist on builtin containers / strings: a call ``x.<name>()``
# with an untyped receiver is NOT resolved by name to repo classes for these
BUILTIN_METHODS = {
    "copy", "get", "pop", "items", "keys", "values", "update", "add", "discard",
    "remove", "clear", "append", "extend", "insert", "sort", "index", "count",
    "join", "split", "replace", "format", "union", "intersection", "difference",
    "issubset", "issuperset", "isdisjoint", "symmetric_difference", "setdefault",
    "find", "translate", "startswith", "endswith", "strip", "lower", "upper",
    "popitem", "reverse", "encode", "decode", "fromkeys", "most_common",
    "result", "done", "cancel", "submit", "close", "set_description", "write",
    "read", "exists", "mkdir", "glob", "unlink", "rmdir", "joinpath", "is_dir",
    "difference_update", "intersection_update", "__contains__", "__getitem__",
    "random", "randint", "choice", "choices", "shuffle", "expovariate", "gauss",
    "randrange", "sample", "uniform", "seed", "max", "min", "sum", "search",
    "match", "fullmatch", "groups", "group", "hexdigest", "digest", "lstrip",
    "rstrip", "rsplit", "tolist", "reshape", "astype", "any", "all", "item",
    "tell", "ask", "warn", "sleep", "time", "partition", "from_iterable",
}

# receiver-name conventions of the code base, used only when no assignment
# tells the type: name -> class name
NAME_TYPES = {
    "tree": "ContractionTree",
    "rtree": "ContractionTree",
    "t": "ContractionTree",
    "tree0": "ContractionTree",
    "tree1": "ContractionTree",
    "best_tree": "ContractionTree",
    "hg": "HyperGraph",
    "hypergraph": "HyperGraph",
    "cp": "ContractionProcessor",
    "sf": "SliceFinder",
}


class Resolution:
    __slots__ = ("callees", "bound", "external", "unknown", "via", "cls_instance")

    def __init__(self, callees=(), bound=None, external=False, unknown=False,
                 via="", cls_instance=None):
        self.callees = list(callees)
        self.bound = bound or {}
        self.external = external
        self.unknown = unknown
        self.via = via
        self.cls_instance = cls_instance  # ClassInfo when the call constructs

    def __repr__(self):
        return f"<Res {[c.key for c in self.callees]} {self.via}>"


class Resolver:
    def __init__(self, program):
        self.p = program
        self._local_types = {}
        self._cache = {}
        self._registry = None

    # ------------------------------------------------------------ types

    def class_named(self, name):
        cs = self.p.classes_by_name.get(name)
        return cs[0] if cs else None

    def local_assignments(self, func):
        """name -> list of value exprs assigned in func (flow-insensitive)."""
        key = ("assign", func.key)
        if key in self._cache:
            return self._cache[key]
        out = {}
        for n in walk_local(func.node):
            if isinstance(n, ast.Assign):
                for t in n.targets:
                    if isinstance(t, ast.Name):
                        out.setdefault(t.id, []).append(n.value)
                    elif isinstance(t, (ast.Tuple, ast.List)):
                        if isinstance(n.value, (ast.Tuple, ast.List)) and len(
                            n.value.elts
                        ) == len(t.elts):
                            for te, ve in zip(t.elts, n.value.elts):
                                if isinstance(te, ast.Name):
                                    out.setdefault(te.id, []).append(ve)
                        else:
                            for nm, _ in target_names(t):
                                out.setdefault(nm, []).append(
                                    ast.Subscript(value=n.value, slice=ast.Constant(0), ctx=ast.Load())
                                )
            elif isinstance(n, ast.AnnAssign) and isinstance(n.target, ast.Name) and n.value:
                out.setdefault(n.target.id, []).append(n.value)
            elif isinstance(n, ast.NamedExpr):
                out.setdefault(n.target.id, []).append(n.value)
            elif isinstance(n, (ast.With, ast.AsyncWith)):
                for it in n.items:
                    if isinstance(it.optional_vars, ast.Name):
                        out.setdefault(it.optional_vars.id, []).append(it.context_expr)
        self._cache[key] = out
        return out

    def type_of_expr(self, func, expr, _depth=0):
        """Set of ClassInfo the expression may be an instance of ({} unknown)."""
        if _depth > 6:
            return set()
        p = self.p
        if isinstance(expr, ast.Name):
            if expr.id == "self" and func.cls is not None:
                return {func.cls}
            if expr.id == "self" and func.parent_func is not None:
                f = func
                while f.parent_func is not None:
                    f = f.parent_func
                if f.cls is not None:
                    return {f.cls}
            if expr.id == "other" and func.cls is not None and func.name in (
                "set_state_from", "__eq__", "update_score"
            ):
                return {func.cls}
            assigns = self.local_assignments(func).get(expr.id)
            f = func
            while not assigns and f.parent_func is not None:
                f = f.parent_func
                assigns = self.local_assignments(f).get(expr.id)
            out = set()
            if assigns:
                for v in assigns:
                    out |= self.type_of_expr(f, v, _depth + 1)
                if out:
                    return out
            # first parameter of a function stored as a class attribute of
            # ContractionTree (simulated_anneal = simulated_anneal_tree)
            if func.cls is None and func.positional and func.positional[0] == expr.id:
                for c in p.classes.values():
                    for al in c.aliases.values():
                        if al.target is func and al.kind in ("name", "partialmethod"):
                            out.add(c)
                if out:
                    return out
            r = p.resolve_name(func.module, expr.id, func=func)
            if isinstance(r, tuple) and r[0] == "instance":
                return {r[1]}
            cn = NAME_TYPES.get(expr.id)
            if cn:
                c = self.class_named(cn)
                if c is not None:
                    return {c}
            return set()
        if isinstance(expr, ast.IfExp):
            return self.type_of_expr(func, expr.body, _depth + 1) | self.type_of_expr(
                func, expr.orelse, _depth + 1
            )
        if isinstance(expr, ast.Call):
            fn = expr.func
            if isinstance(fn, ast.Attribute):
                if fn.attr in ("copy", "__new__") or (
                    fn.attr == "__new__" and dotted(fn.value) == "object"
                ):
                    if dotted(fn) == "object.__new__" and expr.args:
                        a0 = expr.args[0]
                        if dotted(a0) in ("self.__class__", "cls"):
                            c = func.cls
                            return {c} if c else set()
                    return self.type_of_expr(func, fn.value, _depth + 1)
                if dotted(fn.value) in ("cls", "self.__class__") and func.cls is not None:
                    # cls.from_path(...) constructs an instance
                    if fn.attr.startswith("from_"):
                        return {func.cls}
                # tree-returning methods: remove_ind, slice, subtree_reconfigure...
                recv = self.type_of_expr(func, fn.value, _depth + 1)
                tree = self.class_named("ContractionTree")
                if tree is not None and any(c.is_subclass_of(tree) for c in recv):
                    m = next(iter(recv)).lookup(fn.attr)
                    if m is not None and self._returns_self_type(m):
                        return recv
                r = p.resolve_expr_static(func.module, fn, func)
                if isinstance(r, Func) and r.cls is not None and r.name.startswith("from_"):
                    return {r.cls}
                # method of a typed receiver: what it returns (factory helpers such as
                # ``self._get_optimizer_hyper_threadsafe()``)
                out = set()
                for m in self.methods_for(recv, fn.attr) if recv else ():
                    out |= self._return_types(m, _depth + 2)
                return out
            r = p.resolve_expr_static(func.module, fn, func)
            if dotted(fn) == "cls" and func.cls is not None:
                return {func.cls}
            if isinstance(r, ClassInfo):
                return {r}
            if isinstance(r, Func):
                return self._return_types(r, _depth + 1)
            return set()
        if isinstance(expr, ast.Attribute):
            # self.attr assigned a constructor call in __init__
            base_t = self.type_of_expr(func, expr.value, _depth + 1)
            out = set()
            for c in base_t:
                for v in self.attr_assignments(c).get(expr.attr, ()):
                    fn_, val = v
                    out |= self.type_of_expr(fn_, val, _depth + 1)
            return out
        if isinstance(expr, ast.BoolOp):
            out = set()
            for v in expr.values:
                out |= self.type_of_expr(func, v, _depth + 1)
            return out
        return set()

    def _returns_self_type(self, m):
        """method returns ``tree`` (= self or self.copy()) or ``self``"""
        for n in walk_local(m.node):
            if isinstance(n, ast.Return) and isinstance(n.value, ast.Name):
                if n.value.id in ("tree", "self", "rtree"):
                    return True
        return False

    def _return_types(self, f, depth):
        out = set()
        for n in walk_local(f.node):
            if isinstance(n, ast.Return) and n.value is not None:
                out |= self.type_of_expr(f, n.value, depth)
        return out

    def attr_assignments(self, cls):
        """attr -> [(func, value expr)] for ``self.attr = value`` in cls's MRO."""
        key = ("attrs", cls.key)
        if key in self._cache:
            return self._cache[key]
        out = {}
        for c in cls.mro():
            for f in c.methods.values():
                for n in walk_local(f.node):
                    if isinstance(n, ast.Assign):
                        for t in n.targets:
                            if (
                                isinstance(t, ast.Attribute)
                                and isinstance(t.value, ast.Name)
                                and t.value.id == "self"
                            ):
                                out.setdefault(t.attr, []).append((f, n.value))
        self._cache[key] = out
        return out

    # ------------------------------------------------------------ calls

    def methods_for(self, classes, name, include_overrides=True):
        out = []
        for c in classes:
            f = c.lookup(name)
            if f is not None and f not in out:
                out.append(f)
            if include_overrides:
                for s in c.all_subclasses():
                    if name in s.methods and s.methods[name] not in out:
                        out.append(s.methods[name])
                    elif name in s.aliases and s.aliases[name].target is not None:
                        if s.aliases[name].target not in out:
                            out.append(s.aliases[name].target)
        return out

    def ctor_callables(self, classes, attr):
        """callees for ``obj.<attr>(...)`` where ``self.<attr> = <ctor param>``:
        whatever is passed for that parameter at the constructor's call sites"""
        key = ("ctorcall", tuple(sorted(c.key for c in classes)), attr)
        if key in self._cache:
            return self._cache[key]
        out = []
        self._cache[key] = out
        for c in classes:
            for fn, val in self.attr_assignments(c).get(attr, ()):
                if fn.name != "__init__" or not isinstance(val, ast.Name) or \
                        val.id not in fn.params:
                    continue
                pos = [p_ for p_ in fn.positional if p_ != "self"]
                idx = pos.index(val.id) if val.id in pos else None
                for m, call, tgt in self._all_ctor_calls():
                    if not (tgt is fn.cls or tgt.is_subclass_of(fn.cls)):
                        continue
                    arg = None
                    if idx is not None and idx < len(call.args):
                        arg = call.args[idx]
                    for k in call.keywords:
                        if k.arg == val.id:
                            arg = k.value
                    if arg is None:
                        continue
                    owner = self.p.enclosing_func(m, call)
                    if owner is None:
                        owner = Func(ast.parse("def _m(): pass").body[0], m)
                    r2 = self.resolve_callable_expr(owner, arg, 1)
                    out += [x for x in r2.callees if x not in out]
        return out

    def _all_ctor_calls(self):
        """[(module, call, ClassInfo)] for every call in the package whose callee
        resolves statically to a repo class (computed once)"""
        if "ctorcalls" in self._cache:
            return self._cache["ctorcalls"]
        out = []
        for m in self.p.modules.values():
            for call in ast.walk(m.tree):
                if isinstance(call, ast.Call) and isinstance(call.func, (ast.Name, ast.Attribute)):
                    tgt = self.p.resolve_expr_static(m, call.func)
                    if isinstance(tgt, ClassInfo):
                        out.append((m, call, tgt))
        self._cache["ctorcalls"] = out
        return out

    def alias_bound(self, classes, name):
        for c in classes:
            al = c.lookup_alias(name)
            if al is not None:
                return dict(al.bound_kwargs)
        return {}

    def resolve_callable_expr(self, func, fn, _depth=0):
        """Resolve an expression used as a callable (not necessarily called
        here, e.g. passed to ``submit``)."""
        p = self.p
        if _depth > 8:
            return Resolution(unknown=True, via="depth")
        if isinstance(fn, ast.Lambda):
            return Resolution(external=True, via="lambda")
        if isinstance(fn, ast.Name):
            name = fn.id
            # nested function defined in this (or an enclosing) function; the same
            # name may also be bound by assignments (alternative implementations)
            f = func
            while f is not None:
                sib = [x for x in p.nested_funcs(f) if x.name == name]
                if sib:
                    callees, bound = list(sib), {}
                    for v in self.local_assignments(f).get(name, []):
                        r2 = self._resolve_value_as_callable(f, v, _depth + 1)
                        callees += [c for c in r2.callees if c not in callees]
                        bound.update(r2.bound)
                    return Resolution(callees, bound, via="nested def")
                f = f.parent_func
            # local assignment: alias of something resolvable
            f = func
            while f is not None:
                assigns = self.local_assignments(f).get(name)
                if assigns:
                    callees, bound, unknown = [], {}, False
                    for v in assigns:
                        r = self._resolve_value_as_callable(f, v, _depth + 1)
                        callees += [c for c in r.callees if c not in callees]
                        bound.update(r.bound)
                        unknown |= r.unknown
                    if callees:
                        return Resolution(callees, bound, via=f"local alias {name}")
                    if name in f.params:
                        break
                    types = self.type_of_expr(f, fn)
                    if types:
                        ms = self.methods_for(types, "__call__")
                        return Resolution(ms, via="instance __call__", external=not ms)
                    return Resolution(unknown=True, via=f"local {name}")
                if name in f.params or name == f.vararg or name == f.kwarg:
                    return Resolution(unknown=True, via=f"parameter {name}")
                f = f.parent_func
            r = p.resolve_name(func.module, name, func=func)
            if isinstance(r, Func):
                return Resolution([r], via="module function")
            if isinstance(r, ClassInfo):
                init = r.lookup("__init__")
                return Resolution([init] if init else [], via="constructor",
                                  cls_instance=r, external=init is None)
            if isinstance(r, Alias):
                return Resolution([r.target] if r.target else [], dict(r.bound_kwargs),
                                  via="module alias")
            if isinstance(r, tuple) and r[0] == "instance":
                ms = self.methods_for({r[1]}, "__call__")
                return Resolution(ms, via="singleton __call__")
            if isinstance(r, tuple) and r[0] == "const":
                # evaluate the constant in the module that defines it
                owner = func
                if len(r) > 2 and r[2] is not func.module:
                    owner = Func(ast.parse("def _m(): pass").body[0], r[2])
                return self._resolve_value_as_callable(owner, r[1], _depth + 1)
            if name in BUILTINS or r is None:
                return Resolution(external=True, via="builtin/external")
            return Resolution(unknown=True, via="?")
        if isinstance(fn, ast.Attribute):
            attr = fn.attr
            base = fn.value
            # super().m
            if isinstance(base, ast.Call) and dotted(base.func) == "super":
                c = func.cls
                if c is None and func.parent_func is not None:
                    c = func.parent_func.cls
                if c is not None:
                    for b in c.mro()[1:]:
                        m = b.methods.get(attr) or (
                            b.aliases[attr].target if attr in b.aliases else None
                        )
                        if m is not None:
                            return Resolution([m], via="super()")
                return Resolution(external=True, via="super() external")
            d = dotted(base)
            if d in ("cls", "self.__class__") and func.cls is not None:
                ms = self.methods_for({func.cls}, attr)
                return Resolution(ms, self.alias_bound({func.cls}, attr), via="cls.m",
                                  external=not ms)
            # static: module.func / Class.method / singleton.method
            r = p.resolve_expr_static(func.module, fn, func)
            if isinstance(r, Func):
                return Resolution([r], via="static attr")
            if isinstance(r, tuple) and r[0] == "bound":
                ms = self.methods_for({r[1]}, attr)
                return Resolution(ms, via="singleton method")
            rb = p.resolve_expr_static(func.module, base, func) if d else None
            if isinstance(rb, Module):
                return Resolution(external=True, via="module attr (unresolved)")
            if d and rb is None and d.split(".")[0] not in self._locals(func) and (
                d.split(".")[0] in func.module.imports
                or d.split(".")[0] in self.p.local_imports(func)
            ):
                return Resolution(external=True, via="external module")
            types = self.type_of_expr(func, base)
            if types:
                ms = self.methods_for(types, attr)
                if ms:
                    return Resolution(ms, self.alias_bound(types, attr), via="typed receiver")
                # attribute holding a callable handed to the constructor
                cs = self.ctor_callables(types, attr)
                if cs:
                    return Resolution(cs, via="callable attribute set by the constructor")
                return Resolution(external=True, via="typed receiver, no such method")
            if attr in BUILTIN_METHODS:
                return Resolution(external=True, via="builtin-method name")
            cands = self.p.methods_by_name.get(attr, [])
            if cands:
                uniq = []
                for c in cands:
                    if c not in uniq:
                        uniq.append(c)
                return Resolution(uniq, via="name-based")
            return Resolution(external=True, via="no repo method of that name")
        if isinstance(fn, ast.Subscript):
            # {"a": f, "b": g}[key]  /  _PATH_FNS[method]
            v = fn.value
            if isinstance(v, ast.Dict):
                callees = []
                for val in v.values:
                    r = self.resolve_callable_expr(func, val, _depth + 1)
                    callees += [c for c in r.callees if c not in callees]
                return Resolution(callees, via="dict literal dispatch", unknown=not callees)
            d = dotted(v)
            if d:
                reg = self.registry()
                if d in reg:
                    return Resolution(list(reg[d]), via=f"registry {d}")
            return Resolution(unknown=True, via="subscript")
        if isinstance(fn, ast.Call):
            # functools.partial(f, ...)(...) or getattr(...)
            r = self._resolve_value_as_callable(func, fn, _depth + 1)
            if not r.callees:
                # factory()(...): __call__ of whatever the factory returns
                types = self.type_of_expr(func, fn)
                ms = self.methods_for(types, "__call__") if types else []
                if ms:
                    return Resolution(ms, via="__call__ of call result")
            return r
        return Resolution(unknown=True, via=type(fn).__name__)

    def _locals(self, func):
        names = set(func.params)
        if func.vararg:
            names.add(func.vararg)
        if func.kwarg:
            names.add(func.kwarg)
        names |= set(self.local_assignments(func))
        return names

    def _resolve_value_as_callable(self, func, v, _depth):
        if isinstance(v, ast.Call):
            d = dotted(v.func)
            if d in ("functools.partial", "partial") and v.args:
                r = self.resolve_callable_expr(func, v.args[0], _depth + 1)
                bound = dict(r.bound)
                bound.update({k.arg: k.value for k in v.keywords if k.arg})
                return Resolution(r.callees, bound, via="partial", unknown=r.unknown,
                                  external=r.external)
            if d == "getattr" and len(v.args) >= 2 and isinstance(v.args[1], ast.Constant):
                attr = v.args[1].value
                fake = ast.Attribute(value=v.args[0], attr=attr, ctx=ast.Load())
                r = self.resolve_callable_expr(func, fake, _depth + 1)
                if len(v.args) == 3:
                    r2 = self.resolve_callable_expr(func, v.args[2], _depth + 1)
                    r.callees += [c for c in r2.callees if c not in r.callees]
                return r
            if d in ("functools.wraps",):
                return Resolution(external=True, via="wraps")
            # result of calling something: a class instance? then __call__
            types = self.type_of_expr(func, v)
            outs = []
            if types:
                outs = list(self.methods_for(types, "__call__"))
            # a repo function that returns functions (get_optimize_greedy() -> optimize_greedy)
            r0 = self.resolve_callable_expr(func, v.func, _depth + 1)
            for g in r0.callees:
                if g.cls is not None and g.name == "__init__":
                    continue
                for n in walk_local(g.node):
                    if isinstance(n, ast.Return) and isinstance(n.value, (ast.Name, ast.Attribute)):
                        r1 = self.resolve_callable_expr(g, n.value, _depth + 2)
                        outs += [c for c in r1.callees if c not in outs]
            if outs:
                return Resolution(outs, via="callable returned by " + (dotted(v.func) or "?"))
            if types:
                return Resolution(external=True, via="instance without __call__")
            return Resolution(unknown=True, via="call result")
        if isinstance(v, (ast.Name, ast.Attribute, ast.Subscript, ast.Lambda)):
            if isinstance(v, ast.Name) and v.id in ("None",):
                return Resolution(external=True)
            return self.resolve_callable_expr(func, v, _depth + 1)
        if isinstance(v, ast.IfExp):
            a = self._resolve_value_as_callable(func, v.body, _depth + 1)
            b = self._resolve_value_as_callable(func, v.orelse, _depth + 1)
            return Resolution(a.callees + [c for c in b.callees if c not in a.callees],
                              {**a.bound, **b.bound}, unknown=a.unknown and b.unknown)
        if isinstance(v, ast.Constant):
            return Resolution(external=True, via="constant")
        return Resolution(unknown=True, via="value")

    def resolve_call(self, func, call):
        key = ("call", id(call))
        if key in self._cache:
            return self._cache[key]
        res = self._resolve_call(func, call)
        self._cache[key] = res
        return res

    def _resolve_call(self, func, call):
        d = dotted(call.func)
        # indirect call helpers: submit(pool, f, ...), pool.submit(f, ...),
        # map(f, ...), functools.partial(f, ...)
        if d == "submit" and len(call.args) >= 2:
            r = self.resolve_callable_expr(func, call.args[1])
            r.via = "submit(pool, f): " + r.via
            return r
        if isinstance(call.func, ast.Attribute) and call.func.attr == "submit" and call.args:
            r = self.resolve_callable_expr(func, call.args[0])
            if r.callees:
                r.via = "pool.submit(f): " + r.via
                return r
        if d in ("map", "filter") and call.args:
            r = self.resolve_callable_expr(func, call.args[0])
            if r.callees:
                r.via = f"{d}(f, ...): " + r.via
                return r
            return Resolution(external=True, via=d)
        if d in ("functools.partial", "partial", "functools.reduce", "reduce") and call.args:
            r = self.resolve_callable_expr(func, call.args[0])
            if r.callees:
                r.via = f"{d}: " + r.via
                return r
            return Resolution(external=True, via=d)
        return self.resolve_callable_expr(func, call.func)

    # ------------------------------------------------------------ registries

    def registry(self):
        """Module-level dict registries filled through registration functions:
        dotted global name -> set of Func stored in it."""
        if self._registry is not None:
            return self._registry
        reg = {}
        p = self.p

        def add(name, callee_res):
            reg.setdefault(name, [])
            for c in callee_res.callees:
                if c not in reg[name]:
                    reg[name].append(c)

        for m in p.modules.values():
            for st in m.tree.body:
                call = None
                if isinstance(st, ast.Expr) and isinstance(st.value, ast.Call):
                    call = st.value
                if call is None:
                    continue
                d = dotted(call.func)
                fake = Func(ast.parse("def _m(): pass").body[0], m)
                if d == "register_hyper_function":
                    arg = None
                    for k in call.keywords:
                        if k.arg == "ssa_func":
                            arg = k.value
                    if arg is None and len(call.args) >= 2:
                        arg = call.args[1]
                    if arg is not None:
                        add("_PATH_FNS", self.resolve_callable_expr(fake, arg))
                elif d == "register_preset":
                    args = list(call.args)
                    kw = {k.arg: k.value for k in call.keywords}
                    opt = args[1] if len(args) > 1 else kw.get("optimizer")
                    topt = args[2] if len(args) > 2 else kw.get("optimizer_tree")
                    if opt is not None:
                        add("_PRESETS_PATH", self.resolve_callable_expr(fake, opt))
                    if topt is not None:
                        add("_PRESETS_TREE", self.resolve_callable_expr(fake, topt))
                elif d == "register_hyper_optlib":
                    for a in call.args[1:]:
                        add("_OPTLIB_FNS", self.resolve_callable_expr(fake, a))
        self._registry = reg
        return reg

    # ------------------------------------------------------------ call graph

    def calls_in(self, func):
        """[(ast.Call, Resolution)] for calls lexically in func (not nested defs)."""
        key = ("calls_in", func.key)
        if key in self._cache:
            return self._cache[key]
        out = []
        for n in walk_local(func.node):
            if isinstance(n, ast.Call):
                out.append((n, self.resolve_call(func, n)))
        self._cache[key] = out
        return out

    def callees_of(self, func, include_nested=True):
        out = []
        for _, r in self.calls_in(func):
            for c in r.callees:
                if c not in out:
                    out.append(c)
        if include_nested:
            for nf in self.p.nested_funcs(func):
                if nf not in out:
                    out.append(nf)
        return out

    def reachable_funcs(self, roots, depth=None):
        seen, frontier, d = list(roots), list(roots), 0
        while frontier and (depth is None or d < depth):
            nxt = []
            for f in frontier:
                for c in self.callees_of(f):
                    if c not in seen:
                        seen.append(c)
                        nxt.append(c)
            frontier = nxt
            d += 1
        return seen

    def stats(self, funcs):
        tot = res = ext = unk = 0
        unknown = []
        for f in funcs:
            for call, r in self.calls_in(f):
                tot += 1
                if r.callees:
                    res += 1
                elif r.external:
                    ext += 1
                else:
                    unk += 1
                    unknown.append(f"{f.module.path}:{call.lineno} {f.qual}: "
                                   f"{ast.unparse(call.func)[:60]} ({r.via})")
        return {"calls": tot, "resolved_repo": res, "external": ext, "unknown": unk,
                "unknown_sites": unknown}
