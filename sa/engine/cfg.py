"""E3 — per-function control-flow graph, dominators and post-dominators.

Nodes are simple statements, branch tests (``if``/``while`` tests, ``for``
headers, ``with`` headers, ``except`` handler heads) and three synthetic nodes
ENTRY, EXIT (normal return / fall off the end) and RAISE (uncaught ``raise``).
Nested function and class definitions are single opaque nodes.

Exceptions: an explicit ``raise`` goes to the innermost enclosing handler set
(all handlers, conservatively) or to RAISE.  Every statement inside a ``try``
body additionally has an edge to each of that try's handlers (any statement may
raise); statements outside any ``try`` are assumed not to raise — the rules
that use this CFG reason about *normal* completion of the function.
"""

from __future__ import annotations

import ast

ENTRY, EXIT, RAISE = "ENTRY", "EXIT", "RAISE"


class Node:
    __slots__ = ("id", "kind", "ast", "label")

    def __init__(self, id, kind, astnode=None, label=None):
        self.id = id
        self.kind = kind  # stmt | test | for | with | handler | entry | exit | raise | def
        self.ast = astnode
        self.label = label

    @property
    def lineno(self):
        return getattr(self.ast, "lineno", None)

    def __repr__(self):
        return f"<{self.kind}#{self.id} L{self.lineno}>"


class CFG:
    def __init__(self, funcnode):
        self.func = funcnode
        self.nodes = []
        self.succ = {}
        self.pred = {}
        self.entry = self._new("entry")
        self.exit = self._new("exit")
        self.raise_exit = self._new("raise")
        self._by_ast = {}
        # branch edges: (test node id, succ id) -> True/False for if/while tests
        self.branch = {}
        frontier = self._body(funcnode.body, [self.entry.id], _Ctx())
        for f in frontier:
            self._edge(f, self.exit.id)
        self._dom = None
        self._pdom = None

    # ------------------------------------------------------------ building

    def _new(self, kind, astnode=None, label=None):
        n = Node(len(self.nodes), kind, astnode, label)
        self.nodes.append(n)
        self.succ[n.id] = []
        self.pred[n.id] = []
        if astnode is not None:
            self._by_ast.setdefault(id(astnode), n)
        return n

    def _edge(self, a, b):
        if b not in self.succ[a]:
            self.succ[a].append(b)
            self.pred[b].append(a)

    def _link(self, frontier, n):
        for f in frontier:
            self._edge(f, n.id)

    def _body(self, stmts, frontier, ctx):
        for st in stmts:
            frontier = self._stmt(st, frontier, ctx)
        return frontier

    def _maybe_raise(self, n, ctx):
        """Statement n sits inside try bodies: it may jump to their handlers."""
        if ctx.handlers is not None:
            for h in ctx.handlers:
                self._edge(n.id, h)

    def _stmt(self, st, frontier, ctx):
        if isinstance(st, ast.If):
            t = self._new("test", st)
            self._link(frontier, t)
            self._maybe_raise(t, ctx)
            body_entry_marker = len(self.nodes)
            f1 = self._body(st.body, [t.id], ctx)
            if len(self.nodes) > body_entry_marker:
                self.branch[(t.id, body_entry_marker)] = True
            else_marker = len(self.nodes)
            if st.orelse:
                f2 = self._body(st.orelse, [t.id], ctx)
                if len(self.nodes) > else_marker:
                    self.branch[(t.id, else_marker)] = False
            else:
                f2 = [t.id]
            return f1 + f2
        if isinstance(st, (ast.While,)):
            t = self._new("test", st)
            self._link(frontier, t)
            self._maybe_raise(t, ctx)
            lctx = ctx.loop(t.id)
            marker = len(self.nodes)
            fb = self._body(st.body, [t.id], lctx)
            if len(self.nodes) > marker:
                self.branch[(t.id, marker)] = True
            for f in fb:
                self._edge(f, t.id)
            for c in lctx.continues:
                self._edge(c, t.id)
            out = []
            is_true = isinstance(st.test, ast.Constant) and st.test.value is True
            if not is_true:
                out = [t.id]
            if st.orelse:
                out = self._body(st.orelse, out, ctx)
            return out + lctx.breaks
        if isinstance(st, (ast.For, ast.AsyncFor)):
            t = self._new("for", st)
            self._link(frontier, t)
            self._maybe_raise(t, ctx)
            lctx = ctx.loop(t.id)
            fb = self._body(st.body, [t.id], lctx)
            for f in fb:
                self._edge(f, t.id)
            for c in lctx.continues:
                self._edge(c, t.id)
            out = [t.id]
            if st.orelse:
                out = self._body(st.orelse, out, ctx)
            return out + lctx.breaks
        if isinstance(st, (ast.With, ast.AsyncWith)):
            t = self._new("with", st)
            self._link(frontier, t)
            self._maybe_raise(t, ctx)
            return self._body(st.body, [t.id], ctx)
        if isinstance(st, ast.Try) or st.__class__.__name__ == "TryStar":
            return self._try(st, frontier, ctx)
        if isinstance(st, ast.Return):
            n = self._new("stmt", st)
            self._link(frontier, n)
            self._maybe_raise(n, ctx)
            self._abrupt(n.id, ctx, "return")
            return []
        if isinstance(st, ast.Raise):
            n = self._new("stmt", st)
            self._link(frontier, n)
            self._abrupt(n.id, ctx, "raise")
            return []
        if isinstance(st, ast.Break):
            n = self._new("stmt", st)
            self._link(frontier, n)
            self._abrupt(n.id, ctx, "break")
            return []
        if isinstance(st, ast.Continue):
            n = self._new("stmt", st)
            self._link(frontier, n)
            self._abrupt(n.id, ctx, "continue")
            return []
        if isinstance(st, (ast.FunctionDef, ast.AsyncFunctionDef, ast.ClassDef)):
            n = self._new("def", st)
            self._link(frontier, n)
            return [n.id]
        if isinstance(st, ast.Match):
            t = self._new("test", st)
            self._link(frontier, t)
            out = []
            for c in st.cases:
                out += self._body(c.body, [t.id], ctx)
            return out + [t.id]
        # simple statement
        n = self._new("stmt", st)
        self._link(frontier, n)
        self._maybe_raise(n, ctx)
        return [n.id]

    def _abrupt(self, nid, ctx, kind):
        """Route an abrupt completion through enclosing ``finally`` blocks."""
        if kind == "raise":
            if ctx.handlers:
                for h in ctx.handlers:
                    self._edge(nid, h)
                return
            # uncaught here: run finalizers up to function level
            cur = [nid]
            for fin in ctx.finals_all():
                cur = self._body(fin.finalbody, cur, fin.outer)
            for c in cur:
                self._edge(c, self.raise_exit.id)
            return
        if kind == "return":
            cur = [nid]
            for fin in ctx.finals_all():
                cur = self._body(fin.finalbody, cur, fin.outer)
            for c in cur:
                self._edge(c, self.exit.id)
            return
        # break / continue: finalizers inside the loop only
        cur = [nid]
        for fin in ctx.finals_in_loop():
            cur = self._body(fin.finalbody, cur, fin.outer)
        if kind == "break":
            ctx.loop_ctx.breaks.extend(cur)
        else:
            ctx.loop_ctx.continues.extend(cur)

    def _try(self, st, frontier, ctx):
        # handler head nodes are created first so body statements can target them
        heads = []
        for h in st.handlers:
            hn = self._new("handler", h)
            heads.append(hn)
        fin = _Final(st.finalbody, ctx) if st.finalbody else None
        inner = ctx.with_try([h.id for h in heads], fin)
        if not heads:
            # try/finally only: exceptions propagate to the outer handlers
            inner = ctx.with_try(None, fin)
        tn = self._new("with", st, label="try")
        self._link(frontier, tn)
        fb = self._body(st.body, [tn.id], inner)
        if st.orelse:
            octx = ctx.with_try(None, fin) if fin else ctx
            # else-clause is not protected by this try's handlers
            octx = _Ctx(ctx.handlers, octx.finals, ctx.loop_ctx, octx.loop_final_depth)
            fb = self._body(st.orelse, fb, octx)
        out = list(fb)
        hctx_base = ctx.with_try(None, fin) if fin else ctx
        hctx = _Ctx(ctx.handlers, hctx_base.finals, ctx.loop_ctx, hctx_base.loop_final_depth)
        for h, hn in zip(st.handlers, heads):
            out += self._body(h.body, [hn.id], hctx)
        if fin is not None:
            out = self._body(st.finalbody, out, ctx)
        return out

    # ------------------------------------------------------------ queries

    def node_of(self, astnode):
        """CFG node whose statement is (or contains) ``astnode``."""
        n = self._by_ast.get(id(astnode))
        if n is not None:
            return n
        return None

    def stmt_nodes(self):
        return [n for n in self.nodes if n.kind not in ("entry", "exit", "raise")]

    def containing(self, astnode, parents):
        """CFG node for the statement that contains expression ``astnode``."""
        cur = astnode
        while cur is not None:
            n = self._by_ast.get(id(cur))
            if n is not None:
                return n
            cur = parents.get(cur)
        return None

    def reachable(self, start=None, avoid=()):
        start = self.entry.id if start is None else start
        seen, stack = set(), [start]
        avoid = set(avoid)
        while stack:
            n = stack.pop()
            if n in seen or n in avoid:
                continue
            seen.add(n)
            stack.extend(self.succ[n])
        return seen

    def reachable_from_succs(self, start, avoid=()):
        """Nodes reachable from the successors of ``start`` (start itself only
        if on a cycle)."""
        seen, stack = set(), list(self.succ[start])
        avoid = set(avoid)
        while stack:
            n = stack.pop()
            if n in seen or n in avoid:
                continue
            seen.add(n)
            stack.extend(self.succ[n])
        return seen

    def _dominators(self, root, succ, pred):
        nodes = self._reach_generic(root, succ)
        dom = {n: set(nodes) for n in nodes}
        dom[root] = {root}
        changed = True
        order = list(nodes)
        while changed:
            changed = False
            for n in order:
                if n == root:
                    continue
                ps = [p for p in pred[n] if p in dom]
                if ps:
                    new = set.intersection(*(dom[p] for p in ps)) | {n}
                else:
                    new = {n}
                if new != dom[n]:
                    dom[n] = new
                    changed = True
        return dom

    def _reach_generic(self, root, succ):
        seen, stack, order = set(), [root], []
        while stack:
            n = stack.pop()
            if n in seen:
                continue
            seen.add(n)
            order.append(n)
            stack.extend(succ[n])
        return order

    @property
    def dom(self):
        if self._dom is None:
            self._dom = self._dominators(self.entry.id, self.succ, self.pred)
        return self._dom

    @property
    def pdom(self):
        """Post-dominators with respect to the *normal* exit."""
        if self._pdom is None:
            self._pdom = self._dominators(self.exit.id, self.pred, self.succ)
        return self._pdom

    def dominates(self, a, b):
        """a dominates b (every path ENTRY→b passes a)."""
        return b in self.dom and a in self.dom[b]

    def postdominates(self, a, b):
        """a post-dominates b (every path b→EXIT passes a). Nodes that cannot
        reach EXIT are vacuously post-dominated."""
        if b not in self.pdom:
            return True
        return a in self.pdom[b]

    def all_paths_pass(self, src, through, dst=None):
        """Every path from ``src`` to ``dst`` (default EXIT) passes one of the
        nodes in ``through`` (strictly after src)."""
        dst = self.exit.id if dst is None else dst
        through = set(through)
        seen, stack = set(), list(self.succ[src])
        while stack:
            n = stack.pop()
            if n in seen or n in through:
                continue
            if n == dst:
                return False
            seen.add(n)
            stack.extend(self.succ[n])
        return True

    def path_avoiding(self, src, avoid, dst=None):
        """A witness path src→dst not touching ``avoid`` (list of node ids) or
        None."""
        dst = self.exit.id if dst is None else dst
        avoid = set(avoid)
        prev = {}
        stack = [(s, src) for s in self.succ[src]]
        while stack:
            n, p = stack.pop()
            if n in prev or n in avoid:
                continue
            prev[n] = p
            if n == dst:
                path = [n]
                while path[-1] != src:
                    path.append(prev[path[-1]])
                return list(reversed(path))
            stack.extend((s, n) for s in self.succ[n])
        return None

    def describe_path(self, path):
        out = []
        for nid in path:
            n = self.nodes[nid]
            if n.kind in ("entry", "exit", "raise"):
                out.append(n.kind.upper())
            else:
                out.append(f"L{n.lineno}:{n.kind}")
        return " -> ".join(out)


class _Final:
    __slots__ = ("finalbody", "outer")

    def __init__(self, finalbody, outer):
        self.finalbody = finalbody
        self.outer = outer


class _Ctx:
    """Lexical context while building: innermost handlers, stack of pending
    finalizers, innermost loop."""

    def __init__(self, handlers=None, finals=(), loop_ctx=None, loop_final_depth=0):
        self.handlers = handlers
        self.finals = tuple(finals)
        self.loop_ctx = loop_ctx
        self.loop_final_depth = loop_final_depth
        self.breaks = []
        self.continues = []

    def loop(self, head):
        c = _Ctx(self.handlers, self.finals, None, len(self.finals))
        c.loop_ctx = c
        return c

    def with_try(self, handlers, fin):
        finals = self.finals + ((fin,) if fin is not None else ())
        h = handlers if handlers is not None else self.handlers
        c = _Ctx(h, finals, self.loop_ctx, self.loop_final_depth)
        return c

    def finals_all(self):
        return list(reversed(self.finals))

    def finals_in_loop(self):
        return list(reversed(self.finals[self.loop_final_depth:]))
