"""E5 — effect summaries: which object attributes / module globals / parameters
a function reads, rebinds or mutates in place, directly and transitively."""

from __future__ import annotations

import ast

from .dataflow import MUTATORS, base_name
from .program import dotted, walk_local


class Access:
    __slots__ = ("recv", "attr", "kind", "node", "func")

    def __init__(self, recv, attr, kind, node, func):
        self.recv = recv  # receiver expression text root ('self', 'tree', ...)
        self.attr = attr
        self.kind = kind  # read | write | mutate
        self.node = node
        self.func = func

    @property
    def loc(self):
        return f"{self.func.module.path}:{getattr(self.node, 'lineno', '?')}"


def attr_chain_root(expr):
    """For ``a.b.c[...]`` return (root name 'a', first attr 'b') else None."""
    chain = []
    e = expr
    while True:
        if isinstance(e, ast.Attribute):
            chain.append(e.attr)
            e = e.value
        elif isinstance(e, ast.Subscript):
            chain.append(None)
            e = e.value
        else:
            break
    if isinstance(e, ast.Name) and chain:
        first = None
        for c in reversed(chain):
            first = c
            break
        if first is not None:
            return e.id, first
    return None


class Effects:
    def __init__(self, program, resolver):
        self.p = program
        self.r = resolver
        self._direct = {}
        self._trans = {}

    # ------------------------------------------------------------ direct

    def direct(self, func):
        if func.key in self._direct and self._direct[func.key][0] is func:
            return self._direct[func.key][1]
        acc = []
        glob_reads, glob_writes, glob_mut = set(), set(), set()
        param_mut = set()
        m = func.module
        local = set(func.params) | {func.vararg, func.kwarg}
        local |= set(self.r.local_assignments(func))
        declared_global = set()
        for n in walk_local(func.node):
            if isinstance(n, ast.Global):
                declared_global.update(n.names)

        def is_global(name):
            if name in declared_global:
                return True
            if name in local:
                return False
            f = func.parent_func
            while f is not None:
                if name in f.params or name in self.r.local_assignments(f):
                    return False
                f = f.parent_func
            return name in m.assigns or name in m.imports or name in m.funcs or name in m.classes

        def record_target(t, kind_store):
            # t is an assignment / deletion / aug target
            if isinstance(t, ast.Attribute):
                ar = attr_chain_root(t)
                if ar and isinstance(t.value, ast.Name):
                    acc.append(Access(ar[0], t.attr, "write" if kind_store else "mutate", t, func))
                elif ar:
                    acc.append(Access(ar[0], ar[1], "mutate", t, func))
            elif isinstance(t, ast.Subscript):
                ar = attr_chain_root(t)
                if ar:
                    acc.append(Access(ar[0], ar[1], "mutate", t, func))
                else:
                    b = base_name(t)
                    if b:
                        if is_global(b):
                            glob_mut.add(b)
                        elif b in func.params:
                            param_mut.add(b)
            elif isinstance(t, ast.Name):
                if t.id in declared_global:
                    glob_writes.add(t.id)
            elif isinstance(t, (ast.Tuple, ast.List)):
                for e in t.elts:
                    record_target(e, kind_store)
            elif isinstance(t, ast.Starred):
                record_target(t.value, kind_store)

        for n in walk_local(func.node):
            if isinstance(n, ast.Assign):
                for t in n.targets:
                    record_target(t, True)
            elif isinstance(n, ast.AnnAssign):
                record_target(n.target, True)
            elif isinstance(n, ast.AugAssign):
                t = n.target
                if isinstance(t, ast.Attribute) and isinstance(t.value, ast.Name):
                    acc.append(Access(t.value.id, t.attr, "write", t, func))
                    acc.append(Access(t.value.id, t.attr, "read", t, func))
                else:
                    record_target(t, False)
            elif isinstance(n, ast.Delete):
                for t in n.targets:
                    if isinstance(t, ast.Subscript):
                        record_target(t, False)
                    elif isinstance(t, ast.Attribute):
                        record_target(t, True)
            elif isinstance(n, ast.Call) and isinstance(n.func, ast.Attribute):
                if n.func.attr in MUTATORS:
                    recv = n.func.value
                    ar = attr_chain_root(recv) if not isinstance(recv, ast.Name) else None
                    if ar:
                        acc.append(Access(ar[0], ar[1], "mutate", n, func))
                    elif isinstance(recv, ast.Name):
                        if is_global(recv.id):
                            glob_mut.add(recv.id)
                        elif recv.id in func.params:
                            param_mut.add(recv.id)
                if n.func.attr == "setattr":
                    pass
            elif isinstance(n, ast.Call) and dotted(n.func) == "setattr" and len(n.args) >= 2:
                tgt, name = n.args[0], n.args[1]
                if isinstance(tgt, ast.Name):
                    acc.append(Access(tgt.id, name.value if isinstance(name, ast.Constant) else "*",
                                      "write", n, func))
            elif isinstance(n, ast.Attribute) and isinstance(n.ctx, ast.Load):
                if isinstance(n.value, ast.Name):
                    acc.append(Access(n.value.id, n.attr, "read", n, func))
            elif isinstance(n, ast.Name) and isinstance(n.ctx, ast.Load):
                if is_global(n.id) and n.id in m.assigns:
                    glob_reads.add(n.id)
        out = {
            "access": acc,
            "glob_reads": glob_reads,
            "glob_writes": glob_writes,
            "glob_mut": glob_mut,
            "param_mut": param_mut,
        }
        self._direct[func.key] = (func, out)
        return out

    def self_like(self, func):
        """Names in ``func`` that denote the function's own object: ``self`` and
        locals assigned ``self if inplace else self.copy()`` (``tree``)."""
        names = set()
        if func.cls is not None and func.positional:
            names.add(func.positional[0])
        for name, vals in self.r.local_assignments(func).items():
            for v in vals:
                if isinstance(v, ast.IfExp) and isinstance(v.body, ast.Name) and v.body.id in names:
                    names.add(name)
        return names

    # ------------------------------------------------------------ transitive

    def transitive(self, func, attr_recv_filter=None):
        """Attributes (of own-object receivers) read/written/mutated by func and
        everything it reaches through calls on the same object."""
        key = func.key
        if key in self._trans:
            return self._trans[key]
        result = {"read": set(), "write": set(), "mutate": set(),
                  "glob_reads": set(), "glob_mut": set(), "glob_writes": set()}
        self._trans[key] = result  # cycle guard (partial result during recursion)
        seen = set()
        stack = [func]
        while stack:
            f = stack.pop()
            if f.key in seen:
                continue
            seen.add(f.key)
            d = self.direct(f)
            own = self.self_like(f)
            for a in d["access"]:
                if a.recv in own:
                    result[a.kind].add(a.attr)
            result["glob_reads"] |= {(f.module.path, g) for g in d["glob_reads"]}
            result["glob_mut"] |= {(f.module.path, g) for g in d["glob_mut"]}
            result["glob_writes"] |= {(f.module.path, g) for g in d["glob_writes"]}
            for call, res in self.r.calls_in(f):
                fn = call.func
                # follow only calls on the own object (self.m(), tree.m(), map(self.m, ..))
                recv = None
                if isinstance(fn, ast.Attribute) and isinstance(fn.value, ast.Name):
                    recv = fn.value.id
                elif dotted(fn) in ("map", "filter") and call.args and isinstance(
                    call.args[0], ast.Attribute
                ) and isinstance(call.args[0].value, ast.Name):
                    recv = call.args[0].value.id
                if recv in own:
                    for c in res.callees:
                        # only methods of the same object family: ``self.fn(...)`` with
                        # fn a callable attribute runs on somebody else's state
                        if f.cls is None or c.cls is None or c.cls.is_subclass_of(f.cls) \
                                or f.cls.is_subclass_of(c.cls):
                            stack.append(c)
                elif attr_recv_filter is None and recv is None:
                    # plain function call: follow for globals only
                    for c in res.callees:
                        if c.cls is None:
                            stack.append(c)
        return result

    def mutates_param(self, func, idx_or_name, _seen=None):
        """Does func (transitively, through passing the parameter on) mutate
        the given parameter in place?"""
        _seen = _seen or set()
        name = idx_or_name
        if isinstance(idx_or_name, int):
            pos = func.positional
            if func.cls is not None and pos and pos[0] in ("self", "cls"):
                pos = pos[1:]
            if idx_or_name >= len(pos):
                return False
            name = pos[idx_or_name]
        if (func.key, name) in _seen:
            return False
        _seen.add((func.key, name))
        d = self.direct(func)
        if name in d["param_mut"]:
            return True
        # aliases: x = param (without copy) then mutated is missed on purpose
        for call, res in self.r.calls_in(func):
            for i, a in enumerate(call.args):
                if isinstance(a, ast.Name) and a.id == name:
                    for c in res.callees:
                        if self.mutates_param(c, i, _seen):
                            return True
            for k in call.keywords:
                if k.arg and isinstance(k.value, ast.Name) and k.value.id == name:
                    for c in res.callees:
                        if k.arg in c.params and self.mutates_param(c, k.arg, _seen):
                            return True
        return False
