"""setup_cmd: nothing to build — verify that the interpreter can parse the
package and that the engine loads."""
import os
import sys

sys.path.insert(0, os.path.dirname(os.path.dirname(os.path.abspath(__file__))))
from sa.engine.program import Program  # noqa: E402

p = Program.from_repo()
print(f"setup ok: parsed {len(p.modules)} modules, {len(p.funcs)} functions, {len(p.classes)} classes")
if len(p.modules) < 30:
    print("ANALYSIS-ERROR: fewer modules than expected")
    sys.exit(2)
