BASIC = "cotengra/pathfinders/path_basic.py"

SIZE_FN = '''    size = 1
    for i in range(len(temp_legs) - 1, -1, -1):
        ix, ix_count = temp_legs[i]
        if ix_count == appearances[ix]:
            # contracted index, remove
            del temp_legs[i]
        else:
            size *= sizes[ix]

    return max((iscore, jscore, size))
'''

VARIANTS = [
    dict(name="size objective multiplies every leg", kind="break", file=BASIC, old=SIZE_FN,
         new='''    size = 1
    for i in range(len(temp_legs) - 1, -1, -1):
        ix, ix_count = temp_legs[i]
        size *= sizes[ix]
        if ix_count == appearances[ix]:
            # contracted index, remove
            del temp_legs[i]

    return max((iscore, jscore, size))
''', expect=("C09-COSTFN", "::size")),
    dict(name="size objective sums instead of max", kind="break", file=BASIC, old=SIZE_FN,
         new=SIZE_FN.replace("return max((iscore, jscore, size))", "return iscore + jscore + size"),
         expect=("C09-COSTFN", "::size")),
    dict(name="size objective forgets the left operand", kind="break", file=BASIC, old=SIZE_FN,
         new=SIZE_FN.replace("return max((iscore, jscore, size))", "return max((jscore, size))"),
         expect=("C09-COSTFN", "::size")),
    dict(name="forward loop while deleting", kind="break", file=BASIC, old=SIZE_FN,
         new=SIZE_FN.replace("range(len(temp_legs) - 1, -1, -1)", "range(len(temp_legs))"),
         expect=("C09-COSTFN", "compute_con_cost_size")),
    dict(name="write mapped to the flops function", kind="break", file=BASIC,
         old='    elif minimize == "write":\n        return compute_con_cost_write',
         new='    elif minimize == "write":\n        return compute_con_cost_flops',
         expect=("C09-COSTFN", "write")),
    dict(name="limit adds instead of taking the max", kind="break", file=BASIC,
         old="    new_local_score = max(cost, factor * size)", new="    new_local_score = cost + factor * size",
         expect=("C09-COSTFN", "limit")),
    dict(name="combo weights the flops instead of the size", kind="break", file=BASIC,
         old="    return iscore + jscore + (cost + factor * size)", new="    return iscore + jscore + (factor * cost + size)",
         expect=("C09-COSTFN", "combo")),
    dict(name="limit returned without its factor", kind="break", file=BASIC,
         old="        return functools.partial(compute_con_cost_limit, factor=factor)",
         new="        return functools.partial(compute_con_cost_limit)",
         expect=("C09-COSTFN", "limit")),
    dict(name="memo overwritten unconditionally", kind="break", file=BASIC,
         old="                        if (current is None) or (new_score < current[1]):",
         new="                        if True:", expect=("C09-DP", "memo-store")),
    dict(name="memo keeps the worse score", kind="break", file=BASIC,
         old="(new_score < current[1])", new="(new_score > current[1])", expect=("C09-DP", "memo-store")),
    dict(name="memo compares with the legs field", kind="break", file=BASIC,
         old="(new_score < current[1])", new="(new_score < current[0])", expect=("C09-DP", "memo-store")),
    dict(name="memo compared with another subgraph's entry", kind="break", file=BASIC,
         old="current = contractions_m.get(new_subgraph, None)", new="current = contractions_m.get(subgraph_i, None)",
         expect=("C09-DP", "memo-store")),
    dict(name="sieve on an operand's score", kind="break", file=BASIC,
         old="                        if new_score > cost_cap:", new="                        if iscore + jscore > cost_cap:",
         expect=("C09-DP", "sieve-skip")),
    dict(name="sieve inverted", kind="break", file=BASIC,
         old="                        if new_score > cost_cap:", new="                        if new_score < cost_cap:",
         expect=("C09-DP", "sieve-skip")),
    dict(name="round left at the first complete solution", kind="break", file=BASIC,
         old="                                new_path,\n                            )\n",
         new="                                new_path,\n                            )\n                            if m == nterms:\n                                break\n",
         expect=("C09-DP", "early-exit")),
    dict(name="search_outer ignored", kind="break", file=BASIC,
         old="                        skip_because_outer = not search_outer", new="                        skip_because_outer = True",
         expect=("C09-DP", "outer-skip")),
    dict(name="seed score not zero", kind="break", file=BASIC,
         old="            iscore = 0\n            ipath = ()", new="            iscore = 1\n            ipath = ()",
         expect=("C09-DP", "entry-layout")),
    dict(name="balanced splits lost", kind="break", file=BASIC,
         old="                for k in range(1, m // 2 + 1):", new="                for k in range(1, (m + 1) // 2):",
         expect=("C09-ENUM", "bipartitions")),
    dict(name="largest size never built", kind="break", file=BASIC,
         old="            for m in range(2, nterms + 1):", new="            for m in range(2, nterms):",
         expect=("C09-ENUM", "sizes")),
    dict(name="unequal splits use combinations of one table", kind="break", file=BASIC,
         old="                        pairs = itertools.product(\n                            contractions[k].items(),\n                            contractions[m - k].items(),\n                        )",
         new="                        pairs = itertools.product(\n                            contractions[k].items(),\n                            contractions[k].items(),\n                        )",
         expect=("C09-ENUM", "pairs")),
    dict(name="cap not widened", kind="break", file=BASIC,
         old="            cost_cap *= 2\n", new="            cost_cap *= 1\n", expect=("C09-CAP", "widens")),
    dict(name="cap widened only when nothing was found for size 2", kind="break", file=BASIC,
         old="            cost_cap *= 2\n", new="            if not contractions[2]:\n                cost_cap *= 2\n",
         expect=("C09-CAP", "widens")),
    dict(name="twin: size via local d and != test", kind="twin", file=BASIC, old=SIZE_FN,
         new='''    size = 1
    for i in range(len(temp_legs) - 1, -1, -1):
        ix, ix_count = temp_legs[i]
        d = sizes[ix]
        if ix_count != appearances[ix]:
            size = size * d
        else:
            del temp_legs[i]

    best = max(iscore, jscore)
    return max(best, size)
'''),
    dict(name="twin: cap widened by assignment, <= in memo", kind="twin",
         edits=[(BASIC, "            cost_cap *= 2\n", "            cost_cap = cost_cap * 4\n"),
                (BASIC, "(new_score < current[1])", "(current[1] >= new_score)")]),
    dict(name="twin: k over the upper half", kind="twin", file=BASIC,
         old="                for k in range(1, m // 2 + 1):", new="                for k in range((m + 1) // 2, m):"),
    dict(name="seed C09_1: sieve on the operands' scores", kind="break", file=BASIC,
         old="                        # do sorted simultaneous iteration over ilegs and jlegs\n", new="                        if iscore + jscore > cost_cap:\n                            continue\n\n                        # do sorted simultaneous iteration over ilegs and jlegs\n",
         expect=("C09-DP", "sieve-skip")),
    dict(name="seed C09_2: outer products concatenate the legs", kind="break", file=BASIC,
         old="                        new_legs.extend(ilegs[ip:])\n                        new_legs.extend(jlegs[jp:])\n",
         new="                        if ilegs[-1][0] < jlegs[0][0] or jlegs[-1][0] < ilegs[0][0]:\n                            new_legs = [*ilegs, *jlegs]\n                        else:\n                            new_legs.extend(ilegs[ip:])\n                            new_legs.extend(jlegs[jp:])\n",
         expect=("C09-SORTED", "merge-only")),
    dict(name="input legs stored unsorted", kind="break", file=BASIC,
         old="            legs.sort()\n            self.nodes[i] = tuple(legs)", new="            self.nodes[i] = tuple(legs)",
         expect=("C09-SORTED", "initial")),
    dict(name="seed C09_3: repeated capture group for the weight", kind="break", file=BASIC,
         old='r"(flops|size|write|combo|limit)-*(\\d*)"', new='r"(combo|limit)(?:-(\\d)*)?"', expect=("C09-FACTOR", "pattern")),
    dict(name="twin: weight pattern with + and an optional group", kind="twin", file=BASIC,
         old='r"(flops|size|write|combo|limit)-*(\\d*)"', new='r"(flops|size|write|combo|limit)-*([0-9]*)"'),
    dict(name="seed C09_7: outer products silently not searched for the size-based objectives", kind="break", file=BASIC,
         old="        compute_con_cost = parse_minimize_for_optimal(minimize)\n\n        nterms = len(where)", new="        compute_con_cost = parse_minimize_for_optimal(minimize)\n        if minimize in (\"size\", \"write\"):\n            search_outer = False\n\n        nterms = len(where)", expect=("C09-OPTIONS", "search_outer")),
    dict(name="twin: the objective's spelling is normalised before it is parsed", kind="twin", file=BASIC,
         old="        compute_con_cost = parse_minimize_for_optimal(minimize)\n\n        nterms = len(where)", new="        minimize = str(minimize)\n        compute_con_cost = parse_minimize_for_optimal(minimize)\n\n        nterms = len(where)"),
    dict(name="seed C09_6: batch-index detection counts the output as a tensor", kind="break", file=BASIC,
         old="            if len(ix_nodes) >= len(self.nodes):", new="            if self.appearances[ix] >= len(self.nodes):", expect=("C09-PRESIMP", "batch")),
    dict(name="twin: batch-index detection through the edge table", kind="twin", file=BASIC,
         old="            if len(ix_nodes) >= len(self.nodes):", new="            if len(self.edges[ix]) == len(self.nodes):"),
    dict(name="seed C09_9: size-1 indices are stripped from the network before the optimal search", kind="break", file=BASIC,
         old="    cp = ContractionProcessor(inputs, output, size_dict)\n    if simplify:\n        cp.simplify()\n\n    cp.optimize_optimal(", new="    inputs = [[ix for ix in term if size_dict[ix] != 1] for term in inputs]\n    output = [ix for ix in output if size_dict[ix] != 1]\n    cp = ContractionProcessor(inputs, output, size_dict)\n    if simplify:\n        cp.simplify()\n\n    cp.optimize_optimal(", expect=("C09-OPTIONS", "inputs")),
    dict(name="twin: the network's containers are converted to tuples first", kind="twin", file=BASIC,
         old="    cp = ContractionProcessor(inputs, output, size_dict)\n    if simplify:\n        cp.simplify()\n\n    cp.optimize_optimal(", new="    inputs = tuple(map(tuple, inputs))\n    output = tuple(output)\n    cp = ContractionProcessor(inputs, output, size_dict)\n    if simplify:\n        cp.simplify()\n\n    cp.optimize_optimal("),
    dict(name="the DP keeps the first tree it finds for a subgraph", kind="break", file=BASIC,
         old="                        if (current is None) or (new_score < current[1]):\n", new="                        if current is None:\n", expect=("C09-OPTIMALEVAL", "optimize_optimal_connected")),
    dict(name="twin: the DP looks the incumbent up with a membership test", kind="twin", file=BASIC,
         old="                        current = contractions_m.get(new_subgraph, None)\n                        if (current is None) or (new_score < current[1]):\n", new="                        current = contractions_m[new_subgraph] if new_subgraph in contractions_m else None\n                        if (current is None) or (new_score < current[1]):\n"),
]
