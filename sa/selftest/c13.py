I = "cotengra/interface.py"
CT = "cotengra/contract.py"
VARIANTS = [
    dict(name="F4-reverted: key is hash(spec)", kind="break", file=I,
         old="    return (inputs, output, tuple(size_dict.items()), optimize, kwargs)\n",
         new="    return (\n        hash((inputs, output, tuple(size_dict.items()), optimize, kwargs)),\n        len(inputs),\n    )\n",
         expect=("C13-KEYINJ", "hash_contraction")),
    dict(name="key keeps only the sizes", kind="break", file=I,
         old="    return (inputs, output, tuple(size_dict.items()), optimize, kwargs)\n",
         new="    return (inputs, output, tuple(size_dict.values()), optimize, kwargs)\n",
         expect=("C13-KEYINJ", "hash_contraction")),
    dict(name="key forgets the output", kind="break", file=I,
         old="    return (inputs, output, tuple(size_dict.items()), optimize, kwargs)\n",
         new="    return (inputs, tuple(size_dict.items()), optimize, kwargs)\n",
         expect=("C13-KEYINJ", "hash_contraction")),
    dict(name="F11-reverted: no TypeError fallback in array_contract_path", kind="break", file=I,
         old='''        try:
            key = hash_contraction(inputs, output, size_dict, optimize)
            try:
                path = _PATH_CACHE[key]
            except KeyError:
                path = _PATH_CACHE[key] = find_path(
                    inputs, output, size_dict, optimize
                )
        except TypeError:
            # unhashable specification, e.g. a path given as list of lists
            path = find_path(inputs, output, size_dict, optimize)
''', new='''        key = hash_contraction(inputs, output, size_dict, optimize)
        try:
            path = _PATH_CACHE[key]
        except KeyError:
            path = _PATH_CACHE[key] = find_path(
                inputs, output, size_dict, optimize
            )
''', expect=("C13-UNHASH", "array_contract_path")),
    dict(name="expression built with an option that is not in the key", kind="break", file=I,
         old='''                expr = _CONTRACT_EXPR_CACHE[key] = _build_expression(
                    inputs, output, size_dict, optimize=optimize, **kwargs
                )''', new='''                expr = _CONTRACT_EXPR_CACHE[key] = _build_expression(
                    inputs, output, size_dict, optimize=optimize,
                    sort_contraction_indices=canonicalize, **kwargs
                )''', expect=("C13-KEYCOMP", "array_contract_expression")),
    dict(name="can_hash_optimize accepts everything", kind="break", file=I,
         old="    if issubclass(cls, (str, tuple, list)):\n        return True\n    return False",
         new="    return True", expect=("C13-WHITELIST", "can_hash_optimize")),
    dict(name="path cache consulted without the hashability gate", kind="break", file=I,
         old="    if cache and can_hash_optimize(optimize.__class__):\n        try:\n            key = hash_contraction(inputs, output, size_dict, optimize)\n",
         new="    if cache:\n        try:\n            key = hash_contraction(inputs, output, size_dict, optimize)\n",
         expect=("C13-WHITELIST", "array_contract_path")),
    dict(name="list optimize keyed by identity-like repr", kind="break", file=I,
         old="            h = _HASH_OPTIMIZE_PREPARERS[cls] = tuple\n", new="            h = _HASH_OPTIMIZE_PREPARERS[cls] = id\n",
         expect=("C13-KEYINJ", "preparer")),
    dict(name="cached parser reads a mutable module table", kind="break", file=CT,
         old="DEFAULT_IMPLEMENTATION = \"auto\"\n", new="DEFAULT_IMPLEMENTATION = \"auto\"\n_EXTRA_SUMS = []\n",
         edits=[(CT, "DEFAULT_IMPLEMENTATION = \"auto\"\n", "DEFAULT_IMPLEMENTATION = \"auto\"\n_EXTRA_SUMS = []\n"),
                (CT, "    need_to_diag = []\n    need_to_sum = []\n", "    need_to_diag = []\n    need_to_sum = list(_EXTRA_SUMS)\n")],
         expect=("C13-MEMO", "_parse_einsum_single")),
    dict(name="memoised plan mutated by its user", kind="break", file=CT,
         old="    diag_sels, sum_axes, perm = _parse_einsum_single(eq, shape(x))\n",
         new="    diag_sels, sum_axes, perm = _parse_einsum_single(eq, shape(x))\n    if diag_sels is not None:\n        diag_sels.reverse()\n",
         expect=("C13-MEMO", "result-of:_parse_einsum_single")),
    dict(name="Contractor remembers its last intermediate", kind="break", file=CT,
         old="            # insert the new intermediate array\n            temps[p] = p_array\n",
         new="            # insert the new intermediate array\n            temps[p] = p_array\n            self.backend = backend\n",
         expect=("C13-STATELESS", "Contractor.__call__")),
    dict(name="Via caches converted inputs on itself", kind="break", file=I,
         old="        arrays = map(self.convert_in, arrays)\n", new="        arrays = self.fn_inputs = tuple(map(self.convert_in, arrays))\n",
         expect=("C13-STATELESS", "Via.__call__")),
    dict(name="handler chosen by a value test", kind="break", file=I,
         old="        elif isinstance(optimize, (tuple, list)):\n            fn = _find_path_handlers[cls] = _find_path_explicit_path",
         new="        elif isinstance(optimize, (tuple, list)) and len(optimize) > 0:\n            fn = _find_path_handlers[cls] = _find_path_explicit_path",
         expect=("C13-DISPATCH", "find_path")),
    dict(name="expression build consults an unlisted module switch", kind="break",
         edits=[(I, "_CONTRACT_EXPR_CACHE = {}\n", "_CONTRACT_EXPR_CACHE = {}\n_BUILD_FLAGS = {}\n"),
                (I, "    if len(inputs) == 1:\n        # no need to construct a tree\n", "    prefer_einsum = _BUILD_FLAGS.get(\"prefer_einsum\", prefer_einsum)\n    if len(inputs) == 1:\n        # no need to construct a tree\n")],
         expect=("C13-HIDDEN", "_BUILD_FLAGS")),
    dict(name="new memo table keyed by id() of arrays", kind="break",
         edits=[(I, "_CONTRACT_EXPR_CACHE = {}\n", "_CONTRACT_EXPR_CACHE = {}\n_CONSTANT_CACHE = {}\n"),
                (I, "    if via is not None:\n        fn = Via(fn, *via)\n\n    return fn\n\n\ndef _wrap_strip_exponent_final",
                 "    if via is not None:\n        fn = Via(fn, *via)\n\n    _CONSTANT_CACHE[tuple(id(c) for c in constants.values())] = fn\n    return fn\n\n\ndef _wrap_strip_exponent_final")],
         expect=("C13-KEYINJ", "_CONSTANT_CACHE")),
    dict(name="path and expression caches merged into one table", kind="break",
         edits=[(I, "_PATH_CACHE = {}\n", "_SHARED_CACHE = {}\n_PATH_CACHE = _SHARED_CACHE\n"),
                (I, "_CONTRACT_EXPR_CACHE = {}\n", "_CONTRACT_EXPR_CACHE = _SHARED_CACHE\n")],
         expect=("C13-KEYSPACE", "_SHARED_CACHE")),
    dict(name="Contractor memoises the backend inferred on its first call", kind="break", file=CT,
         old="        if backend is None:\n            backend = infer_backend_multi(*arrays)\n",
         new="        if backend is None:\n            if self.backend is None:\n                self.backend = infer_backend_multi(*arrays)\n            backend = self.backend\n",
         expect=("C13-STATELESS", "Contractor.__call__")),
    dict(name="twin: key built as nested tuples", kind="twin", file=I,
         old="    return (inputs, output, tuple(size_dict.items()), optimize, kwargs)\n",
         new="    return ((inputs, output), (tuple(size_dict.items()), (optimize, kwargs)))\n"),
    dict(name="twin: kwargs as a sorted tuple", kind="twin", file=I,
         old="    kwargs = frozenset(kwargs.items())\n", new="    kwargs = tuple(sorted(kwargs.items()))\n"),
    dict(name="F17-reverted: keyed option tested by identity", kind="break", file="cotengra/contract.py",
         old="        exponent = 0.0 if strip_exponent else None\n", new="        exponent = 0.0 if (strip_exponent is not False) else None\n",
         expect=("C13-IDENTITY", "strip_exponent")),
    dict(name="twin: keyed option tested with bool()", kind="twin", file="cotengra/contract.py",
         old="        exponent = 0.0 if strip_exponent else None\n", new="        exponent = 0.0 if bool(strip_exponent) else None\n"),
    dict(name="round4: reusable optimizer hands back a kept tree on a hit", kind="break", file="cotengra/reusable.py",
         old="        # else need to *reconstruct* the tree from the more compact path\n        return self._reconstruct_tree(inputs, output, size_dict, con)",
         new="        try:\n            return con[\"tree\"]\n        except KeyError:\n            tree = con[\"tree\"] = self._reconstruct_tree(inputs, output, size_dict, con)\n            return tree",
         expect=("C13-REUSABLE", "search")),
    dict(name="seed C13_9: re-registration drops the name resolution memo only", kind="break", file=I,
         old="        _PRESETS_PATH[preset] = optimizer\n", new="        _PRESETS_PATH[preset] = optimizer\n        preset_to_optimizer.cache_clear()\n",
         expect=("C13-INVALIDATE", "register_preset")),
    dict(name="twin: re-registration drops the memo and both tables", kind="twin", file=I,
         old="        _PRESETS_PATH[preset] = optimizer\n", new="        _PRESETS_PATH[preset] = optimizer\n        preset_to_optimizer.cache_clear()\n        _PATH_CACHE.clear()\n        _CONTRACT_EXPR_CACHE.clear()\n"),
    dict(name="seed C13_11: via taken out of the kwargs, lost on the unhashable fallback", kind="break",
         edits=[(I, "    if cache and can_hash_optimize(optimize.__class__):\n        try:\n            key = hash_contraction(\n                inputs, output, size_dict, optimize, **kwargs\n            )\n            try:\n                expr = _CONTRACT_EXPR_CACHE[key]",
                    "    if cache and can_hash_optimize(optimize.__class__):\n        via = kwargs.pop(\"via\", None)\n        try:\n            key = hash_contraction(\n                inputs, output, size_dict, optimize, **kwargs\n            )\n            try:\n                expr = _CONTRACT_EXPR_CACHE[key]"),
                (I, "                expr = _CONTRACT_EXPR_CACHE[key] = _build_expression(\n                    inputs, output, size_dict, optimize=optimize, **kwargs\n                )\n        except TypeError:",
                    "                expr = _CONTRACT_EXPR_CACHE[key] = _build_expression(\n                    inputs, output, size_dict, optimize=optimize, **kwargs\n                )\n            if via is not None:\n                expr = Via(expr, *via)\n        except TypeError:")],
         expect=("C13-UNHASH", "popped:via")),
    dict(name="seed C13_12: one HyperOptimizer per option set kept in module state", kind="break",
         edits=[("cotengra/__init__.py", "    optimizer = HyperOptimizer(**opts)\n", "    try:\n        optimizer = _HYPER_PRESET_OPTIMIZERS[str(opts)]\n    except KeyError:\n        optimizer = _HYPER_PRESET_OPTIMIZERS[str(opts)] = HyperOptimizer(**opts)\n"),
                ("cotengra/__init__.py", "def hyper_optimize(\n", "_HYPER_PRESET_OPTIMIZERS = {}\n\n\ndef hyper_optimize(\n")],
         expect=("C13-RETAINED", "parked:HyperOptimizer")),
    dict(name="seed C13_13: the per-tree contractor memo loses strip_exponent from its key", kind="break", file="cotengra/core.py",
         old="            strip_exponent,\n            check_zero,\n            implementation,\n            progbar,\n        )\n        try:",
         new="            check_zero,\n            implementation,\n            progbar,\n        )\n        try:",
         expect=("C13-COREKEY", "get_contractor")),
]
for v in VARIANTS:
    if v.get("edits"):
        v.pop("file", None); v.pop("old", None); v.pop("new", None)
