R = "cotengra/reusable.py"
P = "cotengra/presets.py"
PB = "cotengra/pathfinders/path_basic.py"
VARIANTS = [
    dict(name="F6-reverted: HyperOptimizer retained when not caching", kind="break", file=P,
         old='''        if self._optimizer_hyper_cls is HyperOptimizer:
            # not caching: a plain hyperoptimizer accumulates its trials and
            # best tree over every search it runs, so it can't be shared
            # between queries -> instantiate a new one each time
            return HyperOptimizer(minimize=self.minimize, **self.kwargs)

''', new="", expect=("C16-FRESH", "AutoOptimizer.search")),
    dict(name="last optimizer kept in a plain attribute", kind="break", file=R, count=2,
         old="        thrid = threading.get_ident()\n        self._suboptimizers[thrid] = opt\n",
         new="        self._last_opt = opt\n", expect=("C16-THREADKEY", "_last_opt")),
    dict(name="suboptimizers keyed by a constant", kind="break", file=R, count=2,
         old="        thrid = threading.get_ident()\n        self._suboptimizers[thrid] = opt\n",
         new="        self._suboptimizers[0] = opt\n", expect=("C16-THREADKEY", "_suboptimizers")),
    dict(name="last_opt read with a fixed key", kind="break", file=R,
         old="        return self._suboptimizers.get(threading.get_ident(), None)",
         new="        return self._suboptimizers.get(0, None)", expect=("C16-THREADKEY", "read:")),
    dict(name="AutoOptimizer remembers the last inputs", kind="break", file=P,
         old="    def search(self, inputs, output, size_dict, **kwargs):\n        if estimate_optimal_hardness(inputs) < self.optimal_cutoff:",
         new="    def search(self, inputs, output, size_dict, **kwargs):\n        self.last_inputs = inputs\n        if estimate_optimal_hardness(inputs) < self.optimal_cutoff:",
         expect=("C16-THREADKEY", "last_inputs")),
    dict(name="reusable wrapper keeps one suboptimizer for all queries", kind="break", file=PB,
         old="    def _get_suboptimizer(self):\n        return RandomGreedyOptimizer(**self._suboptimizer_kwargs)",
         new="    def _get_suboptimizer(self):\n        if not hasattr(self, \"_shared\"):\n            self._shared = RandomGreedyOptimizer(**self._suboptimizer_kwargs)\n        return self._shared",
         expect=("C16-THREADKEY", "_shared")),
    dict(name="a RandomGreedyOptimizer singleton registered as preset", kind="break",
         file="cotengra/pathfinders/path_random.py",
         old='register_preset("random", RandomOptimizer())\n',
         new='register_preset("random", RandomOptimizer())\nfrom .path_basic import RandomGreedyOptimizer\nregister_preset("rgreedy-shared", RandomGreedyOptimizer())\n',
         expect=("C16-FRESH", "RandomGreedyOptimizer")),
    dict(name="GreedyOptimizer starts remembering its best path", kind="break",
         edits=[(PB, "        self._optimize_fn = get_optimize_greedy(accel)\n",
                 "        self._optimize_fn = get_optimize_greedy(accel)\n        self.best_path = None\n"),
                (PB, """    def ssa_path(self, inputs, output, size_dict, **kwargs):
        return self._optimize_fn(
            inputs,
            output,
            size_dict,
            use_ssa=True,
            **self.maybe_update_defaults(**kwargs),
        )
""", """    def ssa_path(self, inputs, output, size_dict, **kwargs):
        if self.best_path is None:
            self.best_path = self._optimize_fn(
                inputs,
                output,
                size_dict,
                use_ssa=True,
                **self.maybe_update_defaults(**kwargs),
            )
        return self.best_path
""", 2)],
         expect=("C16-FRESH", "GreedyOptimizer")),
    dict(name="a waiting thread returns searched=True without searching", kind="break", file=R,
         old="                raise KeyError(\"Contraction missing from cache.\")\n\n            con = self._run_optimizer(inputs, output, size_dict)\n",
         new="                raise KeyError(\"Contraction missing from cache.\")\n\n            if h in self._cache and not self.overwrite:\n                return should_run, self._cache[h]\n\n            con = self._run_optimizer(inputs, output, size_dict)\n",
         expect=("C16-OWNRUN", "_maybe_run_optimizer")),
    dict(name="search always returns the thread's last tree", kind="break", file=R,
         old="        if searched:\n            # already have the tree to return\n            return self.last_opt.tree\n",
         new="        if self.last_opt is not None:\n            return self.last_opt.tree\n", expect=("C16-OWNRUN", "search")),
    dict(name="twin: early return with an explicit False flag", kind="twin", file=R,
         old="        should_run = missing or self.overwrite\n        if should_run:",
         new="        should_run = missing or self.overwrite\n        if (not should_run) and False:\n            return False, self._cache[h]\n        if should_run:"),
    dict(name="twin: rename tid", kind="twin", file=P, count=3, old="tid", new="thread_id"),
    dict(name="twin: thread id taken once into a local in last_opt", kind="twin", file=R,
         old="        return self._suboptimizers.get(threading.get_ident(), None)",
         new="        me = threading.get_ident()\n        return self._suboptimizers.get(me, None)"),
    dict(name="round3: seeded random-greedy sub-optimizer kept between queries", kind="break", file="cotengra/pathfinders/path_basic.py",
         old="        return RandomGreedyOptimizer(**self._suboptimizer_kwargs)\n",
         new="        opt = self.last_opt\n        if (opt is None) or (self._suboptimizer_kwargs.get(\"seed\") is None):\n            opt = RandomGreedyOptimizer(**self._suboptimizer_kwargs)\n        return opt\n",
         expect=("C16-FRESH", "ReusableRandomGreedyOptimizer")),
    dict(name="round3: shortcut _run_optimizer that records no sub-optimizer", kind="break", file="cotengra/hyperoptimizers/hyper.py",
         old="    def _get_suboptimizer(self):\n        return HyperOptimizer(**self._suboptimizer_kwargs)\n",
         new="    def _get_suboptimizer(self):\n        return HyperOptimizer(**self._suboptimizer_kwargs)\n\n    def _run_optimizer(self, inputs, output, size_dict):\n        if len(inputs) <= 2:\n            return {\"path\": ((0, 1),) if len(inputs) == 2 else (), \"score\": 0.0, \"sliced_inds\": ()}\n        return super()._run_optimizer(inputs, output, size_dict)\n",
         expect=("C16-OWNRUN", "records-suboptimizer")),
    dict(name="twin: _run_optimizer override that only delegates", kind="twin", file="cotengra/hyperoptimizers/hyper.py",
         old="    def _get_suboptimizer(self):\n        return HyperOptimizer(**self._suboptimizer_kwargs)\n",
         new="    def _get_suboptimizer(self):\n        return HyperOptimizer(**self._suboptimizer_kwargs)\n\n    def _run_optimizer(self, inputs, output, size_dict):\n        return super()._run_optimizer(inputs, output, size_dict)\n"),
    dict(name="seed C16_7: sub-optimizer recorded before its search", kind="break", file="cotengra/reusable.py",
         old="        opt = self._get_suboptimizer()\n        tree = opt.search(inputs, output, size_dict)\n        thrid = threading.get_ident()\n        self._suboptimizers[thrid] = opt\n",
         new="        opt = self._get_suboptimizer()\n        thrid = threading.get_ident()\n        self._suboptimizers[thrid] = opt\n        tree = opt.search(inputs, output, size_dict)\n",
         expect=("C16-OWNRUN", "records-suboptimizer")),
    dict(name="seed C16_11: outstanding pool trials kept in a class-level list", kind="break",
         edits=[("cotengra/hyperoptimizers/hyper.py", "    compressed = False\n    multicontraction = False\n\n    def __init__(\n        self,\n        methods=None,", "    compressed = False\n    multicontraction = False\n    _futures = []\n\n    def __init__(\n        self,\n        methods=None,"),
                ("cotengra/hyperoptimizers/hyper.py", "        constants = get_hyper_constants()\n        self._futures = []\n", "        constants = get_hyper_constants()\n        self._maybe_cancel_futures()\n")],
         expect=("C16-CLASSSTATE", "_futures")),
    dict(name="twin: a class-level default that every search re-binds on the instance", kind="twin",
         edits=[("cotengra/hyperoptimizers/hyper.py", "    compressed = False\n    multicontraction = False\n\n    def __init__(\n        self,\n        methods=None,", "    compressed = False\n    multicontraction = False\n    _futures = ()\n\n    def __init__(\n        self,\n        methods=None,")]),
    dict(name="seed C16_12: a failed re-search keeps the cached entry but still says 'searched'", kind="break", file="cotengra/reusable.py",
         old="            con = self._run_optimizer(inputs, output, size_dict)\n", new="            try:\n                con = self._run_optimizer(inputs, output, size_dict)\n            except KeyError:\n                if missing:\n                    raise\n                return should_run, self._cache[h]\n", expect=("C16-OWNRUN", "return@flag")),
    dict(name="twin: a failed re-search keeps the cached entry and says 'not searched'", kind="twin", file="cotengra/reusable.py",
         old="            con = self._run_optimizer(inputs, output, size_dict)\n", new="            try:\n                con = self._run_optimizer(inputs, output, size_dict)\n            except KeyError:\n                if missing:\n                    raise\n                return False, self._cache[h]\n"),
]
