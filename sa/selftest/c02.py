"""Self-validation variants for C02 (see runner.py for the format)."""
CORE = "cotengra/core.py"
ANNEAL = "cotengra/pathfinders/path_simulated_annealing.py"

RESET_TUPLE = '''            for k in (
                "inds",
                "einsum_eq",
                "can_dot",
                "tensordot_axes",
                "tensordot_perm",
            ):
                self.info[node].pop(k, None)
'''

VARIANTS = [
    # ---- reversals of the repaired defects (F1, F2) ----
    dict(name="F1-reverted: store supplied legs for the root", kind="break", file=CORE,
         old='if (legs is not None) and (len(parent) != self.N):', new='if legs is not None:',
         expect=("C02-ROOT", "contract_nodes_pair")),
    dict(name="F2-reverted: subtree_reconfigure only clears cores", kind="break", file=CORE,
         old='''        # orders, which ancestors of the reconfigured nodes also depend on
        tree.reset_contraction_indices()
''', new='''        tree.contraction_cores.clear()
''', expect=("C02-CLOSURE", "subtree_reconfigure")),
    dict(name="F2-reverted: simulated_anneal_tree without reset", kind="break", file=ANNEAL,
         old='''    tree.reset_contraction_indices()

    return tree
''', new='''    return tree
''', expect=("C02-CLOSURE", "simulated_anneal_tree")),
    dict(name="F2-reverted: restore_ind only clears cores", kind="break", file=CORE,
         old='''        tree.already_optimized.clear()
        # the index order of any node can change -> ancestors are stale too
        tree.reset_contraction_indices()

        return tree

    restore_ind_''', new='''        tree.already_optimized.clear()
        tree.contraction_cores.clear()

        return tree

    restore_ind_''', expect=("C02-CLOSURE", "restore_ind")),
    dict(name="F2-reverted: remove_ind only clears cores", kind="break", file=CORE,
         old='''        tree.already_optimized.clear()
        # the index order of any node can change -> ancestors are stale too
        tree.reset_contraction_indices()

        return tree

    remove_ind_''', new='''        tree.already_optimized.clear()
        tree.contraction_cores.clear()

        return tree

    remove_ind_''', expect=("C02-CLOSURE", "remove_ind")),
    # ---- key lists ----
    dict(name="reset_contraction_indices forgets tensordot_perm", kind="break", file=CORE,
         old=RESET_TUPLE, new=RESET_TUPLE.replace('                "tensordot_perm",\n', ''),
         expect=("C02-LISTS", "reset_contraction_indices")),
    dict(name="reset_contraction_indices forgets einsum_eq", kind="break", file=CORE,
         old=RESET_TUPLE, new=RESET_TUPLE.replace('                "einsum_eq",\n', ''),
         expect=("C02-LISTS", "reset_contraction_indices")),
    dict(name="new cached property reading get_inds, not listed anywhere", kind="break", file=CORE,
         old='''    def get_centrality(self, node):''',
         new='''    @cached_node_property("tensordot_shape")
    def get_tensordot_shape(self, node):
        return tuple(self.size_dict[ix] for ix in self.get_inds(node))

    def get_centrality(self, node):''',
         expect=("C02-LISTS", "tensordot_shape")),
    dict(name="reset skips small nodes (filtered loop)", kind="break", file=CORE,
         old='''        for node in self.children:
            for k in (
                "inds",''', new='''        for node in self.children:
            if len(node) == 2:
                continue
            for k in (
                "inds",''', expect=("C02-LISTS", "iteration")),
    # ---- cores / root / node ----
    dict(name="sort_contraction_indices loses its root guard", kind="break", file=CORE,
         old='if make_output_contig and len(p) != self.N:', new='if make_output_contig:',
         expect=("C02-ROOT", "sort_contraction_indices")),
    dict(name="new method writes legs for arbitrary node", kind="break", file=CORE,
         old='''    def get_centrality(self, node):''',
         new='''    def set_legs(self, node, legs):
        self.info[node]["legs"] = legs

    def get_centrality(self, node):''', expect=("C02-ROOT", "set_legs")),
    dict(name="root legs from a set of the output", kind="break", file=CORE,
         old='return {ix: 0 for ix in self.output if ix not in self.sliced_inds}',
         new='return {ix: 0 for ix in set(self.output) if ix not in self.sliced_inds}',
         expect=("C02-ROOT", "root-branch")),
    dict(name="restore_ind returns before cores are cleared (early return)", kind="break", file=CORE,
         old='''        si = tree.sliced_inds.pop(ind)
''', new='''        si = tree.sliced_inds.pop(ind)
        if not tree.sliced_inds and si.size == 1:
            return tree
''', expect=("C02-CORES", "restore_ind")),
    dict(name="a second function deletes nodes directly", kind="break", file=CORE,
         old='''    def get_centrality(self, node):''',
         new='''    def drop_node(self, node):
        del self.children[node]
        del self.info[node]

    def get_centrality(self, node):''', expect=("C02-NODE", "drop_node")),
    dict(name="_remove_node keeps the root's info", kind="break", file=CORE,
         old='''            if node_extent == self.N:
                # root node should always exist
                self.info[node].clear()
            else:''', new='''            if node_extent == self.N:
                # root node should always exist
                pass
            else:''', expect=("C02-NODE", "whole-entry")),
    dict(name="non-inplace restore_ind pops from self before copying", kind="break", file=CORE,
         old="        tree = self if inplace else self.copy()\n\n        # pop sliced index info\n        si = tree.sliced_inds.pop(ind)\n",
         new="        si = self.sliced_inds.pop(ind)\n\n        tree = self if inplace else self.copy()\n",
         expect=("C02-PURE", "restore_ind")),
    dict(name="copies share the preprocessing dict", kind="break", file=CORE,
         old='            "root",\n            "size_dict",\n', new='            "root",\n            "preprocessing",\n            "size_dict",\n',
         expect=("C02-COPY", "preprocessing")),
    dict(name="extract_contractions reads preprocessing before computing the recipes", kind="break",
         file="cotengra/contract.py",
         old="    contractions = []\n\n    # pairwise contractions\n",
         new="    contractions = []\n    pre = dict(tree.preprocessing)\n\n    # pairwise contractions\n",
         expect=("C02-PREPROC", "extract_contractions")),
    # ---- twins ----
    dict(name="twin: reorder the reset tuple", kind="twin", file=CORE, old=RESET_TUPLE,
         new='''            for k in (
                "tensordot_perm",
                "tensordot_axes",
                "can_dot",
                "einsum_eq",
                "inds",
            ):
                self.info[node].pop(k, None)
'''),
    dict(name="twin: hoist the reset tuple into a module constant", kind="twin",
         edits=[(CORE, RESET_TUPLE, '''            for k in _ORDER_KEYS:
                self.info[node].pop(k, None)
'''), (CORE, '''def cached_node_property(name):''', '''_ORDER_KEYS = ("inds", "einsum_eq", "can_dot", "tensordot_axes", "tensordot_perm")


def cached_node_property(name):''')]),
    dict(name="twin: rename node_info in remove_ind", kind="twin", file=CORE, count=5,
         old="node_info", new="ninfo"),
    dict(name="twin: root guard written with <", kind="twin", file=CORE,
         old='if (legs is not None) and (len(parent) != self.N):',
         new='if (legs is not None) and (len(parent) < self.N):'),
    dict(name="twin: inline reset loop in subtree_reconfigure", kind="twin", file=CORE,
         old='''        # orders, which ancestors of the reconfigured nodes also depend on
        tree.reset_contraction_indices()
''', new='''        for node in tree.children:
            for k in ("inds", "einsum_eq", "can_dot", "tensordot_axes", "tensordot_perm"):
                tree.info[node].pop(k, None)
        tree.contraction_cores.clear()
'''),
    dict(name="round2: sliced leaf keeps its cached size", kind="break", file=CORE,
         old="                    tree._remove_node(node)\n                    tree.sliced_inputs = tree.sliced_inputs | frozenset([i])",
         new="                    for k in (\"legs\", \"inds\"):\n                        node_info.pop(k, None)\n                    tree.preprocessing.pop(i, None)\n                    tree.sliced_inputs = tree.sliced_inputs | frozenset([i])",
         expect=("C02-LISTS", "leaf::size")),
    dict(name="twin: sliced leaf drops legs, inds and size by hand", kind="twin", file=CORE,
         old="                    tree._remove_node(node)\n                    tree.sliced_inputs = tree.sliced_inputs | frozenset([i])",
         new="                    for k in (\"legs\", \"inds\", \"size\"):\n                        node_info.pop(k, None)\n                    tree.preprocessing.pop(i, None)\n                    tree.sliced_inputs = tree.sliced_inputs | frozenset([i])"),
    dict(name="round2: contractor memo keyed by the order's name", kind="break", file=CORE,
         old="        key = (\n            autojit,\n            order,\n", new="        key = (\n            autojit,\n            getattr(order, \"__qualname__\", order),\n",
         expect=("C02-COREKEY", "get_contractor")),
    dict(name="contractor memo key drops check_zero", kind="break", file=CORE,
         old="            strip_exponent,\n            check_zero,\n            implementation,\n            progbar,\n        )\n        try:",
         new="            strip_exponent,\n            implementation,\n            progbar,\n        )\n        try:",
         expect=("C02-COREKEY", "get_contractor")),
    dict(name="round2: slice() models self after unslicing the copy", kind="break", file=CORE,
         old="        sf = SliceFinder(\n            tree,", new="        sf = SliceFinder(\n            self,",
         expect=("C02-PURE", "slice")),
    dict(name="twin: original consulted before anything changed", kind="twin", file=CORE,
         old="        if ind in tree.sliced_inds:\n            raise ValueError(f\"Index {ind} already sliced.\")",
         new="        if ind in self.sliced_inds:\n            raise ValueError(f\"Index {ind} already sliced.\")"),
    dict(name="round3: reset skipped when no core is compiled", kind="break", file=CORE,
         old="        # delete all derived information\n        for node in self.children:",
         new="        if not self.contraction_cores:\n            return\n\n        # delete all derived information\n        for node in self.children:",
         expect=("C02-LISTS", "iteration")),
    dict(name="round3: ordered traversal bisects the whole queue", kind="break", file=CORE,
         old="                            ci = bisect(scores[:i], score)", new="                            ci = bisect(scores, score)",
         expect=("C02-TOPO", "_traverse_ordered")),
    dict(name="twin: ordered traversal bounded with hi=", kind="twin", file=CORE,
         old="                            ci = bisect(scores[:i], score)", new="                            ci = bisect(scores, score, 0, i)"),
    dict(name="restore_ind recomputes the slice count from dimensions", kind="break", file=CORE,
         old="        tree.multiplicity //= si.size\n", new="        tree.multiplicity = prod(tree.size_dict[ix] for ix in tree.sliced_inds)\n",
         expect=("C02-MULTPAIR", "restore_ind")),
    dict(name="round3: whole-tree stats memoised in the root's info", kind="break",
         edits=[("cotengra/core.py", "            tracker.update_post_step()\n\n        return tracker", "            tracker.update_post_step()\n\n        self.info[self.root][(\"compressed_stats\", chi)] = tracker\n        return tracker")],
         expect=("C02-KEYS", "adhoc")),
    dict(name="twin: original consulted after the copy only filled its caches", kind="twin", file=CORE,
         old="        tree.contract_stats()\n        # ... as well as the involved indices and legs of every intermediate,",
         new="        tree.contract_stats()\n        _ = self.sliced_inds\n        # ... as well as the involved indices and legs of every intermediate,"),
    dict(name="F16-reverted: index orders re-assigned with the old recipes cached", kind="break", file=CORE,
         old="        else:\n            # keep the current index orders as the starting point, but drop\n            # everything derived from them, which the re-sorting invalidates\n            for node in self.children:\n                for k in (\"einsum_eq\", \"tensordot_axes\", \"tensordot_perm\"):\n                    self.info[node].pop(k, None)\n",
         new="", expect=("C02-REORDER", "sort_contraction_indices")),
    dict(name="twin: sort always resets first", kind="twin", file=CORE,
         old="        if reset:\n            self.reset_contraction_indices()\n        else:\n            # keep the current index orders as the starting point, but drop\n            # everything derived from them, which the re-sorting invalidates\n            for node in self.children:\n                for k in (\"einsum_eq\", \"tensordot_axes\", \"tensordot_perm\"):\n                    self.info[node].pop(k, None)\n",
         new="        self.reset_contraction_indices()\n"),
    dict(name="round4: selector located with term.index", kind="break", file=CORE,
         old="            selector = tuple(\n                locations.get(ix, slice(None)) for ix in self.inputs[c]\n            )\n            # re-insert the sliced array\n            temp_arrays[c] = temp_arrays[c][selector]",
         new="            term = self.inputs[c]\n            selector = [slice(None)] * len(term)\n            for ix, loc in locations.items():\n                if ix in term:\n                    selector[term.index(ix)] = loc\n            temp_arrays[c] = temp_arrays[c][tuple(selector)]",
         expect=("C02-SLICEARR", "selector")),
    dict(name="seed C02_10: chunks rescaled with the sign of the exponent difference inverted", kind="break", file=CORE,
         old="                k: mi * 10 ** (ei - emax) for k, (mi, ei) in chunks.items()", new="                k: mi * 10 ** (emax - ei) for k, (mi, ei) in chunks.items()",
         expect=("C02-SLICESUM", "gather_slices")),
    dict(name="sorting the index orders keeps the compiled contractors", kind="break", file=CORE,
         old="                    self.info[r][\"inds\"] = r_inds\n\n        # invalidate any compiled contractions\n        self.contraction_cores.clear()",
         new="                    self.info[r][\"inds\"] = r_inds\n", expect=("C02-CORES", "sort_contraction_indices")),
    dict(name="resetting the index orders keeps the compiled contractors", kind="break", file=CORE,
         old="                self.info[node].pop(k, None)\n\n        # invalidate any compiled contractions\n        self.contraction_cores.clear()",
         new="                self.info[node].pop(k, None)\n", expect=("C02-CORES", "reset_contraction_indices")),
    dict(name="seed C04_11: annealing puts the parent's old info entry back", kind="break", file=ANNEAL,
         old="                    tree._remove_node(p)\n                    tree._remove_node(x)\n", new="                    p_info = tree.info[p]\n                    tree._remove_node(p)\n                    tree._remove_node(x)\n                    tree.info[p] = p_info\n",
         expect=("C02-NODE", "info[...] = ")),
]
