"""Self-validation of the rules (thorough tier): each variant is the current
/repo source with one edit applied *in memory*; ``break`` variants must make the
named rule fire (on a construct containing the expected fragment), ``twin``
variants (behaviour-preserving rewrites) must leave the property's verdict
unchanged.  Nothing is written to disk and cotengra is never executed.

A variant is a dict:
  name, kind ('break'|'twin'), file, old, new [, count]   text edit (``old`` must
      occur exactly ``count`` (default 1) times in the current file, otherwise
      the variant is reported as 'not applicable on this tree')
  or  edits: [(file, old, new), ...] for multi-site variants
  expect: (rule id, construct fragment)  for break variants
"""

from __future__ import annotations

import importlib
import os
from concurrent.futures import ProcessPoolExecutor

from ..engine.program import AnalysisError, Program
from ..engine import report


def apply_variant(sources, v):
    if v.get("generic"):
        from . import generic

        return generic.GENERIC[v["name"]](sources)
    edits = v.get("edits") or [(v["file"], v["old"], v["new"])]
    out = dict(sources)
    for e in edits:
        file, old, new = e[:3]
        src = out.get(file)
        if src is None:
            return None
        cnt = e[3] if len(e) > 3 else v.get("count", 1)
        if src.count(old) != cnt:
            return None
        out[file] = src.replace(old, new)
    return out


def _run_one(args):
    pid, sources, v = args
    from .. import check

    mutated = apply_variant(sources, v)
    if mutated is None:
        return {"name": v["name"], "kind": v["kind"], "status": "not-applicable",
                "detail": "anchor text not found exactly once in the current tree"}
    try:
        prog = Program(mutated, label=v["name"])
        known = report.load_known()
        mod, results, ctx, new, matched, stale = check.run_property(pid, prog, "quick", known)
    except AnalysisError as e:
        if v["kind"] == "break" and v.get("expect_error"):
            return {"name": v["name"], "kind": v["kind"], "status": "ok",
                    "detail": f"analysis error as expected: {e}"}
        return {"name": v["name"], "kind": v["kind"], "status": "FAILED",
                "detail": f"analysis error: {e}"}
    except SyntaxError as e:
        return {"name": v["name"], "kind": v["kind"], "status": "FAILED",
                "detail": f"variant does not parse: {e}"}
    fired = [(x.rule, x.construct) for x in new]
    if v["kind"] == "break":
        rule, frag = v["expect"]
        hit = [c for rr, c in fired if rr == rule and frag in c]
        if hit:
            return {"name": v["name"], "kind": "break", "status": "ok",
                    "detail": f"{rule} fired on {hit[0]}"}
        return {"name": v["name"], "kind": "break", "status": "FAILED",
                "detail": f"expected {rule} on *{frag}*; fired: {fired[:4]}"}
    if fired:
        return {"name": v["name"], "kind": "twin", "status": "FAILED",
                "detail": f"behaviour-preserving variant raised {fired[:4]}"}
    return {"name": v["name"], "kind": "twin", "status": "ok", "detail": "silent"}


def variants_for(pid):
    from . import generic

    gen = [dict(name=n, kind="twin", generic=True) for n in generic.GENERIC]
    try:
        mod = importlib.import_module(f"sa.selftest.{pid.lower()}")
    except ModuleNotFoundError:
        return gen
    return list(mod.VARIANTS) + gen


def run(pid, program, jobs=None):
    vs = variants_for(pid)
    jobs = jobs or min(16, os.cpu_count() or 4, max(1, len(vs)))
    tasks = [(pid, program.sources, v) for v in vs]
    results = []
    if tasks:
        if jobs > 1:
            with ProcessPoolExecutor(max_workers=jobs) as ex:
                results = list(ex.map(_run_one, tasks))
        else:
            results = [_run_one(t) for t in tasks]
    failed = [f"{r['name']}: {r['detail']}" for r in results if r["status"] == "FAILED"]
    summary = {
        "variants": len(results),
        "break_ok": sum(1 for r in results if r["kind"] == "break" and r["status"] == "ok"),
        "twin_ok": sum(1 for r in results if r["kind"] == "twin" and r["status"] == "ok"),
        "not_applicable": [r["name"] for r in results if r["status"] == "not-applicable"],
        "failed": failed,
        "matrix": results,
    }
    return {"summary": summary, "failed": failed}
