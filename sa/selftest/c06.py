CORE = "cotengra/core.py"
REBUILD = '''        tree.sliced_inds = {
            si.ind: si for si in sorted((*tree.sliced_inds.values(), si))
        }
'''
VARIANTS = [
    dict(name="new sliced index appended in place", kind="break", file=CORE, old=REBUILD,
         new="        tree.sliced_inds[ind] = si\n", expect=("C06-ORDER", "remove_ind")),
    dict(name="sliced_inds rebuilt without sorting", kind="break", file=CORE, old=REBUILD,
         new="        tree.sliced_inds = {**tree.sliced_inds, si.ind: si}\n",
         expect=("C06-ORDER", "remove_ind")),
    dict(name="SliceInfo field order puts ind first", kind="break", file=CORE,
         old="    inner: bool\n    ind: str\n", new="    ind: str\n    inner: bool\n",
         expect=("C06-ORDER", "SliceInfo")),
    dict(name="SliceInfo loses order=True", kind="break", file=CORE,
         old="@dataclass(order=True, frozen=True)", new="@dataclass(frozen=True)",
         expect=("C06-ORDER", "SliceInfo")),
    dict(name="remove_ind no longer records sliced inputs", kind="break", file=CORE,
         old="                    tree.sliced_inputs = tree.sliced_inputs | frozenset([i])\n", new="",
         expect=("C06-PAIR", "missing")),
    dict(name="restore_ind drops the input unconditionally", kind="break", file=CORE,
         old="                if all(ix not in tree.sliced_inds for ix in term):\n                    # mark this input as not sliced\n                    tree.sliced_inputs = tree.sliced_inputs - frozenset([i])",
         new="                tree.sliced_inputs = tree.sliced_inputs - frozenset([i])",
         expect=("C06-PAIR", "restore_ind")),
    dict(name="restore_ind divides by the index dimension", kind="break", file=CORE,
         old="        tree.multiplicity //= si.size", new="        tree.multiplicity //= tree.size_dict[si.ind]",
         expect=("C06-MULT", "restore_ind")),
    dict(name="projection records the full size", kind="break", file=CORE,
         old="            si = SliceInfo(ind not in tree.output, ind, 1, project)",
         new="            si = SliceInfo(ind not in tree.output, ind, d, project)",
         expect=("C06-MULT", "remove_ind")),
    dict(name="slice_arrays slices every input", kind="break", file=CORE,
         old="        for c in self.sliced_inputs:", new="        for c in range(self.N):",
         expect=("C06-APPLY", "slice_arrays")),
    dict(name="twin: sort with an explicit key", kind="twin", file=CORE, old=REBUILD,
         new='''        tree.sliced_inds = {
            s.ind: s
            for s in sorted(
                (*tree.sliced_inds.values(), si),
                key=lambda s: (s.inner, s.ind, s.size, s.project is not None),
            )
        }
'''),
    dict(name="twin: restore_ind pops through a local", kind="twin", file=CORE,
         old="        tree.multiplicity //= si.size", new="        tree.multiplicity = tree.multiplicity // si.size"),
    dict(name="round2: chunk keyed by chunk number", kind="break", file=CORE,
         old="for ix, x in self.slice_key(o * stepsize).items()", new="for ix, x in self.slice_key(o).items()",
         expect=("C06-CHUNKKEY", "gen_output_chunks")),
    dict(name="round2: chunks divided instead of multiplied", kind="break", file=CORE,
         old="k: mi * 10 ** (ei - emax) for k, (mi, ei)", new="k: mi / 10 ** (ei - emax) for k, (mi, ei)",
         expect=("C06-COMBINE", "gather_slices")),
    dict(name="twin: start hoisted into a local", kind="twin",
         edits=[(CORE, "            chunk = self.contract_slice(arrays, o * stepsize, **contract_opts)\n",
                 "            start = o * stepsize\n            chunk = self.contract_slice(arrays, start, **contract_opts)\n"),
                (CORE, "for ix, x in self.slice_key(o * stepsize).items()", "for ix, x in self.slice_key(start).items()")]),
    dict(name="round3: sliced_inds shared between a tree and its copy", kind="break",
         edits=[(CORE, "            \"size_dict\",\n            \"sliced_inputs\",", "            \"size_dict\",\n            \"sliced_inds\",\n            \"sliced_inputs\","),
                (CORE, "            \"contraction_cores\",\n            \"sliced_inds\",\n", "            \"contraction_cores\",\n")],
         expect=("C06-COPY", "sliced_inds")),
]
