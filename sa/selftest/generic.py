"""Generic behaviour-preserving rewrites of the whole package, used as twin
variants for every property (thorough tier):

  unparse   every module replaced by ast.unparse(ast.parse(src)) — comments,
            layout, parenthesisation and string quoting change, nothing else;
  rename    every function-local variable (not parameters, not names declared
            global/nonlocal, not names captured by nested functions) gets the
            suffix ``_rn``;
  padding   a docstring-preserving no-op statement is inserted at the top of
            every function body (shifts every line number, adds a CFG node).
"""

from __future__ import annotations

import ast
import builtins
import symtable

BUILTINS = set(dir(builtins))


def unparse_all(sources):
    return {p: ast.unparse(ast.parse(s)) + "\n" for p, s in sources.items()}


class _Renamer(ast.NodeTransformer):
    def __init__(self, names):
        self.names = names

    def visit_Name(self, node):
        if node.id in self.names:
            return ast.copy_location(ast.Name(id=node.id + "_rn", ctx=node.ctx), node)
        return node

    def visit_ExceptHandler(self, node):
        self.generic_visit(node)
        if node.name in self.names:
            node.name = node.name + "_rn"
        return node

    def visit_FunctionDef(self, node):
        return node  # nested functions are handled on their own

    visit_AsyncFunctionDef = visit_FunctionDef
    visit_Lambda = lambda self, node: node  # noqa: E731
    visit_ClassDef = visit_FunctionDef


def _local_names(fn_table):
    """locals of a function that are safe to rename: assigned here, not
    parameters, not global/nonlocal, not referenced by any nested scope"""
    nested_refs = set()

    def collect(t):
        for ch in t.get_children():
            for s in ch.get_symbols():
                if s.is_free() or s.is_global():
                    nested_refs.add(s.get_name())
            collect(ch)

    collect(fn_table)
    out = set()
    for s in fn_table.get_symbols():
        n = s.get_name()
        if s.is_parameter() or s.is_global() or s.is_free() or s.is_nonlocal() \
                or s.is_imported() or not s.is_assigned() or not s.is_local():
            continue
        if n in nested_refs or n in BUILTINS or n.startswith("__"):
            continue
        # names that are also nested def / class names stay
        if s.is_namespace():
            continue
        out.add(n)
    return out


def rename_locals(sources):
    out = {}
    for p, src in sources.items():
        tree = ast.parse(src)
        top = symtable.symtable(src, p, "exec")
        tables = {}

        def index(t):
            for ch in t.get_children():
                if ch.get_type() == "function":
                    tables.setdefault((ch.get_name(), ch.get_lineno()), ch)
                index(ch)

        index(top)
        for node in ast.walk(tree):
            if isinstance(node, (ast.FunctionDef, ast.AsyncFunctionDef)):
                t = tables.get((node.name, node.lineno))
                if t is None:
                    continue
                names = _local_names(t)
                # comprehension targets live in their own scope in symtable but
                # are Names in this function's AST: rename only what the function
                # itself binds, comprehension variables keep their names
                if not names:
                    continue
                rn = _Renamer(names)
                comp_bound = set()
                for sub in ast.walk(node):
                    if isinstance(sub, ast.comprehension):
                        for x in ast.walk(sub.target):
                            if isinstance(x, ast.Name):
                                comp_bound.add(x.id)
                rn.names = names - comp_bound
                node.body = [rn.visit(st) for st in node.body]
        out[p] = ast.unparse(ast.fix_missing_locations(tree)) + "\n"
    return out


def pad_functions(sources):
    out = {}
    for p, src in sources.items():
        tree = ast.parse(src)
        for node in ast.walk(tree):
            if isinstance(node, (ast.FunctionDef, ast.AsyncFunctionDef)):
                i = 1 if (node.body and isinstance(node.body[0], ast.Expr)
                          and isinstance(node.body[0].value, ast.Constant)
                          and isinstance(node.body[0].value.value, str)) else 0
                node.body.insert(i, ast.Pass())
        out[p] = ast.unparse(ast.fix_missing_locations(tree)) + "\n"
    return out


GENERIC = {
    "generic twin: ast.unparse round trip of every module": unparse_all,
    "generic twin: every function-local variable renamed": rename_locals,
    "generic twin: no-op statement at the top of every function": pad_functions,
}
