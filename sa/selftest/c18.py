CORE = "cotengra/core.py"
PB = "cotengra/pathfinders/path_basic.py"
AN = "cotengra/pathfinders/path_simulated_annealing.py"
HG = "cotengra/hypergraph.py"
VARIANTS = [
    dict(name="get_legs keeps with <=", kind="break", file=CORE,
         old="            if ix_count < self.appearances[ix]\n", new="            if ix_count <= self.appearances[ix]\n",
         expect=("C18-SURV", "get_legs")),
    dict(name="compute_contracted removes on >", kind="break", file=PB,
         old="            if ijc != appearances[iix]:\n                new_legs.append((iix, ijc))",
         new="            if ijc > appearances[iix]:\n                new_legs.append((iix, ijc))", expect=("C18-SURV", "compute_contracted")),
    dict(name="move evaluator: one-sided count", kind="break", file=AN,
         old="        if ix in legsb:\n            ix_count += legsb[ix]\n", new="        if ix in legsb:\n            continue\n",
         expect=("C18-SURV", "merged-sum")),
    dict(name="move evaluator compares with the constant 2", kind="break", file=AN,
         old="        if ix_count < appearances[ix]:\n            # index appears on output",
         new="        if appearances[ix] != 2 or ix not in legsb:\n            # index appears on output",
         expect=("C18-SURV", "compute_contracted_info")),
    dict(name="DP merge keeps only the left count", kind="break", file=PB,
         old="                                new_legs.append((iix, ic + jc))", new="                                new_legs.append((iix, ic))",
         expect=("C18-SURV", "optimize_optimal_connected")),
    dict(name="con_cost_size removes on !=", kind="break", file=PB,
         old="    size = 1\n    for i in range(len(temp_legs) - 1, -1, -1):\n        ix, ix_count = temp_legs[i]\n        if ix_count == appearances[ix]:\n            # contracted index, remove\n            del temp_legs[i]\n        else:\n            size *= sizes[ix]\n\n    return max((iscore, jscore, size))",
         new="    size = 1\n    for i in range(len(temp_legs) - 1, -1, -1):\n        ix, ix_count = temp_legs[i]\n        if ix_count != appearances[ix]:\n            # contracted index, remove\n            del temp_legs[i]\n        else:\n            size *= sizes[ix]\n\n    return max((iscore, jscore, size))",
         expect=("C18-SURV", "compute_con_cost_size")),
    dict(name="hypergraph drops output indices", kind="break", file=HG,
         old="            if (ind in self.edges) or (ind in self.output)\n", new="            if ind in self.edges\n",
         expect=("C18-SURV", "HyperGraph.contract")),
    dict(name="processor's appearance table ignores the output", kind="break", file=PB,
         old="        for ind in output:\n            self.appearances[self.indmap[ind]] += 1\n", new="",
         expect=("C18-APPEAR", "ContractionProcessor.__init__")),
    dict(name="anneal hands over a size from a different source", kind="break", file=AN,
         old="                            legs=new_legs0,\n                            cost=new_cost0,\n                            size=new_size0,",
         new="                            legs=new_legs0,\n                            cost=new_cost0,\n                            size=tree.get_size(new_order[0]),",
         expect=("C18-PRE", "simulated_anneal_tree")),
    dict(name="a second uncompensated leg rewrite under track_flops", kind="break", file=PB,
         old="    def pop_node(self, i):", new="    def drop_small(self, ix):\n        for node in list(self.edges[ix]):\n            self.nodes[node] = tuple(l for l in self.nodes[node] if l[0] != ix)\n\n    def pop_node(self, i):",
         edits=[(PB, "    def pop_node(self, i):", "    def drop_small(self, ix):\n        for node in list(self.edges[ix]):\n            self.nodes[node] = tuple(l for l in self.nodes[node] if l[0] != ix)\n\n    def pop_node(self, i):"),
                (PB, "        for ix in ix_to_remove:\n            self.remove_ix(ix)\n", "        for ix in ix_to_remove:\n            self.remove_ix(ix)\n            self.drop_small(ix)\n")],
         expect=("C18-DROP", "drop_small")),
    dict(name="twin: != <-> < in keep form", kind="twin", file=PB,
         old="            if ijc != appearances[iix]:", new="            if ijc < appearances[iix]:"),
    dict(name="twin: == <-> >= in remove form", kind="twin", file=PB, count=6,
         old="        if ix_count == appearances[ix]:", new="        if ix_count >= appearances[ix]:"),
]
for v in VARIANTS:
    if v.get("edits"):
        v.pop("file", None); v.pop("old", None); v.pop("new", None)
