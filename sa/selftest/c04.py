CORE = "cotengra/core.py"
VARIANTS = [
    dict(name="preprocessing transferred by reference", kind="break", file=CORE,
         old='            "root",\n            "size_dict",\n',
         new='            "root",\n            "preprocessing",\n            "size_dict",\n',
         edits=None, expect=("C04-COPY", "preprocessing")),
    dict(name="_sizes shared between copies", kind="break", file=CORE,
         old="            self._sizes = other._sizes.copy()", new="            self._sizes = other._sizes",
         expect=("C04-COPY", "_sizes")),
    dict(name="info copied only one level deep", kind="break", file=CORE,
         old='        for attr in ("info", "already_optimized"):', new='        for attr in ("already_optimized",):',
         expect=("C04-COPY", "info")),
    dict(name="new attribute not transferred by set_state_from", kind="break", file=CORE,
         old="        self.contraction_cores = {}\n", new="        self.contraction_cores = {}\n        self.extra_cache = {}\n",
         expect=("C04-COPY", "extra_cache")),
    dict(name="appearances mutated after construction", kind="break", file=CORE,
         old="        tree.already_optimized.clear()\n        # the index order of any node can change -> ancestors are stale too\n        tree.reset_contraction_indices()\n\n        return tree\n\n    remove_ind_",
         new="        tree.appearances[ind] -= 1\n        tree.already_optimized.clear()\n        # the index order of any node can change -> ancestors are stale too\n        tree.reset_contraction_indices()\n\n        return tree\n\n    remove_ind_",
         expect=("C04-COPY", "appearances")),
    dict(name="cached legs popped in place", kind="break", file=CORE,
         old='                    node_info["legs"] = legs_without(legs, ind)\n',
         new='                    legs.pop(ind)\n                    node_info["legs"] = legs\n',
         expect=("C04-ALIAS", "remove_ind::C04-ALIAS::legs")),
    dict(name="legs_without mutates its argument", kind="break", file=CORE,
         old="    new_legs = legs.copy()\n    new_legs.pop(ind, None)\n    return new_legs",
         new="    new_legs = legs\n    new_legs.pop(ind, None)\n    return new_legs",
         expect=("C04-ALIAS", "legs_without")),
    dict(name="_remove_node forgets the write total", kind="break", file=CORE,
         old="            if self._track_write:\n                self._write -= self.get_size(node)\n", new="",
         expect=("C04-TRACK", "symmetry:_write")),
    dict(name="_update_tracked adds flops to the write total", kind="break", file=CORE,
         old="        if self._track_write:\n            self._write += self.get_size(node)\n",
         new="        if self._track_write:\n            self._write += self.get_flops(node)\n",
         expect=("C04-TRACK", "symmetry:_write")),
    dict(name="contract_nodes_pair skips _update_tracked", kind="break", file=CORE,
         old="        self._update_tracked(parent)\n\n        return parent", new="        return parent",
         expect=("C04-TRACK", "update-after-link")),
    dict(name="restore_ind without contract_stats", kind="break", file=CORE,
         old="        # make sure all flops and size information has been populated\n        tree.contract_stats()\n        tree.multiplicity //= si.size",
         new="        tree.multiplicity //= si.size", expect=("C04-TRACK", "restore_ind::C04-TRACK::stats-first")),
    dict(name="remove_ind drops the flops delta", kind="break", file=CORE,
         old="                tree._flops += new_flops - old_flops\n", new="",
         expect=("C04-TRACK", "pair:flops")),
    dict(name="remove_ind drops the write delta", kind="break", file=CORE,
         old="                    tree._write += new_size - old_size\n", new="",
         expect=("C04-TRACK", "pair:size")),
    dict(name="a helper outside the owners adjusts _flops", kind="break", file=CORE,
         old="    def get_centrality(self, node):",
         new="    def bump(self, x):\n        self._flops += x\n\n    def get_centrality(self, node):",
         expect=("C04-TRACK", "bump")),
    dict(name="F12-reverted: involved/legs not populated before slicing", kind="break", file=CORE,
         old="        for node in tree.children:\n            tree.get_involved(node)\n            tree.get_legs(node)\n", new="",
         expect=("C04-STALEREAD", "remove_ind::C04-STALEREAD::involved")),
    dict(name="only involved is populated before slicing", kind="break", file=CORE,
         old="        for node in tree.children:\n            tree.get_involved(node)\n            tree.get_legs(node)\n",
         new="        for node in tree.children:\n            tree.get_involved(node)\n",
         expect=("C04-STALEREAD", "remove_ind::C04-STALEREAD::legs")),
    dict(name="_remove_node keeps the root's cached legs", kind="break", file=CORE,
         old="                # root node should always exist\n                self.info[node].clear()\n            else:",
         new="                # root node should always exist\n                legs = self.info[node].get(\"legs\")\n                self.info[node].clear()\n                if legs is not None:\n                    self.info[node][\"legs\"] = legs\n            else:",
         expect=("C04-WHOLE", "whole-entry")),
    dict(name="move evaluator drops shared indices unconditionally", kind="break",
         file="cotengra/pathfinders/path_simulated_annealing.py",
         old="        if ix in legsb:\n            ix_count += legsb[ix]\n", new="        if ix in legsb:\n            continue\n",
         expect=("C04-PRESURV", "merged-sum")),
    dict(name="tracker pairs copied in one loop, _sizes by reference", kind="break", file=CORE,
         old="""        self._track_flops = other._track_flops
        if other._track_flops:
            self._flops = other._flops

        self._track_write = other._track_write
        if other._track_write:
            self._write = other._write

        self._track_size = other._track_size
        if other._track_size:
            self._sizes = other._sizes.copy()
""", new="""        for flag, attr in (
            ("_track_flops", "_flops"),
            ("_track_write", "_write"),
            ("_track_size", "_sizes"),
        ):
            tracked = getattr(other, flag)
            setattr(self, flag, tracked)
            if tracked:
                setattr(self, attr, getattr(other, attr))
""", expect=("C04-COPY", "_sizes")),
    dict(name="restore_ind hands a rescaled cached cost to contract_nodes_pair", kind="break", file=CORE,
         old="                tree._remove_node(p)\n                tree.contract_nodes_pair(l, r)\n",
         new="                cost = tree.get_flops(p) * si.size\n                tree._remove_node(p)\n                tree.contract_nodes_pair(l, r, cost=cost)\n",
         expect=("C04-PRESRC", "restore_ind")),
    dict(name="twin: tracker pairs copied in one loop, all through copy.copy", kind="twin", file=CORE,
         old="""        self._track_flops = other._track_flops
        if other._track_flops:
            self._flops = other._flops

        self._track_write = other._track_write
        if other._track_write:
            self._write = other._write

        self._track_size = other._track_size
        if other._track_size:
            self._sizes = other._sizes.copy()
""", new="""        import copy

        for flag, attr in (
            ("_track_flops", "_flops"),
            ("_track_write", "_write"),
            ("_track_size", "_sizes"),
        ):
            tracked = getattr(other, flag)
            setattr(self, flag, tracked)
            if tracked:
                setattr(self, attr, copy.copy(getattr(other, attr)))
"""),
    dict(name="twin: rename old_flops/new_flops", kind="twin",
         edits=[(CORE, "                old_flops = tree.get_flops(node)\n                new_flops = old_flops // d\n                node_info[\"flops\"] = new_flops\n                tree._flops += new_flops - old_flops\n",
                 "                f_old = tree.get_flops(node)\n                f_new = f_old // d\n                node_info[\"flops\"] = f_new\n                tree._flops += f_new - f_old\n")]),
    dict(name="twin: prepopulation loop over traverse()", kind="twin", file=CORE,
         old="        for node in tree.children:\n            tree.get_involved(node)\n            tree.get_legs(node)\n",
         new="        for node, _, _ in tree.traverse():\n            tree.get_legs(node)\n            tree.get_involved(node)\n"),
    dict(name="twin: explicit copy of childless via oset()", kind="twin", file=CORE,
         old="            self.childless = other.childless.copy()", new="            self.childless = other.childless.copy()  # shallow copy"),
    dict(name="round3: restore_ind recomputes the slice count from dimensions", kind="break", file=CORE,
         old="        tree.multiplicity //= si.size\n", new="        tree.multiplicity = prod(tree.size_dict[ix] for ix in tree.sliced_inds)\n",
         expect=("C04-MULTPAIR", "restore_ind")),
    dict(name="twin: slice count recomputed from the recorded sizes", kind="twin", file=CORE,
         old="        tree.multiplicity //= si.size\n", new="        tree.multiplicity = prod(s_.size for s_ in tree.sliced_inds.values())\n"),
    dict(name="round3: rebuild loop in dict order", kind="break", file=CORE,
         old="        for p, l, r in tree.traverse():\n            if ind in tree.get_legs(l) or ind in tree.get_legs(r):",
         new="        for p, (l, r) in tuple(tree.children.items()):\n            if ind in tree.get_legs(l) or ind in tree.get_legs(r):",
         expect=("C04-REBUILD", "restore_ind")),
    dict(name="twin: rebuild loop over a materialised traversal", kind="twin", file=CORE,
         old="        for p, l, r in tree.traverse():\n            if ind in tree.get_legs(l) or ind in tree.get_legs(r):",
         new="        for p, l, r in tuple(tree.traverse()):\n            if ind in tree.get_legs(l) or ind in tree.get_legs(r):"),
    dict(name="round3: reconfiguration cache shared with copies", kind="break",
         edits=[(CORE, "            \"sliced_inds\",\n            \"preprocessing\",\n        ):", "            \"sliced_inds\",\n            \"preprocessing\",\n            \"already_optimized\",\n        ):"),
                (CORE, "        for attr in (\"info\", \"already_optimized\"):", "        for attr in (\"info\",):")],
         expect=("C04-COPY", "already_optimized")),
    dict(name="twin: rebuild loop over a traversal bound to a local", kind="twin", file=CORE,
         old="        for p, l, r in tree.traverse():\n            if ind in tree.get_legs(l) or ind in tree.get_legs(r):",
         new="        bottom_up = tuple(tree.traverse())\n        for p, l, r in bottom_up:\n            if ind in tree.get_legs(l) or ind in tree.get_legs(r):"),
    dict(name="round4: counter keeps its maximum when it runs empty", kind="break", file="cotengra/utils.py",
         old="            if x == self._max_element:\n                # only need to update the max if ``x``\n                # was the last maximum sized element\n                try:\n                    self._max_element = max(self._c)\n                except ValueError:\n                    self._max_element = -float(\"inf\")\n",
         new="            if x == self._max_element and self._c:\n                self._max_element = max(self._c)\n",
         expect=("C04-MAXCOUNT", "reassigned-when-last-copy-goes")),
    dict(name="round4: maximum recomputed while a copy is popped", kind="break", file="cotengra/utils.py",
         old="        cnt = self._c[x]\n        if cnt <= 1:\n            del self._c[x]\n            if x == self._max_element:\n                # only need to update the max if ``x``\n                # was the last maximum sized element\n                try:\n                    self._max_element = max(self._c)\n                except ValueError:\n                    self._max_element = -float(\"inf\")\n        else:\n            self._c[x] = cnt - 1\n",
         new="        cnt = self._c.pop(x, 0)\n        if x == self._max_element:\n            try:\n                self._max_element = max(self._c)\n            except ValueError:\n                self._max_element = -float(\"inf\")\n        if cnt > 1:\n            self._c[x] = cnt - 1\n",
         expect=("C04-MAXCOUNT", "recomputed-from-final-contents")),
    dict(name="twin: counter with an explicit emptiness branch", kind="twin", file="cotengra/utils.py",
         old="                try:\n                    self._max_element = max(self._c)\n                except ValueError:\n                    self._max_element = -float(\"inf\")\n",
         new="                if self._c:\n                    self._max_element = max(self._c)\n                else:\n                    self._max_element = -float(\"inf\")\n"),
    dict(name="round4: plain sliced leaf updated in place (size kept)", kind="break", file=CORE,
         old="                    tree._remove_node(node)\n                    tree.sliced_inputs = tree.sliced_inputs | frozenset([i])",
         new="                    tree.sliced_inputs = tree.sliced_inputs | frozenset([i])\n                    if (i in tree.preprocessing) or (\"legs\" not in node_info):\n                        tree._remove_node(node)\n                    else:\n                        node_info.pop(\"legs\", None)\n                        node_info.pop(\"inds\", None)",
         expect=("C04-LEAF", "leaf::size")),
    dict(name="seed C03_9: tracking flags only ever raised by a state transfer", kind="break", file=CORE,
         old="        self._track_flops = other._track_flops\n        if other._track_flops:\n            self._flops = other._flops\n",
         new="        if other._track_flops:\n            self._track_flops = True\n            self._flops = other._flops\n",
         expect=("C04-COPY", "_track_flops")),
    dict(name="seed C04_10: size table reset only when untracked, refilled also when forced", kind="break",
         edits=[(CORE, "            self._flops = self._write = 0\n            self._sizes = MaxCounter()\n", "            self._flops = self._write = 0\n            fill_sizes = force or not self._track_size\n            if not self._track_size:\n                self._sizes = MaxCounter()\n"),
                (CORE, "                self._write += node_size\n                self._sizes.add(node_size)\n", "                self._write += node_size\n                if fill_sizes:\n                    self._sizes.add(node_size)\n")],
         expect=("C04-TRACK", "recompute:_sizes")),
    dict(name="total_write marks the total as tracked without refilling it", kind="break", file=CORE,
         old="                self._write += self.get_size(node)\n\n            self._track_write = True\n\n        return", new="                self._write += self.get_size(node)\n\n        self._track_write = True\n\n        return",
         expect=("C04-TRACK", "recompute:_write")),
    dict(name="remove_ind multiplies the step's flops by d", kind="break", file=CORE,
         old="                new_flops = old_flops // d", new="                new_flops = old_flops * d", expect=("C04-ARITH", "flops")),
    dict(name="remove_ind moves the write total the wrong way", kind="break", file=CORE,
         old="                    tree._write += new_size - old_size", new="                    tree._write += old_size - new_size", expect=("C04-ARITH", "size")),
    dict(name="remove_ind rescales the size also when the index is summed at the step", kind="break", file=CORE,
         old="                if ind in legs:\n                    node_info[\"legs\"] = legs_without(legs, ind)", new="                if ind in involved:\n                    node_info[\"legs\"] = legs_without(legs, ind)", expect=("C04-ARITH", "size")),
    dict(name="twin: remove_ind writes the flops delta as a subtraction", kind="twin", file=CORE,
         old="                tree._flops += new_flops - old_flops", new="                tree._flops -= old_flops - new_flops"),
    dict(name="twin: remove_ind uses an augmented multiplication for the slice count", kind="twin", file=CORE,
         old="            tree.multiplicity = tree.multiplicity * d", new="            tree.multiplicity *= d"),
    dict(name="seed C04_13: tie between equal-extent children broken by the current size", kind="break", file=CORE,
         old="            sortx = -min(x)\n            sorty = -min(y)\n", new="            sortx = (self.get_size(x), -min(x))\n            sorty = (self.get_size(y), -min(y))\n",
         expect=("C04-ORIENT", "contract_nodes_pair")),
    dict(name="twin: tie broken by the largest leaf", kind="twin", file=CORE,
         old="            sortx = -min(x)\n            sorty = -min(y)\n", new="            sortx = (-min(x), -max(x))\n            sorty = (-min(y), -max(y))\n"),
    dict(name="MaxCounter: last copy takes the decrement branch", kind="break", file="cotengra/utils.py",
         old="        if cnt <= 1:\n            del self._c[x]", new="        if cnt < 1:\n            del self._c[x]", expect=("C04-MAXCOUNT", "last-copy-test")),
    dict(name="MaxCounter: decrement by the count itself", kind="break", file="cotengra/utils.py",
         old="            self._c[x] = cnt - 1", new="            self._c[x] = cnt + 1", expect=("C04-MAXCOUNT", "last-copy-test")),
    dict(name="twin: MaxCounter tests cnt == 1", kind="twin", file="cotengra/utils.py",
         old="        if cnt <= 1:\n            del self._c[x]", new="        if cnt == 1:\n            del self._c[x]"),
]
for v in VARIANTS:
    v.pop("edits", None) if v.get("edits") is None else None
