HG = "cotengra/hypergraph.py"
SC = "cotengra/scoring.py"
CORE = "cotengra/core.py"
VARIANTS = [
    dict(name="compressed edge set to chi", kind="break", file=HG,
         old="                self.size_dict[e_keep] = min(new_size, chi)", new="                self.size_dict[e_keep] = chi",
         expect=("C20-CAP", "compress")),
    dict(name="compressed edge scaled by chi", kind="break", file=HG,
         old="                self.size_dict[e_keep] = min(new_size, chi)", new="                self.size_dict[e_keep] = min(new_size, new_size * chi)",
         expect=("C20-CAP", "compress")),
    dict(name="candidate size uses chi directly", kind="break", file=HG,
         old="            min(chi, self.edges_size(es)) for es in incidences.values()", new="            chi for es in incidences.values()",
         expect=("C20-CAP", "candidate_contraction_size")),
    dict(name="candidate size takes the max with chi", kind="break", file=HG,
         old="            min(chi, self.edges_size(es)) for es in incidences.values()",
         new="            max(chi, self.edges_size(es)) for es in incidences.values()", expect=("C20-CAP", "candidate_contraction_size")),
    dict(name="compress cost adds chi", kind="break", file=HG,
         old="                    C += da**2 * db\n", new="                    C += da**2 * db + chi\n", expect=("C20-CAP", "neighborhood_compress_cost")),
    dict(name="compress fuses output indices shared by several tensors", kind="break", file=HG,
         old="            if e not in self.output:\n                nodes = frozenset(self.edges[e])\n                incidences[nodes].append(e)",
         new="            nodes = self.edges[e]\n            if len(nodes) > 1:\n                incidences[frozenset(nodes)].append(e)",
         expect=("C20-SIBLING", "compress")),
    dict(name="compression cost charged at da == chi", kind="break", file=HG,
         old="            if da > chi:", new="            if da >= chi:", expect=("C20-SIBLING", "threshold")),
    dict(name="twin: threshold written as an early continue", kind="twin", file=HG,
         old="            if da > chi:\n                # large multibond shared by e_nodes -> should compress\n                for node in e_nodes:",
         new="            if da <= chi:\n                continue\n            if True:\n                # large multibond shared by e_nodes -> should compress\n                for node in e_nodes:"),
    dict(name="F14-reverted: greedy-span unpacks every step of the greedy sub-path as a pair", kind="break",
         file="cotengra/pathfinders/path_compressed_greedy.py",
         old="""            for p in o_ssa_path:
                if len(p) == 1:
                    # single term simplification: takes up an ssa id but
                    # still refers to the same node
                    o_nodes.append(o_nodes[p[0]])
                    continue
                pi, pj = p
""", new="""            for pi, pj in o_ssa_path:
""", expect=("C20-STEPS", "get_ssa_path")),
    dict(name="twin: greedy sub-path requested without simplification and unpacked as pairs", kind="twin",
         file="cotengra/pathfinders/path_compressed_greedy.py",
         old="""            o_ssa_path = ssa_greedy_optimize(o_inputs, output, size_dict)
            seq = []
            for p in o_ssa_path:
                if len(p) == 1:
                    # single term simplification: takes up an ssa id but
                    # still refers to the same node
                    o_nodes.append(o_nodes[p[0]])
                    continue
                pi, pj = p
""", new="""            o_ssa_path = ssa_greedy_optimize(o_inputs, output, size_dict, simplify=False)
            seq = []
            for pi, pj in o_ssa_path:
"""),
    dict(name="twin: conditional minimum", kind="twin", file=HG,
         old="                self.size_dict[e_keep] = min(new_size, chi)",
         new="                self.size_dict[e_keep] = new_size if new_size < chi else chi"),
    dict(name="twin: min with swapped arguments", kind="twin", file=HG,
         old="                self.size_dict[e_keep] = min(new_size, chi)", new="                self.size_dict[e_keep] = min(chi, new_size)"),
    dict(name="round2: HyperGraph keeps the caller's size_dict", kind="break", file=HG,
         old="        self.size_dict = {} if size_dict is None else dict(size_dict)",
         new="        if size_dict is None:\n            size_dict = {}\n        elif not isinstance(size_dict, dict):\n            size_dict = dict(size_dict)\n        self.size_dict = size_dict",
         expect=("C20-OWN", "__init__")),
    dict(name="HyperGraph.copy shares the size table", kind="break", file=HG,
         old="        new.size_dict = self.size_dict.copy()", new="        new.size_dict = self.size_dict",
         expect=("C20-OWN", "copy")),
    dict(name="round2: bond between the contracted pair always summed", kind="break", file=HG,
         old="            if (ind in self.edges) or (ind in self.output)\n",
         new="            if ((ind in self.edges) and (ind not in set(inds_i).intersection(inds_j)))\n            or (ind in self.output)\n",
         expect=("C20-SURV", "contract")),
    dict(name="twin: size table copied through a local", kind="twin", file=HG,
         old="        self.size_dict = {} if size_dict is None else dict(size_dict)",
         new="        sd = {} if size_dict is None else dict(size_dict)\n        self.size_dict = sd"),
    dict(name="round3: compressed stats memoised in the root's info", kind="break",
         edits=[("cotengra/core.py", "        hg = self.get_hypergraph(accel=\"auto\")\n\n        # conversion between tree nodes <-> hypergraph nodes during contraction",
                 "        key = (\"compressed_stats\", chi, order, compress_late)\n        try:\n            return self.info[self.root][key]\n        except KeyError:\n            pass\n\n        hg = self.get_hypergraph(accel=\"auto\")\n\n        # conversion between tree nodes <-> hypergraph nodes during contraction"),
                ("cotengra/core.py", "            tracker.update_post_step()\n\n        return tracker", "            tracker.update_post_step()\n\n        self.info[self.root][key] = tracker\n        return tracker")],
         expect=("C20-FRESHSTATS", "compressed_contract_stats")),
    dict(name="round3: search accumulators initialised in __init__ only", kind="break",
         edits=[("cotengra/pathfinders/path_compressed_greedy.py", "        self.candidates = []\n        self.ssapath = []\n        self.hg = get_hypergraph(", "        self.hg = get_hypergraph("),
                ("cotengra/pathfinders/path_compressed_greedy.py", "        self.gumbel = GumbelBatchedGenerator(seed)\n", "        self.gumbel = GumbelBatchedGenerator(seed)\n        self.candidates = []\n        self.ssapath = []\n")],
         expect=("C20-RESET", "GreedyCompressed")),
    dict(name="twin: unrelated helper call before the resets", kind="twin",
         edits=[("cotengra/pathfinders/path_compressed_greedy.py", "    def get_ssa_path(self, inputs, output, size_dict):\n        self.candidates = []",
                 "    def _note(self, inputs):\n        return len(inputs)\n\n    def get_ssa_path(self, inputs, output, size_dict):\n        n_in = self._note(inputs)\n        self.candidates = []")]),
    dict(name="seed C20_7: tracker clamps its cap to the auto value", kind="break", file="cotengra/scoring.py",
         old="        else:\n            self.chi = chi\n\n        # local params", new="        else:\n            self.chi = min(chi, max(hg.size_dict.values()) ** 2)\n\n        # local params",
         expect=("C20-SAMECAP", "CompressedStatsTracker")),
    dict(name="twin: cap kept through a local", kind="twin", file="cotengra/scoring.py",
         old="        else:\n            self.chi = chi\n\n        # local params", new="        else:\n            cap = chi\n            self.chi = cap\n\n        # local params"),
    dict(name="seed C20_8: parent position advanced before the bisection", kind="break", file="cotengra/core.py",
         old="                            ci = bisect(scores[:i], score)\n                            scores.insert(ci, score)\n                            queue.insert(ci, child)\n                            # parent moves extra place to right\n                            i += 1\n",
         new="                            i += 1\n                            ci = bisect(scores, score, 0, i)\n                            scores.insert(ci, score)\n                            queue.insert(ci, child)\n",
         expect=("C20-TOPO", "_traverse_ordered")),
    dict(name="tracker: step changes not reset", kind="break", file=SC,
         old="    def update_pre_step(self):\n        self.size_change = 0\n        self.flops_change = 0", new="    def update_pre_step(self):\n        self.size_change = 0", expect=("C20-LEDGER", "update_pre_step")),
    dict(name="tracker: only one operand leaves the total", kind="break", file=SC,
         old="        self.size_change -= hg.node_size(i) + hg.node_size(j)", new="        self.size_change -= hg.node_size(i)", expect=("C20-LEDGER", "update_pre_contract")),
    dict(name="tracker: peak candidate taken before the new tensor entered", kind="break", file=SC,
         old="        self.total_size_post_contract = self.total_size + self.size_change\n", new="        self.total_size_post_contract = self.total_size + self.size_change - self.contracted_size\n",
         expect=("C20-LEDGER", "update_post_contract")),
    dict(name="tracker: update_score adds the size change instead of the contracted size to write", kind="break", file=SC,
         old="        self.write = other.write + self.contracted_size", new="        self.write = other.write + self.size_change", expect=("C20-LEDGER", "update_score")),
    dict(name="tracker: max size compared with the total", kind="break", file=SC,
         old="        self.max_size = max(self.max_size, self.contracted_size)", new="        self.max_size = max(self.max_size, self.total_size)", expect=("C20-LEDGER", "update_post_step")),
    dict(name="twin: tracker writes flops update as an assignment", kind="twin", file=SC,
         old="        self.flops += self.flops_change", new="        self.flops = self.flops + self.flops_change"),
    dict(name="seed C20_10: start-region merges not pre-reversed", kind="break", file="cotengra/pathfinders/path_compressed_greedy.py",
         old="                o_nodes.append(o_nodes[pj])\n            seq.reverse()\n", new="                o_nodes.append(o_nodes[pj])\n",
         expect=("C20-SPANORDER", "execution")),
    dict(name="span order replayed without the final reversal", kind="break", file="cotengra/pathfinders/path_compressed_greedy.py",
         old="            seq.append((i_surface, merges[i_surface]))\n        seq.reverse()\n", new="            seq.append((i_surface, merges[i_surface]))\n",
         expect=("C20-SPANORDER", "span")),
    dict(name="seed C20_12: early mode compresses the input multibonds outside any bracket", kind="break", file=CORE,
         old="        tracker = CompressedStatsTracker(hg, chi)\n\n        for p, l, r in self.traverse(order):", new="        tracker = CompressedStatsTracker(hg, chi)\n\n        if not compress_late:\n            hg.compress(chi=chi)\n\n        for p, l, r in self.traverse(order):", expect=("C20-BRACKET", "compress#0")),
    dict(name="the late compression loses its closing update", kind="break", file=CORE,
         old="                hg.compress(chi=chi, edges=hg.get_node(ri))\n                tracker.update_post_compress(hg, li, ri)\n", new="                hg.compress(chi=chi, edges=hg.get_node(ri))\n", expect=("C20-BRACKET", "compress")),
    dict(name="twin: the late compression of both operands in one call", kind="twin", file=CORE,
         old="                hg.compress(chi=chi, edges=hg.get_node(li))\n                hg.compress(chi=chi, edges=hg.get_node(ri))\n", new="                hg.compress(chi=chi, edges=hg.get_node(li) + hg.get_node(ri))\n"),
]
