U = "cotengra/utils.py"
WRITE = '''            tmp = fname.with_name(
                f"{fname.name}.tmp-{os.getpid()}-{threading.get_ident()}"
            )
            with open(tmp, "wb") as f:
                pickle.dump(v, f)
            os.replace(tmp, fname)
'''
VARIANTS = [
    dict(name="F5-reverted: write in place", kind="break", file=U, old=WRITE,
         new='            with open(fname, "wb+") as f:\n                pickle.dump(v, f)\n',
         expect=("C15-ATOMIC", "__setitem__")),
    dict(name="temp written but never moved", kind="break", file=U,
         old="            os.replace(tmp, fname)\n", new="", expect=("C15-ATOMIC", "__setitem__")),
    dict(name="moved before the file is closed", kind="break", file=U, old=WRITE,
         new='''            tmp = fname.with_name(
                f"{fname.name}.tmp-{os.getpid()}-{threading.get_ident()}"
            )
            with open(tmp, "wb") as f:
                pickle.dump(v, f)
                os.replace(tmp, fname)
''', expect=("C15-ATOMIC", "__setitem__")),
    dict(name="move only when the entry is new", kind="break", file=U,
         old="            os.replace(tmp, fname)\n", new="            if not fname.exists():\n                os.replace(tmp, fname)\n",
         expect=("C15-ATOMIC", "__setitem__")),
    dict(name="temp file at the top of the cache directory", kind="break", file=U,
         old='''            tmp = fname.with_name(
                f"{fname.name}.tmp-{os.getpid()}-{threading.get_ident()}"
            )
''', new='''            tmp = self._path / f".tmp-{os.getpid()}-{threading.get_ident()}"
''', expect=("C15-ATOMIC", "__setitem__")),
    dict(name="F5-reverted: reader re-raises an unbound name", kind="break", file=U,
         old='''                except (EOFError, pickle.UnpicklingError):
                    # file was not written completely yet
                    # e.g. by another process
                    import time

                    time.sleep(self.retry_delay)

            # file exists but is still not readable after retrying
            # -> treat the entry as missing
            raise KeyError(k)
''', new='''                except (EOFError, pickle.UnpicklingError) as e:
                    import time

                    time.sleep(self.retry_delay)

            raise e
''', expect=("C15-READER", "raise:e")),
    dict(name="reader only handles EOFError", kind="break", file=U,
         old="                except (EOFError, pickle.UnpicklingError):", new="                except EOFError:",
         expect=("C15-READER", "load-handlers")),
    dict(name="corrupt entry raises ValueError", kind="break", file=U,
         old="            raise KeyError(k)\n", new="            raise ValueError(f\"corrupt cache entry {k}\")\n",
         expect=("C15-READER", "raise:ValueError")),
    dict(name="sub-directory created without exist_ok", kind="break", file=U,
         old="                fname.parent.mkdir(parents=True, exist_ok=True)", new="                fname.parent.mkdir(parents=True)",
         expect=("C15-DIRS", "__setitem__")),
    dict(name="temp in the system temp dir, moved with shutil.move", kind="break", file=U, old=WRITE,
         new='''            import shutil, tempfile
            with tempfile.NamedTemporaryFile(prefix=f"{fname.name}.tmp-", delete=False) as f:
                pickle.dump(v, f)
            shutil.move(f.name, fname)
''', expect=("C15-ATOMIC", "__setitem__")),
    dict(name="fixed temp name created exclusively", kind="break", file=U,
         old='''            tmp = fname.with_name(
                f"{fname.name}.tmp-{os.getpid()}-{threading.get_ident()}"
            )
            with open(tmp, "wb") as f:''',
         new='''            tmp = fname.with_name(f"{fname.name}.tmp")
            with open(tmp, "xb") as f:''', expect=("C15-ATOMIC", "__setitem__")),
    dict(name="twin: tempfile next to the entry", kind="twin", file=U, old=WRITE,
         new='''            import tempfile
            fd, tmp = tempfile.mkstemp(dir=fname.parent, prefix=fname.name)
            f = os.fdopen(fd, "wb")
            pickle.dump(v, f)
            f.close()
            os.replace(tmp, fname)
'''),
    dict(name="twin: Path.replace instead of os.replace", kind="twin", file=U,
         old="            os.replace(tmp, fname)\n", new="            tmp.replace(fname)\n"),
    dict(name="twin: temp name via with_suffix", kind="twin", file=U,
         old='''            tmp = fname.with_name(
                f"{fname.name}.tmp-{os.getpid()}-{threading.get_ident()}"
            )
''', new='''            tmp = fname.with_suffix(f".tmp{os.getpid()}-{threading.get_ident()}")
'''),
    dict(name="twin: explicit close before the move", kind="twin", file=U, old=WRITE,
         new='''            tmp = fname.with_name(
                f"{fname.name}.tmp-{os.getpid()}-{threading.get_ident()}"
            )
            f = open(tmp, "wb")
            pickle.dump(v, f)
            f.close()
            os.replace(tmp, fname)
'''),
    dict(name="round3: write helper publishes in a finally clause", kind="break",
         edits=[('cotengra/utils.py', 'class DiskDict:\n    """A simple persistent dict.', '@contextlib.contextmanager\ndef open_atomic(fname):\n    tmp = fname.with_name(\n        f"{fname.name}.tmp-{os.getpid()}-{threading.get_ident()}"\n    )\n    try:\n        with open(tmp, "wb") as f:\n            yield f\n    finally:\n        os.replace(tmp, fname)\n\n\nclass DiskDict:\n    """A simple persistent dict.'), ('cotengra/utils.py', '            tmp = fname.with_name(\n                f"{fname.name}.tmp-{os.getpid()}-{threading.get_ident()}"\n            )\n            with open(tmp, "wb") as f:\n                pickle.dump(v, f)\n            os.replace(tmp, fname)\n', '            with open_atomic(fname) as f:\n                pickle.dump(v, f)\n'), ('cotengra/utils.py', 'import collections\n', 'import collections\nimport contextlib\n')],
         expect=("C15-ATOMIC", "open_atomic")),
    dict(name="twin: write helper publishing on the normal path only", kind="twin",
         edits=[('cotengra/utils.py', 'class DiskDict:\n    """A simple persistent dict.', '@contextlib.contextmanager\ndef open_atomic(fname):\n    tmp = fname.with_name(\n        f"{fname.name}.tmp-{os.getpid()}-{threading.get_ident()}"\n    )\n    with open(tmp, "wb") as f:\n        yield f\n    os.replace(tmp, fname)\n\n\nclass DiskDict:\n    """A simple persistent dict.'), ('cotengra/utils.py', '            tmp = fname.with_name(\n                f"{fname.name}.tmp-{os.getpid()}-{threading.get_ident()}"\n            )\n            with open(tmp, "wb") as f:\n                pickle.dump(v, f)\n            os.replace(tmp, fname)\n', '            with open_atomic(fname) as f:\n                pickle.dump(v, f)\n'), ('cotengra/utils.py', 'import collections\n', 'import collections\nimport contextlib\n')]),
    dict(name="round4: leftover temporaries are promoted to entries on start-up", kind="break", file="cotengra/utils.py",
         old="    def clear(self):\n        self._mem_cache.clear()\n",
         new="    def _adopt(self):\n        for tmp in self._path.rglob(\"*.tmp-*\"):\n            final = tmp.with_name(tmp.name.rpartition(\".tmp-\")[0])\n            if not final.exists():\n                os.replace(tmp, final)\n\n    def clear(self):\n        self._mem_cache.clear()\n",
         expect=("C15-PROMOTE", "_adopt")),
    dict(name="twin: publish through pathlib", kind="twin", file="cotengra/utils.py",
         old="            os.replace(tmp, fname)", new="            tmp.replace(fname)"),
    dict(name="seed C15_9: overwrite publishes by unlink-then-link", kind="break", file=U,
         old="            os.replace(tmp, fname)", new="            try:\n                os.link(tmp, fname)\n            except FileExistsError:\n                os.unlink(fname)\n                os.link(tmp, fname)\n            os.unlink(tmp)",
         expect=("C15-KEEP", "DiskDict.__setitem__")),
    dict(name="twin: publish with a hard link, first publisher wins (a C14 matter, not a crash hazard)", kind="twin", file=U,
         old="            os.replace(tmp, fname)", new="            try:\n                os.link(tmp, fname)\n            except FileExistsError:\n                pass\n            finally:\n                os.unlink(tmp)"),
    dict(name="seed C15_10: an entry counts as present while a temporary sibling exists", kind="break", file=U,
         old="        return self._path.joinpath(*k).exists()\n\n    def __setitem__", new="        fname = self._path.joinpath(*k)\n        if fname.exists():\n            return True\n        return any(fname.parent.glob(f\"{fname.name}.tmp-*\"))\n\n    def __setitem__",
         expect=("C15-READER", "presence")),
    dict(name="seed C15_11: the temp sibling's suffix is computed once per DiskDict", kind="break", file=U,
         edits=[(U, "        self.retry_delay = float(retry_delay)\n", "        self.retry_delay = float(retry_delay)\n        self._tmp_suffix = f\".tmp-{os.getpid()}-{threading.get_ident()}\"\n"),
                (U, "            tmp = fname.with_name(\n                f\"{fname.name}.tmp-{os.getpid()}-{threading.get_ident()}\"\n            )\n", "            tmp = fname.with_name(fname.name + self._tmp_suffix)\n"),
                (U, "        \"_path\",\n        \"max_retries\",", "        \"_path\",\n        \"_tmp_suffix\",\n        \"max_retries\",")],
         expect=("C15-ATOMIC", "own-temp")),
    dict(name="temp sibling named after the process only", kind="break", file=U,
         old="                f\"{fname.name}.tmp-{os.getpid()}-{threading.get_ident()}\"\n", new="                f\"{fname.name}.tmp-{os.getpid()}\"\n", expect=("C15-ATOMIC", "own-temp")),
    dict(name="twin: temp sibling named with a random token", kind="twin", file=U,
         old="                f\"{fname.name}.tmp-{os.getpid()}-{threading.get_ident()}\"\n", new="                f\"{fname.name}.tmp-{__import__('uuid').uuid4().hex}\"\n"),
    dict(name="seed C15_12: in-place copy onto the entry when the rename is refused", kind="break", file=U,
         old="            os.replace(tmp, fname)\n", new="            try:\n                os.replace(tmp, fname)\n            except PermissionError:\n                import shutil\n                shutil.copyfile(tmp, fname)\n                os.unlink(tmp)\n", expect=("C15-ATOMIC", "fname")),
]
