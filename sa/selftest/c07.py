SL = "cotengra/slicer.py"
CORE = "cotengra/core.py"
VARIANTS = [
    dict(name="forbidden guard deleted", kind="break", file=SL,
         old='            if ix in self.forbidden:\n                raise RuntimeError("Ran out of valid indices to slice.")\n',
         new="", expect=("C07-FORBID", "guard")),
    dict(name="forbidden guard only warns", kind="break", file=SL,
         old='                raise RuntimeError("Ran out of valid indices to slice.")\n',
         new='                pass\n', expect=("C07-FORBID", "guard")),
    dict(name="trial mutates the forbidden set", kind="break", file=SL,
         old="            next_ix_sl = ix_sl | frozenset([ix])\n",
         new="            next_ix_sl = ix_sl | frozenset([ix])\n            self.forbidden = set(self.forbidden) - {ix}\n",
         expect=("C07-FORBID", "immutable")),
    dict(name="size filter scaled by two", kind="break", file=SL,
         old="(not size_specified or (x[1].size <= target_size))",
         new="(not size_specified or (x[1].size <= 2 * target_size))", expect=("C07-FILTER", "size")),
    dict(name="slices filter direction flipped", kind="break", file=SL,
         old="and (not slices_specified or (x[1].nslices >= target_slices))",
         new="and (not slices_specified or (x[1].nslices <= target_slices))", expect=("C07-FILTER", "nslices")),
    dict(name="overhead clause dropped from the filter", kind="break", file=SL,
         old="                and (\n                    not overhead_specified\n                    or (x[1].overhead <= target_overhead)\n                )\n",
         new="", expect=("C07-FILTER", "overhead")),
    dict(name="best returns from all costs when k is None", kind="break", file=SL,
         old="            return min(valid, key=best_scorer)", new="            return min(self.costs.items(), key=best_scorer)",
         expect=("C07-FILTER", "returns")),
    dict(name="loop stops on size with strict <", kind="break", file=SL,
         old="            if size_specified and (cost.size <= target_size):\n                break",
         new="            if size_specified and (cost.size < target_size):\n                break",
         expect=("C07-AGREE", "size")),
    dict(name="entry test compares slices with >", kind="break", file=SL,
         old="            or (slices_specified and (cost.nslices >= target_slices))\n        )",
         new="            or (slices_specified and (cost.nslices > target_slices))\n        )",
         expect=("C07-AGREE", "nslices")),
    dict(name="slice() skips output indices of the returned set", kind="break", file=CORE,
         old="        for ix in ix_sl:\n            tree.remove_ind_(ix)\n",
         new="        for ix in ix_sl:\n            if ix not in tree.output:\n                tree.remove_ind_(ix)\n",
         expect=("C07-APPLY", "slice")),
    dict(name="slice() does not forward allow_outer", kind="break", file=CORE,
         old="            allow_outer=allow_outer,\n            seed=seed,\n        )\n\n        ix_sl, _ = sf.search(max_repeats)",
         new="            seed=seed,\n        )\n\n        ix_sl, _ = sf.search(max_repeats)",
         expect=("C07-APPLY", "options")),
    dict(name="cost model accepts unknown indices silently", kind="break", file=SL,
         old="        for i in cost._where.pop(ix):", new="        for i in cost._where.pop(ix, ()):",
         expect=("C07-MODEL", "strict-lookup")),
    dict(name="overhead baseline from the tree's total cost", kind="break", file=SL,
         old="        return cls(contractions, size_dict, **kwargs)\n\n    @classmethod\n    def from_info",
         new="        kwargs.setdefault(\"original_flops\", contraction_tree.contraction_cost())\n        return cls(contractions, size_dict, **kwargs)\n\n    @classmethod\n    def from_info",
         expect=("C07-MODEL", "baseline")),
    dict(name="twin: strict lookup spelled as a membership test", kind="twin", file=SL,
         old="        for i in cost._where.pop(ix):",
         new="        if ix not in cost._where:\n            raise KeyError(ix)\n        for i in cost._where.pop(ix, ()):"),
    dict(name="twin: filter written as a nested def", kind="twin", file=SL,
         old='''        valid = filter(
            lambda x: (
                (not size_specified or (x[1].size <= target_size))
                and (
                    not overhead_specified
                    or (x[1].overhead <= target_overhead)
                )
                and (not slices_specified or (x[1].nslices >= target_slices))
            ),
            self.costs.items(),
        )
''', new='''        def is_valid(x):
            return (
                (not size_specified or (x[1].size <= target_size))
                and (not overhead_specified or (x[1].overhead <= target_overhead))
                and (not slices_specified or (x[1].nslices >= target_slices))
            )

        valid = filter(is_valid, self.costs.items())
'''),
    dict(name="twin: union spelled with .union", kind="twin", file=SL,
         old="            next_ix_sl = ix_sl | frozenset([ix])\n", new="            next_ix_sl = ix_sl.union(frozenset([ix]))\n"),
    dict(name="round2: finder models self, indices applied to tree", kind="break", file=CORE,
         old="        sf = SliceFinder(\n            tree,", new="        sf = SliceFinder(\n            self,",
         expect=("C07-APPLY", "same-tree")),
    dict(name="round4: 'only' tested after the truthiness test", kind="break", file=SL,
         old="        if allow_outer == \"only\":\n            # invert so only outer indices are allowed\n            self.forbidden = set(self.cost0.size_dict) - self.forbidden\n        elif allow_outer:  # is True\n            # no restrictions\n            self.forbidden = ()\n",
         new="        if allow_outer:\n            self.forbidden = ()\n        elif allow_outer == \"only\":\n            self.forbidden = set(self.cost0.size_dict) - self.forbidden\n",
         expect=("C07-FORBID", "option:allow_outer")),
    dict(name="round4: sliced set extended with the bare label", kind="break", file=SL,
         old="            next_ix_sl = ix_sl | frozenset([ix])", new="            next_ix_sl = ix_sl.union(ix)",
         expect=("C07-FORBID", "element")),
    dict(name="twin: sliced set extended with a one-element tuple", kind="twin", file=SL,
         old="            next_ix_sl = ix_sl | frozenset([ix])", new="            next_ix_sl = ix_sl.union((ix,))"),
    dict(name="seed C07_9: per-contraction flops divided with /", kind="break", file="cotengra/slicer.py",
         old="            new_flops = old_flops // d", new="            new_flops = old_flops / d", expect=("C07-INTCOST", "remove")),
    dict(name="seed C07_10: size multiset maintained only when asked", kind="break",
         edits=[("cotengra/slicer.py", "    def remove(self, ix, inplace=False):", "    def remove(self, ix, inplace=False, track_size=True):"),
                ("cotengra/slicer.py", "                cost._sizes.discard(old_size)\n                cost._sizes.add(new_size)\n", "                if track_size:\n                    cost._sizes.discard(old_size)\n                    cost._sizes.add(new_size)\n")],
         expect=("C07-MODEL", "always-maintained")),
]
