#!/venv/bin/python
"""CLI:  python -I /verif/sa/check.py <ID> --tier quick|thorough [--replay path]

exit 0  every rule instance of the property held (or is a listed known finding)
exit 1  "VIOLATION property=<id> replay=<path>" for each unlisted violation
exit 2  "ANALYSIS-ERROR ..." the analysis itself could not be carried out
"""

from __future__ import annotations

import argparse
import importlib
import json
import os
import sys
import time
import traceback

HERE = os.path.dirname(os.path.abspath(__file__))
sys.path.insert(0, os.path.dirname(HERE))

from sa.engine.program import AnalysisError, Program  # noqa: E402
from sa.engine import report  # noqa: E402


def load_rules(pid):
    try:
        return importlib.import_module(f"sa.rules.{pid.lower()}")
    except ModuleNotFoundError as e:
        raise AnalysisError(f"no rules for property {pid}: {e}")


def run_property(pid, program, tier, known=None):
    mod = load_rules(pid)
    rules = list(mod.RULES)
    if tier == "thorough":
        rules += list(getattr(mod, "THOROUGH_RULES", []))
    # Since round 6 both tiers analyse the whole package (rules widen their scope when ctx.tier is
    # "thorough"; that costs 1-6 s per property): a change hidden in a module the property does not anchor
    # (seed C17_10 sat in hypergraph.py) must not wait for the thorough tier.  What the thorough tier adds
    # is the self-validation of the rules (break / twin variants), see main().
    results, ctx = report.run_rules(pid, rules, program, "thorough")
    new, matched, stale = report.summarise(pid, results, known)
    if ctx.rule_errors and not new:
        # fail closed: nothing was found, but not everything could be analysed
        raise AnalysisError("; ".join(ctx.rule_errors))
    return mod, results, ctx, new, matched, stale


def main(argv=None):
    ap = argparse.ArgumentParser()
    ap.add_argument("pid")
    ap.add_argument("--tier", default=os.environ.get("VERIF_TIER", "quick"),
                    choices=["quick", "thorough"])
    ap.add_argument("--replay")
    ap.add_argument("--repo", default=None)
    ap.add_argument("--no-selftest", action="store_true")
    args = ap.parse_args(argv)
    pid = args.pid.upper()
    seed = int(os.environ.get("VERIF_SEED", "0") or 0)
    t0 = time.time()
    try:
        program = Program.from_repo(args.repo)
        mod, results, ctx, new, matched, stale = run_property(pid, program, args.tier)

        if args.replay:
            with open(args.replay) as f:
                rp = json.load(f)
            hit = [i for r in results for i in r.instances
                   if i.rule == rp["rule"] and i.construct == rp["construct"]]
            if not hit:
                print(f"replay: construct {rp['construct']} no longer matched by {rp['rule']}")
                return 0
            for i in hit:
                print(json.dumps(i.as_dict(), indent=1, default=str))
            return 1 if any(i.verdict == "violation" for i in hit) else 0

        extra = {}
        selftest_failed = []
        if args.tier == "thorough" and not new and not args.no_selftest:
            from sa.selftest import runner

            st = runner.run(pid, program)
            extra["self_validation"] = st["summary"]
            selftest_failed = st["failed"]

        line = " ".join(f"{r.rule.split('-', 1)[-1]}({len(r.instances)})" for r in results)
        print(f"{pid} [{args.tier}] rules: {line}")
        for v, k in matched:
            print(f"KNOWN-FINDING: property={pid} {v.construct} — {k['what_fails']}")
        for k in stale:
            print(f"note: known finding no longer fires: {k['construct']}")
        for e_ in getattr(ctx, "rule_errors", []):
            print(f"note: a rule could not be carried out on this tree (the violations below stand on their own): {e_}")
        for v in new:
            path = report.write_replay(pid, v)
            print(f"VIOLATION property={pid} replay={path}")
            print(f"  rule    {v.rule}")
            print(f"  where   {v.loc}")
            print(f"  reason  {v.reason}")
            for kk, vv in v.detail.items():
                print(f"  {kk:<7} {vv}")
            print(f"  key     {v.construct}")
        wall = time.time() - t0
        report.write_evidence(
            pid, args.tier, results, ctx, new, matched, stale, wall, extra,
            explanation=mod.EXPLANATION, assumptions=getattr(mod, "ASSUMPTIONS", ()),
            seed=seed,
        )
        if selftest_failed:
            for s in selftest_failed:
                print(f"ANALYSIS-ERROR self-validation: {s}")
            return 2
        return 1 if new else 0
    except AnalysisError as e:
        print(f"ANALYSIS-ERROR property={pid}: {e}")
        return 2
    except Exception:
        traceback.print_exc()
        print(f"ANALYSIS-ERROR property={pid}: checker raised")
        return 2


if __name__ == "__main__":
    sys.exit(main())
