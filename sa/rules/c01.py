"""C01 — contracting through a tree gives the einsum value (narrow: record protocol and recipe conventions)."""

from __future__ import annotations

import ast

from ..engine.program import AnalysisError, dotted, walk_local
from ..engine.report import RuleResult
from . import common as C

PID = "C01"
EXPLANATION = (
    "Equality of the computed arrays with einsum is NOT decided. Decided are conventions that "
    "every network, tree and execution option relies on: (RECORD) each step record built by "
    "extract_contractions is classified element by element; the flag, the argument kind "
    "(equation vs axes) and the permutation agree; the tensordot record is built only where "
    "get_can_dot holds and prefer_einsum does not; preprocessing records precede pairwise "
    "ones; (CONSUME) the executor's use of the six unpacked names (pool pops, branch flag, "
    "call argument, permutation) matches the producer's positions and both calls take their "
    "operands as (left, right); (RECIPES) get_inds / get_tensordot_axes / get_einsum_eq / "
    "get_tensordot_perm share the left-before-right convention, axes are paired, the "
    "permutation has the direction source.find(ix) for ix in target; (ROOT) root axis order "
    "is the declared output's; (TOPO) children are executed before parents. "
    "Later rounds added: "
    "(RECIPES eq-renaming) the pairwise equation is re-lettered through one unfiltered "
    "counter-derived map; (BACKEND, shared with C11) conventions of the default "
    "matmul-based implementation; (MERGE, shared with C18) figures installed by annealing "
    "moves. "
)
ASSUMPTIONS = ("tensordot(a, b, (ax_a, ax_b)) returns a's kept axes followed by b's kept axes; "
               "transpose(x, p) puts source axis p[i] at i",)

PRODUCER = "extract_contractions"


def _tuples6(f):
    return [n for n in walk_local(f.node) if isinstance(n, ast.Tuple) and len(n.elts) == 6
            and isinstance(n.ctx, ast.Load)]


def _elt_kind(e):
    if isinstance(e, ast.Constant):
        if e.value is None:
            return "none"
        if e.value is True:
            return "true"
        if e.value is False:
            return "false"
    if isinstance(e, ast.Call) and isinstance(e.func, ast.Attribute):
        return {"get_einsum_eq": "eq", "get_tensordot_axes": "axes", "get_tensordot_perm": "perm"}.get(
            e.func.attr, "call:" + e.func.attr)
    if isinstance(e, ast.Call):
        return "call:" + (dotted(e.func) or "?")
    if isinstance(e, ast.Name):
        return "name:" + e.id
    return "?"


def rule_record(ctx):
    r = RuleResult("C01-RECORD", "step records are internally consistent and guarded", 4)
    f = ctx.p.func(C.CONTRACT, PRODUCER)
    recs = _tuples6(f)
    C.require(len(recs) >= 3, f"{PRODUCER}: fewer than three 6-element step records found")
    parents = f.module.parents
    pairwise = []
    for t in recs:
        kinds = [_elt_kind(e) for e in t.elts]
        k = ctx.key(f, "C01-RECORD", f"record:{kinds[3]}:{kinds[4].split(':')[0]}")
        flag, arg, perm = kinds[3], kinds[4], kinds[5]
        if flag == "true":
            ok = arg == "axes" and perm == "perm"
            why = "tensordot record = (.., True, tensordot axes, tensordot permutation)"
            pairwise.append(t)
        elif flag == "false":
            ok = (arg == "eq" or arg.startswith("name:")) and perm == "none"
            why = "einsum record = (.., False, equation, None)"
            if arg == "eq":
                pairwise.append(t)
        else:
            ok, why = False, ""
        if ok:
            r.ok(k, C.loc(f, t), why)
        else:
            r.violation(k, C.loc(f, t), f"step record `{C.unparse(t, 90)}` is inconsistent: flag {flag}, "
                        f"argument {arg}, permutation {perm} (the executor dispatches on the flag)")
    # the guard of the tensordot record
    k = ctx.key(f, "C01-RECORD", "can-dot-guard")
    tdots = [t for t in recs if _elt_kind(t.elts[3]) == "true"]
    for t in tdots:
        cur, child = parents.get(t), t
        verdict = None
        while cur is not None and cur is not f.node:
            if isinstance(cur, ast.IfExp) or isinstance(cur, ast.If):
                in_body = (child is cur.body) if isinstance(cur, ast.IfExp) else any(child is s for s in cur.body)
                in_test = child is cur.test
                if not in_test:
                    verdict = _implies_can_dot(cur.test, in_body)
                    if verdict is not None:
                        break
            child, cur = cur, parents.get(cur)
        if verdict == (True, True):
            r.ok(k, C.loc(f, t), "tensordot is chosen only if get_can_dot(p) and not prefer_einsum")
        elif verdict is None:
            r.violation(k, C.loc(f, t), "the tensordot record is built without testing get_can_dot(p): a step "
                        "with hyper, batch or repeated indices cannot be expressed as a tensordot")
        else:
            can, pref = verdict
            msg = []
            if not can:
                msg.append("get_can_dot(p) is not known to hold in this branch")
            if not pref:
                msg.append("prefer_einsum is not excluded in this branch")
            r.violation(k, C.loc(f, t), "; ".join(msg))
    # preprocessing first
    k = ctx.key(f, "C01-RECORD", "preprocessing-first")
    found = False
    for n in walk_local(f.node):
        if isinstance(n, ast.Return) and isinstance(n.value, ast.Tuple) and \
                all(isinstance(e, ast.Starred) for e in n.value.elts) and len(n.value.elts) == 2:
            found = True
            first = n.value.elts[0].value
            defs = [a.value for a in walk_local(f.node) if isinstance(a, ast.Assign)
                    and dotted(a.targets[0]) == dotted(first)]
            is_pre = any("preprocessing" in C.unparse(d, 300) for d in defs)
            if is_pre:
                r.ok(k, C.loc(f, n), "single-tensor simplifications precede every pairwise step")
            else:
                r.violation(k, C.loc(f, n), "pairwise steps are listed before the single-tensor "
                            "simplifications of their inputs: a leaf is contracted before its repeated / "
                            "summed indices were reduced")
    if not found:
        raise AnalysisError(f"{PRODUCER}: the return joining preprocessing and pairwise records was not recognised")
    return r


def _implies_can_dot(test, in_body):
    """(can_dot known true, prefer_einsum known false) in the given branch, or None when the
    test does not mention get_can_dot at all."""
    txt = C.unparse(test, 300)
    if "get_can_dot" not in txt:
        return None

    def atoms(t, neg=False):
        # returns list of (name, polarity) for a pure conjunction/disjunction
        if isinstance(t, ast.UnaryOp) and isinstance(t.op, ast.Not):
            return atoms(t.operand, not neg)
        if isinstance(t, ast.BoolOp):
            out = []
            for v in t.values:
                out.extend(atoms(v, neg))
            return out
        if isinstance(t, ast.Call) and isinstance(t.func, ast.Attribute) and t.func.attr == "get_can_dot":
            return [("can", not neg)]
        if isinstance(t, ast.Name):
            return [(t.id, not neg)]
        return [("?", not neg)]

    at = dict(atoms(test))
    is_or = isinstance(test, ast.BoolOp) and isinstance(test.op, ast.Or)
    is_and = isinstance(test, ast.BoolOp) and isinstance(test.op, ast.And)
    can = pref_false = False
    if in_body and (is_and or not isinstance(test, ast.BoolOp)):
        # all conjuncts hold
        can = at.get("can") is True
        pref_false = at.get("prefer_einsum") is False or "prefer_einsum" not in at
    elif (not in_body) and (is_or or not isinstance(test, ast.BoolOp)):
        # all disjuncts are false
        can = at.get("can") is False  # `not can_dot` false -> can_dot true
        pref_false = at.get("prefer_einsum") is True or "prefer_einsum" not in at
    return (can, pref_false)


# ------------------------------------------------------------------ CONSUME

def rule_consume(ctx):
    r = RuleResult("C01-CONSUME", "the executor reads step records as they were written", 3)
    cls = ctx.p.cls(C.CONTRACT, "Contractor")
    f = cls.lookup("__call__")
    C.require(f is not None, "Contractor.__call__ not found")
    loops = [n for n in walk_local(f.node) if isinstance(n, ast.For) and isinstance(n.target, ast.Tuple)
             and len(n.target.elts) == 6]
    C.require(len(loops) == 1, "Contractor.__call__: loop over 6-element step records not found")
    lp = loops[0]
    names = [e.id for e in lp.target.elts]
    # usage kinds
    pops = {}  # name -> local array name
    for n in ast.walk(lp):
        if isinstance(n, ast.Assign) and isinstance(n.value, ast.Call) and isinstance(n.value.func, ast.Attribute) \
                and n.value.func.attr in ("pop", "get", "__getitem__") and n.value.args and \
                isinstance(n.value.args[0], ast.Name) and isinstance(n.targets[0], ast.Name):
            pops[n.value.args[0].id] = n.targets[0].id
    flags = set()
    for n in ast.walk(lp):
        if isinstance(n, ast.If) and isinstance(n.test, ast.Name):
            flags.add(n.test.id)
    impl = {}
    # names bound to the tensordot / einsum implementations
    for n in walk_local(f.node):
        if isinstance(n, ast.Assign) and isinstance(n.targets[0], ast.Tuple) and isinstance(n.value, ast.Tuple) \
                and len(n.targets[0].elts) == 2 and len(n.value.elts) == 2:
            for t, v in zip(n.targets[0].elts, n.value.elts):
                if dotted(v) in ("einsum", "tensordot"):
                    impl[t.id] = dotted(v)
    C.require(set(impl.values()) == {"einsum", "tensordot"}, "Contractor.__call__: implementation names not found")
    calls = {"einsum": [], "tensordot": []}
    for n in ast.walk(lp):
        if isinstance(n, ast.Call) and isinstance(n.func, ast.Name) and n.func.id in impl:
            calls[impl[n.func.id]].append(n)
    pair_e = [c for c in calls["einsum"] if len(c.args) == 3]
    C.require(calls["tensordot"] and pair_e, "Contractor.__call__: pairwise tensordot/einsum calls not found")
    td, es = calls["tensordot"][0], pair_e[0]
    kinds = {}
    for i, nm in enumerate(names):
        if nm in pops:
            arr = pops[nm]
            if dotted(td.args[0]) == arr and dotted(es.args[1]) == arr:
                kinds[i] = "left"
            elif dotted(td.args[1]) == arr and dotted(es.args[2]) == arr:
                kinds[i] = "right"
            else:
                kinds[i] = "operand?"
        elif dotted(td.args[2]) == nm and dotted(es.args[0]) == nm:
            kinds[i] = "arg"
        elif nm in flags and not _is_transposed_with(lp, nm):
            kinds[i] = "flag"
        elif any(isinstance(c, ast.Call) and dotted(c.func) == "do" and c.args and isinstance(c.args[0], ast.Constant)
                 and c.args[0].value == "transpose" and any(dotted(a) == nm for a in c.args[1:]) for c in ast.walk(lp)):
            kinds[i] = "perm"
        else:
            kinds[i] = "parent" if any(isinstance(s, ast.Subscript) and isinstance(s.ctx, ast.Store)
                                       and dotted(s.slice) == nm for s in ast.walk(lp)) else "?"
    got = [kinds[i] for i in range(6)]
    want = ["parent", "left", "right", "flag", "arg", "perm"]
    k = ctx.key(f, "C01-CONSUME", "positions")
    if got == want:
        r.ok(k, C.loc(f, lp), f"record positions used as {got}")
    else:
        r.violation(k, C.loc(f, lp), f"the executor uses the record positions as {got}; extract_contractions "
                    f"writes {want}: with operands swapped the axes / equation no longer refer to the right tensor")
    # the flag selects tensordot
    k = ctx.key(f, "C01-CONSUME", "dispatch")
    good = False
    flag_names = {names[i] for i in range(6) if kinds[i] == "flag"}
    for n in ast.walk(lp):
        if isinstance(n, ast.If) and isinstance(n.test, ast.Name) and n.test.id in flag_names:
            in_true = any(any(td is x for x in ast.walk(s)) for s in n.body)
            in_else = any(any(es is x for x in ast.walk(s)) for s in n.orelse)
            good = in_true and in_else
    if good:
        r.ok(k, C.loc(f, td), "flag true → tensordot(+perm), false → einsum")
    else:
        r.violation(k, C.loc(f, td), "the flag does not select tensordot in its true branch and einsum otherwise")
    # the permutation is applied to the tensordot result only
    k = ctx.key(f, "C01-CONSUME", "perm-scope")
    perm_nm = names[5]
    tr = [c for c in ast.walk(lp) if isinstance(c, ast.Call) and dotted(c.func) == "do" and c.args
          and isinstance(c.args[0], ast.Constant) and c.args[0].value == "transpose"
          and any(dotted(a) == perm_nm for a in c.args[1:])]
    in_td_branch = all(any(isinstance(i.test, ast.Name) and i.test.id in flag_names and t
                           for i, t in C.enclosing_ifs(f, C.enclosing_stmt(f, c))) for c in tr)
    if tr and in_td_branch:
        r.ok(k, C.loc(f, tr[0]), "permutation applied in the tensordot branch")
    else:
        r.violation(k, f.loc, "the recorded permutation is not applied (only) to the tensordot result")
    return r


def _is_transposed_with(lp, nm):
    return any(isinstance(c, ast.Call) and dotted(c.func) == "do" and c.args and isinstance(c.args[0], ast.Constant)
               and c.args[0].value == "transpose" and any(dotted(a) == nm for a in c.args[1:]) for c in ast.walk(lp))


# ------------------------------------------------------------------ RECIPES

def rule_recipes(ctx):
    r = RuleResult("C01-RECIPES", "per-node recipes share the left-before-right convention", 4)
    tc = ctx.p.cls(C.CORE, "ContractionTree")

    def lr_names(f):
        """names bound to the (left, right) children recipes: `l_inds, r_inds = map(self.get_inds, self.children[node])`"""
        for n in walk_local(f.node):
            if isinstance(n, ast.Assign) and isinstance(n.targets[0], ast.Tuple) and \
                    "children" in C.unparse(n.value) and "get_inds" in C.unparse(n.value):
                el = [getattr(e, "id", None) for e in n.targets[0].elts]
                if len(el) == 2:
                    return el[0], el[1], None
            if isinstance(n, ast.Assign) and isinstance(n.targets[0], ast.Tuple) and "get_inds" in C.unparse(n.value) \
                    and len(n.targets[0].elts) == 3:
                el = [getattr(e, "id", None) for e in n.targets[0].elts]
                # map(self.get_inds, (l, r, node))
                return el[0], el[1], el[2]
        return None

    # (the order in which get_inds lists kept indices is free: the permutation and the equation are
    # computed from it, so it is not a clause)
    # get_tensordot_axes
    f = tc.lookup("get_tensordot_axes")
    C.require(f is not None, "get_tensordot_axes not found")
    k = ctx.key(f, "C01-RECIPES", "axes-pairing")
    lr = lr_names(f)
    C.require(lr is not None, "get_tensordot_axes: children index strings not found")
    loops = [n for n in walk_local(f.node) if isinstance(n, ast.For)]
    probs = []
    if not loops or lr[0] not in C.unparse(loops[0].iter) or lr[1] in C.unparse(loops[0].iter):
        probs.append("positions are not enumerated over the left child's indices")
    apps = [n for n in walk_local(f.node) if isinstance(n, ast.Call) and isinstance(n.func, ast.Attribute)
            and n.func.attr == "append" and isinstance(n.func.value, ast.Name)]
    blocks = {id(_block(f.module.parents, C.enclosing_stmt(f, a))) for a in apps}
    if len(apps) != 2 or len(blocks) != 1:
        probs.append("left and right positions are not appended together")
    else:
        finds = [n for n in walk_local(f.node) if isinstance(n, ast.Assign) and isinstance(n.value, ast.Call)
                 and isinstance(n.value.func, ast.Attribute) and n.value.func.attr in ("find", "index")]
        jn = finds[0].targets[0].id if finds and isinstance(finds[0].targets[0], ast.Name) else None
        src = dotted(finds[0].value.func.value) if finds else None
        if src != lr[1]:
            probs.append("the partner position is not looked up in the right child's indices")
        rets = [n for n in walk_local(f.node) if isinstance(n, ast.Return) and isinstance(n.value, ast.Tuple)]
        if rets and jn:
            right_list = [a.func.value.id for a in apps if dotted(a.args[0]) == jn]
            last = C.unparse(rets[0].value.elts[-1])
            if not right_list or right_list[0] not in last:
                probs.append("the axes are not returned as (left positions, right positions)")
    if probs:
        r.violation(k, f.loc, "; ".join(probs))
    else:
        r.ok(k, f.loc, "pairs (position in left, position in right), returned (left, right)")
    # get_einsum_eq
    f = tc.lookup("get_einsum_eq")
    C.require(f is not None, "get_einsum_eq not found")
    k = ctx.key(f, "C01-RECIPES", "eq-order")
    lr = lr_names(f)
    C.require(lr is not None and lr[2] is not None, "get_einsum_eq: index strings not found")
    js = [n for n in walk_local(f.node) if isinstance(n, ast.JoinedStr)]
    ok = False
    for j in js:
        parts = []
        for v in j.values:
            if isinstance(v, ast.FormattedValue):
                parts.append(dotted(v.value))
            elif isinstance(v, ast.Constant):
                parts.append(v.value)
        if parts == [lr[0], ",", lr[1], "->", lr[2]]:
            ok = True
    # the unpack order (l, r, node) must follow `l, r = self.children[node]`
    ch = [n for n in walk_local(f.node) if isinstance(n, ast.Assign) and isinstance(n.targets[0], ast.Tuple)
          and "children" in C.unparse(n.value) and "get_inds" not in C.unparse(n.value)]
    if ok and ch:
        cl, cr = [e.id for e in ch[0].targets[0].elts]
        mp = [n for n in walk_local(f.node) if isinstance(n, ast.Call) and dotted(n.func) == "map"
              and "get_inds" in C.unparse(n.args[0])]
        if mp and isinstance(mp[0].args[1], ast.Tuple):
            order = [dotted(e) for e in mp[0].args[1].elts]
            ok = order[:2] == [cl, cr]
    if ok:
        r.ok(k, f.loc, "equation is `left,right->parent`")
    else:
        r.violation(k, f.loc, "the einsum equation does not list the left child's indices, then the right "
                    "child's, then the parent's: the executor passes the operands as (left, right)")
    # (seed C01_1) the equation is re-lettered before it is handed to einsum: the renaming must be
    # injective on the indices of the step, i.e. one map over *all* of them with counter-derived symbols
    k = ctx.key(f, "C01-RECIPES", "eq-renaming")
    tr = [n for n in walk_local(f.node) if isinstance(n, ast.Call) and isinstance(n.func, ast.Attribute)
          and n.func.attr == "translate" and n.args]
    if not tr:
        r.exempt(k, f.loc, "the equation is not re-lettered (no translate call): nothing to decide")
    else:
        arg = tr[0].args[0]
        if isinstance(arg, ast.Name):
            la = ctx.r.local_assignments(f).get(arg.id) or []
            arg = la[0] if len(la) == 1 else arg
        probs = []
        if not isinstance(arg, ast.DictComp):
            probs.append(f"the translation table `{C.unparse(arg, 50)}` is not a single comprehension over the "
                         f"step's indices (not decided)")
            r.exempt(k, C.loc(f, tr[0]), probs[0])
        else:
            gens = arg.generators
            it = C.unparse(gens[0].iter)
            if any(g.ifs for g in gens):
                cond = C.unparse(gens[0].ifs[0] if gens[0].ifs else [g for g in gens if g.ifs][0].ifs[0], 50)
                probs.append(f"the table skips indices (`if {cond}`): an index that keeps its own label can "
                             f"coincide with the symbol the counter assigns to another one, so two different "
                             f"indices of the step share a letter (networks mixing ascii and extended labels, "
                             f"contracted with einsum)")
            if lr[0] not in it or lr[1] not in it:
                probs.append("the table is not built over the indices of both operands")
            cnt = None
            if isinstance(gens[0].iter, ast.Call) and dotted(gens[0].iter.func) == "enumerate" and \
                    isinstance(gens[0].target, ast.Tuple) and isinstance(gens[0].target.elts[0], ast.Name):
                cnt = gens[0].target.elts[0].id
            if cnt is None or cnt not in {n.id for n in ast.walk(arg.value) if isinstance(n, ast.Name)}:
                probs.append("the new symbol is not derived from the position counter of the enumeration")
            if probs:
                r.violation(k, C.loc(f, arg), "; ".join(probs))
            else:
                r.ok(k, C.loc(f, arg), "one unfiltered map over all indices of both operands, symbols from the "
                     "enumeration counter: injective")
    # get_tensordot_perm
    f = tc.lookup("get_tensordot_perm")
    C.require(f is not None, "get_tensordot_perm not found")
    lr = lr_names(f)
    C.require(lr is not None, "get_tensordot_perm: children index strings not found")
    k = ctx.key(f, "C01-RECIPES", "perm-produced")
    srt = [n for n in walk_local(f.node) if isinstance(n, ast.Call) and dotted(n.func) == "sorted"]
    produced_ok = False
    td_name = None
    for s_ in srt:
        kw = [kx.value for kx in s_.keywords if kx.arg == "key"]
        if kw and isinstance(kw[0], ast.Attribute) and kw[0].attr in ("find", "index"):
            base = kw[0].value
            order = None
            if isinstance(base, ast.JoinedStr):
                order = [dotted(v.value) for v in base.values if isinstance(v, ast.FormattedValue)]
            elif isinstance(base, ast.BinOp) and isinstance(base.op, ast.Add):
                order = [dotted(base.left), dotted(base.right)]
            if order == [lr[0], lr[1]]:
                produced_ok = True
            st = C.enclosing_stmt(f, s_)
            if isinstance(st, ast.Assign) and isinstance(st.targets[0], ast.Name):
                td_name = st.targets[0].id
    if produced_ok:
        r.ok(k, f.loc, "tensordot output = parent indices in order of appearance in left+right")
    else:
        r.violation(k, f.loc, "the layout tensordot produces is not modelled as the parent's indices sorted by "
                    "their position in left+right")
    k = ctx.key(f, "C01-RECIPES", "perm-direction")
    rets = [n for n in walk_local(f.node) if isinstance(n, ast.Return) and n.value is not None
            and not isinstance(n.value, ast.Constant)]
    good = None
    for rt in rets:
        v = rt.value
        src = tgt = None
        if isinstance(v, ast.Call) and dotted(v.func) == "tuple" and v.args:
            a = v.args[0]
            if isinstance(a, ast.Call) and dotted(a.func) == "map" and isinstance(a.args[0], ast.Attribute) \
                    and a.args[0].attr in ("find", "index"):
                src, tgt = dotted(a.args[0].value), dotted(a.args[1])
            elif isinstance(a, ast.GeneratorExp) and isinstance(a.elt, ast.Call) and \
                    isinstance(a.elt.func, ast.Attribute) and a.elt.func.attr in ("find", "index"):
                src, tgt = dotted(a.elt.func.value), dotted(a.generators[0].iter)
        if src is None:
            continue
        good = (src == td_name) and (tgt != td_name)
    if good is None:
        raise AnalysisError("get_tensordot_perm: returned permutation not recognised")
    if good:
        r.ok(k, f.loc, "permutation = position in the produced layout of each axis of the parent's layout")
    else:
        r.violation(k, f.loc, "the permutation lists, for each produced axis, its position in the parent's layout "
                    "(the inverse): right only for swaps")
    return r


def _block(parents, st):
    p = parents.get(st)
    for fld in ("body", "orelse", "finalbody"):
        b = getattr(p, fld, None)
        if isinstance(b, list) and any(s is st for s in b):
            return b
    return [st]


def rule_root(ctx):
    from .c02 import rule_root as src

    return C.reuse_rule(ctx, src, "C02-ROOT", "C01-ROOT",
                        "the root's axis order is the declared output's", lambda i: True, 3)


def rule_topo(ctx):
    from .c10 import rule_topo as src

    return C.reuse_rule(ctx, src, "C10-TOPO", "C01-TOPO",
                        "children are executed before parents in every traversal order", lambda i: True, 4)


def rule_merge(ctx):
    """Shared with C18-MERGE (seed C01_4): annealing installs the legs, cost and size computed by the move
    evaluator on the new node (`contract_nodes_pair(legs=…, cost=…, size=…)`); they are the tree's own figures
    only if the evaluator merges the two leg tables by the tree's survival rule."""
    from .c18 import rule_merge as src

    return C.reuse_rule(ctx, src, "C18-MERGE", "C01-MERGE",
                        "figures installed by annealing moves follow the tree's survival rule", lambda i: True, 3)


def rule_backend(ctx):
    """Shared with C11 (seed C01_5): for numpy arrays the pairwise steps of a tree are executed by the library's
    own matmul-based einsum / tensordot (`implementation="auto"`), so the value a tree returns depends on the
    planner's layouts, reshape guards and the executor's stage order just as C11 does."""
    from .c11 import rule_layout, rule_exec, rule_pure, rule_prims

    r = C.reuse_rule(ctx, rule_layout, "C11-LAYOUT", "C01-BACKEND",
                     "the default pairwise implementation (matmul-based) keeps its own conventions", lambda i: True, 9)
    for src, old in ((rule_exec, "C11-EXEC"), (rule_pure, "C11-PURE"), (rule_prims, "C11-PRIMS")):
        for i in src(ctx).instances:
            c = i.construct.replace(old, "C01-BACKEND")
            if i.verdict == "violation":
                r.violation(c, i.loc, i.reason, **i.detail)
            elif i.verdict == "exempt":
                r.exempt(c, i.loc, i.reason)
            else:
                r.ok(c, i.loc, i.reason)
    return r


def rule_copy(ctx):
    """Shared with C04-COPY (seed C01_7): a complete tree that was merely *copied* (every non-inplace call copies)
    must keep contracting to the einsum value whatever is done to the copy — the lazily filled preprocessing map
    and the per-node recipes are not shared."""
    from .c04 import rule_copy as src

    return C.reuse_rule(ctx, src, "C04-COPY", "C01-COPY",
                        "what a tree executes is not shared with its copies", lambda i: True, 10)


def _shared_rules():
    """'Any complete tree' includes trees that were sliced, reconfigured, annealed, re-ordered or copied before they are executed: the invalidation clauses of C02 are necessary conditions of C01 as well."""
    out = []

    def _mk(src_mod="c02", fn="rule_lists", old="C02-LISTS", new="C01-LISTS", mn=2):
        def rule(ctx):
            import importlib
            srcf = getattr(importlib.import_module("sa.rules." + src_mod), fn)
            return C.reuse_rule(ctx, srcf, old, new, "shared clause of " + old + " (also a necessary condition here)", lambda i: True, mn)
        rule.__name__ = "shared_" + new.lower().replace("-", "_")
        return rule
    out.append(_mk())

    def _mk(src_mod="c02", fn="rule_closure", old="C02-CLOSURE", new="C01-CLOSURE", mn=3):
        def rule(ctx):
            import importlib
            srcf = getattr(importlib.import_module("sa.rules." + src_mod), fn)
            return C.reuse_rule(ctx, srcf, old, new, "shared clause of " + old + " (also a necessary condition here)", lambda i: True, mn)
        rule.__name__ = "shared_" + new.lower().replace("-", "_")
        return rule
    out.append(_mk())

    def _mk(src_mod="c02", fn="rule_reorder", old="C02-REORDER", new="C01-REORDER", mn=1):
        def rule(ctx):
            import importlib
            srcf = getattr(importlib.import_module("sa.rules." + src_mod), fn)
            return C.reuse_rule(ctx, srcf, old, new, "shared clause of " + old + " (also a necessary condition here)", lambda i: True, mn)
        rule.__name__ = "shared_" + new.lower().replace("-", "_")
        return rule
    out.append(_mk())

    def _mk(src_mod="c02", fn="rule_cores", old="C02-CORES", new="C01-CORES", mn=2):
        def rule(ctx):
            import importlib
            srcf = getattr(importlib.import_module("sa.rules." + src_mod), fn)
            return C.reuse_rule(ctx, srcf, old, new, "shared clause of " + old + " (also a necessary condition here)", lambda i: True, mn)
        rule.__name__ = "shared_" + new.lower().replace("-", "_")
        return rule
    out.append(_mk())

    def _mk(src_mod="c02", fn="rule_corekey", old="C02-COREKEY", new="C01-COREKEY", mn=1):
        def rule(ctx):
            import importlib
            srcf = getattr(importlib.import_module("sa.rules." + src_mod), fn)
            return C.reuse_rule(ctx, srcf, old, new, "shared clause of " + old + " (also a necessary condition here)", lambda i: True, mn)
        rule.__name__ = "shared_" + new.lower().replace("-", "_")
        return rule
    out.append(_mk())

    def _mk(src_mod="c02", fn="rule_node", old="C02-NODE", new="C01-NODE", mn=3):
        def rule(ctx):
            import importlib
            srcf = getattr(importlib.import_module("sa.rules." + src_mod), fn)
            return C.reuse_rule(ctx, srcf, old, new, "shared clause of " + old + " (also a necessary condition here)", lambda i: True, mn)
        rule.__name__ = "shared_" + new.lower().replace("-", "_")
        return rule
    out.append(_mk())

    def _mk(src_mod="c02", fn="rule_preproc", old="C02-PREPROC", new="C01-PREPROC", mn=1):
        def rule(ctx):
            import importlib
            srcf = getattr(importlib.import_module("sa.rules." + src_mod), fn)
            return C.reuse_rule(ctx, srcf, old, new, "shared clause of " + old + " (also a necessary condition here)", lambda i: True, mn)
        rule.__name__ = "shared_" + new.lower().replace("-", "_")
        return rule
    out.append(_mk())

    def _mk(src_mod="c02", fn="rule_slicearr", old="C02-SLICEARR", new="C01-SLICEARR", mn=2):
        def rule(ctx):
            import importlib
            srcf = getattr(importlib.import_module("sa.rules." + src_mod), fn)
            return C.reuse_rule(ctx, srcf, old, new, "shared clause of " + old + " (also a necessary condition here)", lambda i: True, mn)
        rule.__name__ = "shared_" + new.lower().replace("-", "_")
        return rule
    out.append(_mk())

    def _mk(src_mod="c02", fn="rule_slicesum", old="C02-SLICESUM", new="C01-SLICESUM", mn=2):
        def rule(ctx):
            import importlib
            srcf = getattr(importlib.import_module("sa.rules." + src_mod), fn)
            return C.reuse_rule(ctx, srcf, old, new, "shared clause of " + old + " (also a necessary condition here)", lambda i: True, mn)
        rule.__name__ = "shared_" + new.lower().replace("-", "_")
        return rule
    out.append(_mk())
    return out


RULES = [rule_copy, rule_backend, rule_merge, rule_record, rule_consume, rule_recipes, rule_root, rule_topo] + _shared_rules()
