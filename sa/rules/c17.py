"""C17 — operations that take a seed are deterministic functions of their arguments."""

from __future__ import annotations

import ast

from ..engine.program import AnalysisError, ClassInfo, dotted, walk_local
from ..engine.report import RuleResult
from . import common as C

PID = "C17"
EXPLANATION = (
    "Structural clauses of seeded determinism, decided over the resolved call graph: "
    "(PLUMB) in every seeded context (function with a seed/rng parameter, or method "
    "of a class whose constructor stores get_rng(seed)), every call whose resolved "
    "callee consumes randomness (reaches get_rng or the random modules) passes a "
    "seed-derived value — as seed=/rng= keyword, positionally, through **dict with a "
    "'seed' key, or through the constructor of an object holding its own generator; "
    "a random-consuming callee that cannot be seeded is a violation unless the frozen "
    "exception table shows its randomness is off at that site; (GLOBAL) no function "
    "in scope uses the module-level generators of random / numpy.random directly "
    "(get_rng(None) is the only sanctioned route); (HASHORD) no set of index labels "
    "is iterated into an order-sensitive consumer (string hashing is randomised per "
    "interpreter); sites the classifier cannot decide are listed in a frozen table "
    "with a reason each, and a new undecidable site is an analysis error naming it. "
    "Determinism of third-party partitioners given their seed is not decided."
    'Round 7: (HASHORD) ranking functions over tables keyed by sets of labels do not materialise the key in iteration order. '
)
ASSUMPTIONS = (
    "integers and tuples/frozensets of integers hash deterministically; only str labels are "
    "affected by PYTHONHASHSEED",
    "get_rng(x) for an int x is random.Random(x); for a Random instance it is that instance",
)

SCOPE = [
    C.CORE, C.SLICER, C.UTILS, C.BASIC, C.ANNEAL,
    "cotengra/pathfinders/path_labels.py", "cotengra/pathfinders/path_kahypar.py",
    "cotengra/pathfinders/path_random.py", "cotengra/pathfinders/path_compressed_greedy.py",
    "cotengra/pathfinders/path_compressed.py", "cotengra/hyperoptimizers/hyper_random.py",
    "cotengra/pathfinders/path_greedy.py",
]
SEED_PARAMS = ("seed", "rng")
RNG_METHODS = {"random", "randint", "randrange", "choice", "choices", "shuffle", "uniform",
               "gauss", "expovariate", "sample", "normal", "integers", "getrandbits"}
NP_SEEDED_CTORS = {"default_rng", "RandomState", "Generator", "SeedSequence", "PCG64"}

# call sites inside seeded contexts whose random-consuming callee takes no seed,
# confirmed by reading: randomness is switched off by the arguments at that site
PLUMB_EXCEPTIONS = {
    # (caller qual, callee name): reason
}


def scope_paths(ctx):
    if ctx.tier == "thorough":
        return [p for p in ctx.p.modules
                if not p.startswith("cotengra/plot") and not p.startswith("cotengra/schematic")]
    return [p for p in SCOPE if p in ctx.p.modules]


# ---- randomness summaries ---------------------------------------------------


def rng_classes(ctx):
    """classes whose __init__ stores a generator obtained from get_rng / a seed"""
    out = {}
    for c in ctx.p.classes.values():
        init = c.methods.get("__init__")
        if init is None:
            continue
        for n in walk_local(init.node):
            if isinstance(n, ast.Assign) and isinstance(n.value, ast.Call):
                d = dotted(n.value.func)
                if d in ("get_rng", "GumbelBatchedGenerator", "random.Random",
                         "np.random.default_rng", "RandomSampler", "RandomSpace"):
                    for t in n.targets:
                        if isinstance(t, ast.Attribute) and isinstance(t.value, ast.Name) \
                                and t.value.id == "self":
                            out.setdefault(c.key, (c, set()))[1].add(t.attr)
    return out


def _direct_random(ctx, f):
    """f itself touches a source of randomness: get_rng(...), random.*, np.random.*,
    <x>.rng.<method>"""
    for n in walk_local(f.node):
        if isinstance(n, ast.Call):
            d = dotted(n.func)
            if d == "get_rng":
                return "get_rng"
            if d and (d.startswith("random.") or d.startswith("np.random.")
                      or d.startswith("numpy.random.")):
                return d
        if isinstance(n, ast.Attribute) and isinstance(n.ctx, ast.Load):
            d = dotted(n)
            if d and d.startswith("self.") and d.split(".")[1] in ("rng", "gumbel", "gmblgen"):
                return d
    return None


def _callees_no_preset(ctx, f):
    """callees of f, not following the dispatch through the preset tables
    (``_PRESETS_PATH[name]`` is the union of every registered optimizer: which one
    runs is decided by the name, see C17-PRESET)"""
    cache = ctx.__dict__.setdefault("_c17_callees", {})
    if f.key in cache:
        return cache[f.key]
    out = []
    for _, res in ctx.r.calls_in(f):
        if (res.via or "").startswith("registry _PRESETS"):
            continue
        for c in res.callees:
            if c not in out:
                out.append(c)
    for nf in ctx.p.nested_funcs(f):
        if nf not in out:
            out.append(nf)
    cache[f.key] = out
    return out


def consuming(ctx):
    """key -> reason for every function that may consume randomness (fixpoint)"""
    if hasattr(ctx, "_c17_cons"):
        return ctx._c17_cons
    cons = {}
    funcs = list(ctx.p.all_funcs())
    for f in funcs:
        d = _direct_random(ctx, f)
        if d:
            cons[f.key] = d
    changed = True
    while changed:
        changed = False
        for f in funcs:
            if f.key in cons:
                continue
            for c in _callees_no_preset(ctx, f):
                if c.key in cons and c is not f:
                    cons[f.key] = f"calls {c.qual}"
                    changed = True
                    break
    ctx._c17_cons = cons
    return cons


def seed_param(f):
    for p in SEED_PARAMS:
        if p in f.params:
            return p
    return None


def _forwards_kwargs_to_seeded(ctx, f, depth=0):
    """f(**kwargs) forwards its kwargs to a seed-accepting callee"""
    if f.kwarg is None or depth > 3:
        return False
    for call, res in ctx.r.calls_in(f):
        if any(k.arg is None and isinstance(k.value, ast.Name) and k.value.id == f.kwarg
               for k in call.keywords):
            for c in res.callees:
                if seed_param(c) or _forwards_kwargs_to_seeded(ctx, c, depth + 1):
                    return True
            if isinstance(call.func, ast.Attribute):
                # tree.subtree_reconfigure(*args, **kwargs) through an untyped receiver
                for c in ctx.p.methods_by_name.get(call.func.attr, []):
                    if seed_param(c):
                        return True
    return False


def seeded_contexts(ctx):
    rc = rng_classes(ctx)
    out = []
    for path in scope_paths(ctx):
        for f in ctx.p.module(path).all_funcs:
            if seed_param(f):
                out.append((f, "param"))
            elif f.cls is not None and any(c.key in rc for c in f.cls.mro()) and \
                    f.name != "__init__":
                out.append((f, "self.rng"))
            elif f.parent_func is not None and (seed_param(f.parent_func)):
                out.append((f, "closure"))
    return out


def _seed_derived(ctx, f, fl, expr, at):
    deps = fl.deps(expr, at)
    for d in deps:
        if d[0] == "param" and d[1] in SEED_PARAMS:
            return True
        if d[0] == "attr" and d[2] in ("rng", "gumbel", "_rng"):
            return True
        if d[0] == "call" and (d[1] == "get_rng" or d[1].split(".")[-1] in RNG_METHODS and
                               ("rng" in d[1])):
            return True
        if d[0] == "global" and d[1] in ("rng", "seed", "subtree_rng"):
            # closure variable of an enclosing seeded function
            return True
    return False


def _dict_keys_of(ctx, f, expr, depth=0):
    """string keys of a **mapping argument, resolved through locals / loop vars"""
    if depth > 4:
        return None
    if isinstance(expr, ast.Dict):
        ks = set()
        for k, v in zip(expr.keys, expr.values):
            if k is None:
                sub = _dict_keys_of(ctx, f, v, depth + 1)
                if sub is None:
                    return None
                ks |= sub
            elif isinstance(k, ast.Constant):
                ks.add(k.value)
        return ks
    if isinstance(expr, ast.Call) and dotted(expr.func) == "dict":
        return {k.arg for k in expr.keywords if k.arg}
    if isinstance(expr, ast.Name):
        la = ctx.r.local_assignments(f).get(expr.id, [])
        ks = None
        for v in la:
            sub = _dict_keys_of(ctx, f, v, depth + 1)
            if sub is not None:
                ks = (ks or set()) | sub
        if ks is not None:
            return ks
        # loop variable over a list of dict literals
        for n in walk_local(f.node):
            if isinstance(n, (ast.For, ast.comprehension)) and isinstance(n.target, ast.Name) \
                    and n.target.id == expr.id:
                return _dict_keys_of(ctx, f, n.iter, depth + 1)
        return None
    if isinstance(expr, (ast.ListComp, ast.GeneratorExp)):
        return _dict_keys_of(ctx, f, expr.elt, depth + 1)
    if isinstance(expr, (ast.List, ast.Tuple)) and expr.elts:
        return _dict_keys_of(ctx, f, expr.elts[0], depth + 1)
    if isinstance(expr, ast.Call) and isinstance(expr.func, ast.Attribute):
        # self.maybe_update_defaults(**kwargs) and friends: unknown mapping
        return None
    return None


def rule_plumb(ctx):
    r = RuleResult("C17-PLUMB", "seed reaches every random-consuming callee", 25)
    cons = consuming(ctx)
    rc = rng_classes(ctx)
    for f, why in seeded_contexts(ctx):
        fl = ctx.flow(f)
        for n, call in fl.calls():
            res = ctx.r.resolve_call(f, call)
            callees = [c for c in res.callees if c.key in cons]
            if not callees:
                continue
            fn = call.func
            cname = C.call_name(call) or "?"
            # helpers through which the real callee is passed as an argument
            args = list(call.args)
            if dotted(fn) == "submit" and len(args) >= 2:
                args = args[2:]
            elif isinstance(fn, ast.Attribute) and fn.attr == "submit":
                args = args[1:]
                cname = C.unparse(call.args[0], 40) if call.args else cname
            if dotted(fn) == "submit" and len(call.args) >= 2:
                cname = C.unparse(call.args[1], 40)
            if dotted(fn) in ("get_rng", "functools.partial", "partial"):
                # partial(...) only binds arguments; the invocation is checked where
                # the resulting callable is called
                continue
            key = ctx.key(f, "C17-PLUMB", cname)
            where = C.loc(f, call)
            # (A) call on self inside an rng-holding class: uses the object's generator
            if isinstance(fn, ast.Attribute) and isinstance(fn.value, ast.Name) and \
                    fn.value.id == "self" and f.cls is not None and \
                    any(c.key in rc for c in f.cls.mro()):
                r.ok(key, where, "method of the same object: uses its own seeded generator")
                continue
            verdicts = []
            for g in callees:
                # closure defined inside a method of an rng-holding object
                outer = g
                while outer.parent_func is not None:
                    outer = outer.parent_func
                if g.parent_func is not None and outer.cls is not None and \
                        any(c.key in rc for c in outer.cls.mro()) and seed_param(g) is None:
                    verdicts.append((g, "ok", "closure over an object that holds its own "
                                     "seeded generator"))
                    continue
                sp = seed_param(g)
                kw_forward = False
                if sp is None and g.name == "__init__":
                    sp = None
                if sp is None and _forwards_kwargs_to_seeded(ctx, g):
                    sp, kw_forward = "seed", True
                if sp is not None:
                    passed = None
                    for k in call.keywords:
                        if k.arg in SEED_PARAMS:
                            passed = k.value
                        elif k.arg is None and passed is None:
                            ks = _dict_keys_of(ctx, f, k.value)
                            if ks is not None and (set(SEED_PARAMS) & ks):
                                passed = "dict"
                            elif ks is None and f.kwarg and seed_param(f) is None and \
                                    isinstance(k.value, ast.Name) and k.value.id == f.kwarg:
                                # the context's own **kwargs may carry the seed only if
                                # the context has no named seed parameter capturing it
                                passed = "caller-kwargs"
                    if passed is None and not kw_forward:
                        pos = [p for p in g.positional if p not in ("self", "cls")]
                        if g.cls is None and g.positional and res.via.startswith(
                                ("typed receiver", "name-based", "singleton")):
                            pos = g.positional[1:]
                        if sp in pos and pos.index(sp) < len(args):
                            passed = args[pos.index(sp)]
                    if passed is None and sp in res.bound:
                        passed = res.bound[sp]
                    if passed is None:
                        verdicts.append((g, "missing", f"callee {g.qual}({sp}=...) consumes "
                                         "randomness but no seed is passed: it falls back to the "
                                         "global generator"))
                    elif passed in ("dict", "caller-kwargs"):
                        verdicts.append((g, "ok", "seed forwarded through ** mapping"))
                    elif _seed_derived(ctx, f, fl, passed, n.id):
                        verdicts.append((g, "ok", f"{sp}= is derived from the context's seed"))
                    else:
                        verdicts.append((g, "missing", f"callee {g.qual} gets {sp}="
                                         f"{C.unparse(passed, 40)}, which is not derived from "
                                         "this context's seed"))
                elif g.cls is not None and any(c.key in rc for c in g.cls.mro()) and \
                        g.name != "__init__":
                    verdicts.append((g, "ok", "method of an object that holds its own generator "
                                     "(seeded at construction)"))
                else:
                    exc = PLUMB_EXCEPTIONS.get((f.qual, g.name))
                    # randomness switched off at this site: the callee only draws when
                    # its ``temperature`` is non-zero, defaults it to 0.0, and the call
                    # does not pass one
                    dflt = g.defaults().get("temperature")
                    if exc is None and isinstance(dflt, ast.Constant) and dflt.value == 0.0:
                        pos = g.positional
                        passed_t = any(k.arg == "temperature" for k in call.keywords) or (
                            "temperature" in pos and pos.index("temperature") < len(args)) or \
                            "temperature" in res.bound or \
                            any(k.arg is None for k in call.keywords)
                        if not passed_t:
                            exc = ("callee draws random numbers only for temperature != 0; its "
                                   "default is 0.0 and this site does not pass a temperature")
                    if exc:
                        verdicts.append((g, "exempt", exc))
                    else:
                        verdicts.append((g, "noseed", f"callee {g.qual} consumes randomness "
                                         f"({cons[g.key]}) but cannot be given a seed"))
            bad = [v for v in verdicts if v[1] in ("missing", "noseed")]
            # name-based resolution may include unrelated candidates: require all
            # *typed* candidates to fail, or every candidate when untyped
            if bad and (len(bad) == len(verdicts) or not res.via.startswith("name-based")):
                g, kind, msg = bad[0]
                r.violation(key, where, msg, context=f"seeded by {why}", via=res.via)
            elif any(v[1] == "exempt" for v in verdicts):
                r.exempt(key, where, [v for v in verdicts if v[1] == "exempt"][0][2])
            else:
                r.ok(key, where, verdicts[0][2] if verdicts else "")
    return r


def rule_global(ctx):
    r = RuleResult("C17-GLOBAL", "no direct use of the global generators", 10)
    for path in scope_paths(ctx):
        m = ctx.p.module(path)
        for f in m.all_funcs:
            hits = []
            # local names bound to the stdlib ``random`` module
            rnames = {k for k, v in m.imports.items() if v == ("random", None)}
            rnames |= {k for k, v in ctx.p.local_imports(f).items() if v == ("random", None)}
            rnames -= set(ctx.r.local_assignments(f)) | set(f.params)
            for n in walk_local(f.node):
                if isinstance(n, ast.Attribute):
                    d = dotted(n)
                    if not d:
                        continue
                    parts = d.split(".")
                    if parts[0] in rnames and len(parts) == 2:
                        if parts[1] not in ("Random", "SystemRandom"):
                            hits.append((n, d))
                    if parts[:2] in (["np", "random"], ["numpy", "random"]) and len(parts) == 3:
                        if parts[2] not in NP_SEEDED_CTORS:
                            hits.append((n, d))
            # (seed C17_9) third-party random generators (networkx `random_*`, scipy / numpy style helpers) fall back
            # to the process-wide generator when no seed is handed to them
            tp = {k for k, v in m.imports.items() if v[0] and v[0].split(".")[0] in ("networkx", "scipy", "igraph", "numpy")}
            tp |= {k for k, v in ctx.p.local_imports(f).items() if v[0] and v[0].split(".")[0] in ("networkx", "scipy", "igraph", "numpy")}
            for n in walk_local(f.node):
                if not isinstance(n, ast.Call):
                    continue
                d = dotted(n.func)
                if not d or d.split(".")[0] not in tp:
                    continue
                last = d.split(".")[-1]
                if not ("random" in last or last in ("shuffle", "sample", "choice", "permutation")):
                    continue
                if d.split(".")[:2] in (["np", "random"], ["numpy", "random"]):
                    continue   # handled above
                seeded = [k for k in n.keywords if k.arg in ("seed", "random_state", "rng")]
                sp = seed_param(f)
                ok_seed = False
                for k in seeded:
                    names = {x.id for x in ast.walk(k.value) if isinstance(x, ast.Name)}
                    if not (isinstance(k.value, ast.Constant) and k.value.value is None) and (
                            sp is None or sp in names or names & set(ctx.r.local_assignments(f))):
                        ok_seed = True
                if not ok_seed:
                    hits.append((n, f"{d}(...) without a seed"))
            key = ctx.key(f, "C17-GLOBAL")
            if f.name == "get_rng":
                r.ok(key, f.loc, "the sanctioned route to the global generator (seed=None)")
                continue
            if hits:
                n, d = hits[0]
                r.violation(key, C.loc(f, n), f"`{d}` draws from the process-wide generator: "
                            "the result depends on what ran before, not only on the seed")
            elif seed_param(f) or _direct_random(ctx, f):
                r.ok(key, f.loc, "randomness only through a generator object")
    if not getattr(ctx, "_is_positive_example", False) and not r.violations:
        r.note(C.positive_example(
            ctx, rule_global,
            [(C.UTILS, "def get_rng(seed=None):",
              "def _c17_global_positive_example(n):\n    return random.randrange(n)\n\n\n"
              "def get_rng(seed=None):")],
            "_c17_global_positive_example"))
    return r


# ---- PRESET ----------------------------------------------------------------

OPT_PARAMS = ("optimize",)


def preset_table(ctx):
    """preset name -> [Func] the path optimizer registered under that name
    (``register_preset("name", optimizer, ...)`` at module level, also inside
    ``try:`` blocks)."""
    if hasattr(ctx, "_c17_presets"):
        return ctx._c17_presets
    from ..engine.program import Func
    out = {}
    for m in ctx.p.modules.values():
        fake = Func(ast.parse("def _m(): pass").body[0], m)
        stack = list(m.tree.body)
        while stack:
            st = stack.pop()
            if isinstance(st, (ast.FunctionDef, ast.AsyncFunctionDef, ast.ClassDef)):
                continue
            if isinstance(st, ast.Expr) and isinstance(st.value, ast.Call) and \
                    dotted(st.value.func) == "register_preset":
                call = st.value
                kw = {k.arg: k.value for k in call.keywords}
                name = call.args[0] if call.args else kw.get("preset")
                opt = call.args[1] if len(call.args) > 1 else kw.get("optimizer")
                if isinstance(name, ast.Constant) and isinstance(name.value, str) and opt is not None:
                    res = ctx.r.resolve_callable_expr(fake, opt)
                    out[name.value] = (list(res.callees), f"{m.path}:{call.lineno}", dict(res.bound))
            for fld in ("body", "orelse", "finalbody"):
                stack.extend(getattr(st, fld, []) or [])
            for h in getattr(st, "handlers", []) or []:
                stack.extend(h.body)
    ctx._c17_presets = out
    return out


def _str_values(ctx, f, e, depth=0):
    """string constants an ``optimize=`` argument may evaluate to (None: not a string preset)"""
    if isinstance(e, ast.Constant):
        return {e.value} if isinstance(e.value, str) else None
    if isinstance(e, ast.Name) and depth < 3:
        g = f
        while g is not None:
            la = ctx.r.local_assignments(g).get(e.id, [])
            if la:
                vals = set()
                for v in la:
                    sv = _str_values(ctx, g, v, depth + 1)
                    if sv:
                        vals |= sv
                return vals or None
            if e.id in g.params:
                d = g.defaults().get(e.id)
                return _str_values(ctx, g, d, depth + 1) if d is not None else None
            g = g.parent_func
    return None


def rule_preset(ctx):
    """A seeded operation that delegates part of its work to a named preset optimizer
    (``optimize="..."``) stays a function of its seed only if that preset is
    deterministic: the preset registered under the name must not consume randomness,
    because a string cannot carry the seed."""
    r = RuleResult("C17-PRESET", "named sub-optimizers used by seeded operations are deterministic", 3)
    cons = consuming(ctx)
    table = preset_table(ctx)
    C.require(len(table) >= 8, f"preset registrations not recognised ({len(table)})")
    for f, why in seeded_contexts(ctx):
        for call, res in ctx.r.calls_in(f):
            exprs = [(k.arg, k.value) for k in call.keywords if k.arg in OPT_PARAMS]
            # (an ``optimize`` parameter left at the callee's default is not followed: the
            # package's defaults of that kind - from_path, autocomplete - only matter for
            # incomplete paths, which these contexts do not produce)
            for label, e in exprs:
                vals = _str_values(ctx, f, e)
                if not vals:
                    continue
                for s_ in sorted(vals):
                    key = ctx.key(f, "C17-PRESET", f"{C.call_name(call)}[{s_}]")
                    where = C.loc(f, call)
                    if s_ not in table:
                        r.exempt(key, where, f"preset '{s_}' is not registered by the package "
                                 "sources analysed (third-party or optional)")
                        continue
                    callees, regloc, bound = table[s_]
                    rnd = [g for g in callees if g.key in cons]
                    if not rnd:
                        r.ok(key, where, f"preset '{s_}' -> {', '.join(g.qual for g in callees) or '?'}: "
                             "consumes no randomness", registered=regloc)
                    else:
                        g = rnd[0]
                        r.violation(key, where, f"preset '{s_}' ({label}) resolves to {g.qual}, which "
                                    f"consumes randomness ({cons[g.key]}) and cannot receive this "
                                    "operation's seed through a name: the seeded operation is not a "
                                    "function of its arguments", registered=regloc)
    return r


# ---- HASHORD ---------------------------------------------------------------

ORDER_INSENSITIVE_CALLS = {"sorted", "len", "set", "frozenset", "sum", "any", "all", "min",
                           "max", "prod", "isdisjoint", "issubset", "issuperset", "dict.fromkeys",
                           "oset", "compute_size_by_dict", "node_from_seq", "Counter",
                           "collections.Counter", "bool", "union_it"}

# sites the classifier cannot decide, confirmed by reading (key: "qual|iterable text")
HASHORD_TABLE = {
    "HyperGraph.neighborhood_compress_cost":
        "edges of the region are grouped per set of incident nodes in hash order, but each group "
        "is only multiplied together (edges_size) and the per-group integer costs are summed: "
        "commutative, the estimate does not depend on the order",
    "ContractionProcessor.simplify_hadamard":
        "set of frozensets of *integer* index ids (the processor maps labels to ints in order "
        "of first appearance), so hashing and hence iteration order is seed-independent",
}


def _is_set_expr(ctx, f, e, depth=0):
    """expression is (may be) a set/frozenset"""
    if depth > 4:
        return False
    if isinstance(e, (ast.Set, ast.SetComp)):
        return True
    if isinstance(e, ast.Call):
        d = dotted(e.func)
        if d in ("set", "frozenset"):
            return True
        if isinstance(e.func, ast.Attribute) and e.func.attr in (
                "union", "intersection", "difference", "symmetric_difference") and \
                _is_set_expr(ctx, f, e.func.value, depth + 1):
            return True
        return False
    if isinstance(e, ast.BinOp) and isinstance(e.op, (ast.BitOr, ast.BitAnd, ast.Sub, ast.BitXor)):
        # set algebra, including on dict views (``d.keys() - other`` is a plain set)
        def view(x):
            return isinstance(x, ast.Call) and isinstance(x.func, ast.Attribute) and \
                x.func.attr in ("keys", "items") and not x.args
        return _is_set_expr(ctx, f, e.left, depth + 1) or _is_set_expr(ctx, f, e.right, depth + 1) \
            or view(e.left) or view(e.right)
    if isinstance(e, ast.Name):
        # may-analysis: hash-ordered if any definition of the name is a set
        # (the definitions that reach this use, so a later ``x = sorted(x)`` counts)
        try:
            fl = ctx.flow(f)
            at = fl.node_of_expr(e)
        except Exception:
            at = None
        if at is not None:
            defs = [d for d in fl.defs_reaching(e.id, at) if d.kind in ("assign", "aug")]
            if defs:
                return any(d.value is not None and d.index is None and
                           _is_set_expr(ctx, f, d.value, depth + 1) for d in defs)
        la = ctx.r.local_assignments(f).get(e.id, [])
        return any(_is_set_expr(ctx, f, v, depth + 1) for v in la)
    return False


LABELISH = ("term", "inputs", "output", "legs", "inds", "ind", "ix", "size_dict", "edge",
            "involved", "indices", "eq", "lhs", "subscripts", "appeared", "sliced")
INTISH = ("node", "nodes", "range", "enumerate", "ssa", "scon", "subgraph", "group", "leaves",
          "remaining", "spine", "neighb", "region", "visitors", "ids", "seen_nodes")


def _element_kind(ctx, f, e, depth=0):
    """'label' | 'int' | 'unknown' for the elements of set expression e"""
    txt = C.unparse(e, 200)
    if isinstance(e, ast.Name):
        la = ctx.r.local_assignments(f).get(e.id, [])
        kinds = {_element_kind(ctx, f, v, depth + 1) for v in la} if la and depth < 3 else set()
        if kinds == {"int"}:
            return "int"
        if "label" in kinds:
            return "label"
    low = txt.lower()
    # hypergraph accessors: a node's entries are index labels, an edge's entries are nodes
    if "get_node(" in low and "get_edge(" not in low:
        return "label"
    if "get_edge(" in low and "get_node(" not in low:
        return "int"
    lab = any(k in low for k in LABELISH)
    it = any(k in low for k in INTISH)
    if lab and not it:
        return "label"
    if it and not lab:
        return "int"
    return "unknown"


def _consumer(func, node, loop=None):
    """('insensitive'|'sensitive'|'unknown', description) of how the iteration is used"""
    parents = func.module.parents
    par = parents.get(node)
    # for x in S: body
    if isinstance(par, ast.For) and par.iter is node:
        body = par.body
        txt = " ".join(ast.unparse(s) for s in body)
        ordered = any(isinstance(x, ast.Call) and isinstance(x.func, ast.Attribute)
                      and x.func.attr in ("append", "extend", "insert") for s in body
                      for x in ast.walk(s)) or "yield" in txt or "+= " in txt and "'" in txt
        early = any(isinstance(x, (ast.Break, ast.Return)) for s in body for x in ast.walk(s))
        if ordered or early:
            return "sensitive", "loop body appends/yields/returns in iteration order"
        return "insensitive", "loop body performs commutative updates only"
    if isinstance(par, ast.comprehension) and par.iter is node:
        comp = parents.get(par)
        user = parents.get(comp)
        if isinstance(comp, (ast.SetComp, ast.DictComp)):
            if isinstance(comp, ast.DictComp):
                return "unknown", "dict built in iteration order"
            return "insensitive", "set comprehension"
        if isinstance(user, ast.Call):
            d = dotted(user.func) or (user.func.attr if isinstance(user.func, ast.Attribute) else "")
            if d in ORDER_INSENSITIVE_CALLS or d.split(".")[-1] in ORDER_INSENSITIVE_CALLS:
                return "insensitive", f"consumed by {d}()"
            if d in ("tuple", "list", "join", "".join.__name__) or d.endswith(".join"):
                return "sensitive", f"materialised in iteration order by {d}()"
        if isinstance(comp, ast.ListComp):
            return "sensitive", "list built in iteration order"
        return "unknown", "comprehension"
    if isinstance(par, ast.Call):
        d = dotted(par.func) or (par.func.attr if isinstance(par.func, ast.Attribute) else "")
        if d in ("max", "min", "sorted") and any(k.arg == "key" for k in par.keywords):
            # elements that compare equal under the key keep iteration order (first
            # maximum / stable sort), and a key that draws random numbers assigns the
            # draws in iteration order
            return "sensitive", f"{d}(..., key=...) breaks ties (and evaluates the key) in iteration order"
        if d in ORDER_INSENSITIVE_CALLS or d.split(".")[-1] in ORDER_INSENSITIVE_CALLS:
            return "insensitive", f"consumed by {d}()"
        if d in ("tuple", "list", "iter", "next", "enumerate", "zip", "map", "reversed",
                 "itertools.chain", "itertools.combinations", "itertools.permutations",
                 "itertools.product", "unique") or \
                d.endswith("join") or d.endswith(".extend") or d.endswith("choice") or \
                d.endswith("choices") or d.endswith("shuffle") or d.endswith("sample"):
            return "sensitive", f"consumed in iteration order by {d}()"
        # the set is handed over as a value (stored, added, compared ...), not iterated here
        return "none", ""
    if isinstance(par, ast.Starred):
        return "sensitive", "unpacked in iteration order"
    return "none", ""


def rule_hashord(ctx):
    r = RuleResult("C17-HASHORD", "no label set is iterated into an order-sensitive consumer", 4)
    undecided = []
    # every module, also in the quick tier (seed C17_10 sat in hypergraph.py, which the seeded pathfinders use)
    all_paths = [p_ for p_ in ctx.p.modules
                 if not p_.startswith("cotengra/plot") and not p_.startswith("cotengra/schematic")]
    for path in all_paths:
        m = ctx.p.module(path)
        for f in m.all_funcs:
            for n in walk_local(f.node):
                if not isinstance(n, ast.expr):
                    continue
                par = f.module.parents.get(n)
                is_iter_pos = (isinstance(par, (ast.For, ast.comprehension)) and par.iter is n) or \
                    (isinstance(par, ast.Call) and n in par.args) or isinstance(par, ast.Starred)
                # <set>.pop() hands out "the first" element in hash order
                gp = f.module.parents.get(par) if par is not None else None
                is_pop = isinstance(par, ast.Attribute) and par.attr == "pop" and par.value is n and \
                    isinstance(gp, ast.Call) and gp.func is par and not gp.args
                if not (is_iter_pos or is_pop) or not _is_set_expr(ctx, f, n):
                    continue
                cons, how = ("sensitive", "asked for an arbitrary element with .pop()") if is_pop \
                    else _consumer(f, n)
                if cons == "none":
                    continue
                kind = _element_kind(ctx, f, n)
                tkey = f.qual  # one reasoned exemption per function, independent of local names
                key = ctx.key(f, "C17-HASHORD", C.unparse(n, 40))
                where = C.loc(f, n)
                if cons == "insensitive":
                    r.ok(key, where, f"order-insensitive: {how}", elements=kind)
                elif kind == "int":
                    r.ok(key, where, f"elements are integers/nodes (hash-seed independent); {how}")
                elif cons == "sensitive" and kind == "label":
                    if tkey in HASHORD_TABLE:
                        r.exempt(key, where, HASHORD_TABLE[tkey])
                    else:
                        r.violation(key, where, "a set of index labels (strings, hashed with a "
                                    f"per-interpreter seed) is {how}: the result differs between "
                                    "interpreters although the seed is the same")
                else:
                    if tkey in HASHORD_TABLE:
                        r.exempt(key, where, HASHORD_TABLE[tkey])
                    else:
                        undecided.append(f"{where} {tkey} [{cons}/{kind}: {how}]")
    # (seed C17_11) tables keyed by sets of labels: `self.T = {frozenset(): ...}` / `self.T[<set>] = ...`.  A function
    # used as `key=` over `self.T.items()` receives (set of labels, value) pairs: whatever it does with element 0 in
    # iteration order (tuple(), list(), a loop that appends) ranks candidates by PYTHONHASHSEED.
    n_tab = 0
    for path in all_paths:
        m = ctx.p.module(path)
        for cls in (m.classes.values() if isinstance(m.classes, dict) else m.classes):
            tables = set()
            for f in cls.methods.values():
                for n in walk_local(f.node):
                    if isinstance(n, ast.Assign):
                        for t in n.targets:
                            if isinstance(t, ast.Attribute) and isinstance(t.value, ast.Name) and t.value.id == "self" and isinstance(n.value, ast.Dict) \
                                    and n.value.keys and all(k_ is not None and _is_set_expr(ctx, f, k_) for k_ in n.value.keys):
                                tables.add(t.attr)
                            if isinstance(t, ast.Subscript) and isinstance(t.value, ast.Attribute) and isinstance(t.value.value, ast.Name) \
                                    and t.value.value.id == "self" and _is_set_expr(ctx, f, t.slice):
                                tables.add(t.value.attr)
            if not tables:
                continue
            n_tab += len(tables)
            for f in cls.methods.values():
                nested = {g.name: g for g in m.all_funcs if g.qual.startswith(f.qual + ".")}
                fl = None
                for call in (n for n in walk_local(f.node) if isinstance(n, ast.Call)):
                    kws = [k_ for k_ in call.keywords if k_.arg == "key"]
                    if not kws or not call.args:
                        continue
                    fl = fl or ctx.flow(f)
                    at = fl.node_of_expr(call)
                    d_ = fl.deps(call.args[0], at, "may")
                    if not any(x[0] == "attr" and x[1] == "self" and x[2] in tables for x in d_):
                        continue
                    kf = kws[0].value
                    cands = []
                    if isinstance(kf, ast.Lambda):
                        cands = [(f, kf, kf.args.args[0].arg if kf.args.args else None)]
                    elif isinstance(kf, ast.Name):
                        # every nested definition of that name (they may be defined on alternative branches)
                        cands = [(g, g.node, g.params[0] if g.params else None) for g in m.all_funcs
                                 if g.qual.startswith(f.qual + ".") and g.name == kf.id]
                    for g, root, p0 in cands:
                        if p0 is None:
                            continue
                        for x in ast.walk(root):
                            if isinstance(x, ast.Subscript) and isinstance(x.value, ast.Name) and x.value.id == p0 and \
                                    isinstance(x.slice, ast.Constant) and x.slice.value == 0:
                                cons, how = _consumer(g, x)
                                par_ = g.module.parents.get(x)
                                via = (dotted(par_.func) or "call") if isinstance(par_, ast.Call) else type(par_).__name__
                                key = ctx.key(g, "C17-HASHORD", f"key-over-{sorted(tables)[0]}:{via}({C.unparse(x)})@{x.lineno - root.lineno}")
                                if any(i_.construct == key and i_.loc == C.loc(g, x) for i_ in r.instances):
                                    continue
                                if cons == "sensitive":
                                    r.violation(key, C.loc(g, x), f"the ranking function handed to `{C.unparse(call.func)}` over a table keyed by sets of "
                                                f"index labels has `{C.unparse(x)}` {how}: candidates that tie otherwise are ranked by hash order — "
                                                "the same seed gives other results in another interpreter")
                                elif cons == "insensitive":
                                    r.ok(key, C.loc(g, x), f"order-insensitive: {how}")
    # explicit site: ContractionTree.slice applies a frozenset of labels one by one;
    # order-insensitive only because remove_ind rebuilds sliced_inds by sorting
    tcs = ctx.p.cls(C.CORE, "ContractionTree")
    sl = tcs.lookup("slice")
    if sl is not None:
        from .c06 import rule_order

        key = ctx.key(sl, "C17-HASHORD", "ix_sl")
        ro = [i for i in rule_order(ctx).instances if "remove_ind::C06-ORDER" in i.construct]
        badro = [i for i in ro if i.verdict == "violation"]
        if badro:
            r.violation(key, sl.loc, "the indices returned by the slice search (a frozenset of "
                        "labels) are applied in hash order, and remove_ind no longer re-sorts "
                        "the sliced-index table on every path: the table order — and every "
                        "seeded choice made from it (unslice_rand, annealing) — varies with "
                        "PYTHONHASHSEED", because=badro[0].reason)
        elif ro:
            r.ok(key, sl.loc, "applied in hash order, but remove_ind re-sorts the table each time")
    if not getattr(ctx, "_is_positive_example", False) and not r.violations and not undecided:
        r.note(C.positive_example(
            ctx, rule_hashord,
            [(C.UTILS, "def find_output_from_inputs(inputs):",
              "def _c17_positive_example(inputs):\n"
              "    return tuple(set(ix for term in inputs for ix in term))\n\n\n"
              "def find_output_from_inputs(inputs):")],
            "_c17_positive_example"))
    if undecided:
        raise AnalysisError("C17-HASHORD cannot classify set iteration site(s): "
                            + "; ".join(undecided[:60]))
    return r


COMPLETION_SOURCES = ("as_completed", "imap_unordered")


def rule_schedord(ctx):
    """A seeded operation that farms work out must not let the *completion order* of its workers
    decide the result: iterating ``as_completed`` / ``imap_unordered`` (or the ``done`` set of
    ``wait``) into a consumer that keeps the first of equal candidates (``min``/``max``/``sorted``
    with a key, a strict best-so-far comparison, list building) makes the result depend on the
    scheduler although the seed is the same."""
    r = RuleResult("C17-SCHEDORD", "completion order of workers does not reach a seeded result", 0)
    for m in ctx.p.modules.values():
        for f in m.all_funcs:
            for n in walk_local(f.node):
                if not isinstance(n, ast.Call):
                    continue
                d = dotted(n.func) or (n.func.attr if isinstance(n.func, ast.Attribute) else "")
                last = d.split(".")[-1]
                is_wait = last == "wait" and ("futures" in d or d == "wait") and n.args
                if last not in COMPLETION_SOURCES and not is_wait:
                    continue
                key = ctx.key(f, "C17-SCHEDORD", last)
                seeded = "seed" in f.params or "rng" in f.params
                if f.cls is not None:
                    for c in f.cls.mro():
                        init = c.methods.get("__init__")
                        if init is not None and ("seed" in init.params or "rng" in init.params):
                            seeded = True
                if not seeded:
                    r.exempt(key, C.loc(f, n), "the enclosing operation takes no seed (nothing to reproduce)")
                    continue
                cons, how = _sched_consumer(f, n)
                if cons == "sensitive":
                    r.violation(key, C.loc(f, n), f"results are taken in the order the workers finish and "
                                f"{how}: with the same seed the answer depends on the scheduler")
                else:
                    r.ok(key, C.loc(f, n), f"completion order is irrelevant: {how}")
    if not getattr(ctx, "_is_positive_example", False) and not r.violations:
        r.note(C.positive_example(
            ctx, rule_schedord,
            [("cotengra/_c17_sched_example.py", None,
              "import concurrent.futures\n\n\n"
              "def _c17_sched_example(pool, jobs, seed=None):\n"
              "    fs = [pool.submit(j, seed) for j in jobs]\n"
              "    return min((f.result() for f in concurrent.futures.as_completed(fs)), key=lambda x: x[1])\n")],
            "_c17_sched_example"))
    return r


def _sched_consumer(func, node):
    parents = func.module.parents
    par = parents.get(node)
    # x = wait(fs) ... -> treat the call site itself as sensitive unless only len()/bool is taken
    if isinstance(par, ast.comprehension) and par.iter is node:
        comp = parents.get(par)
        user = parents.get(comp)
        if isinstance(comp, (ast.SetComp,)):
            return "insensitive", "collected into a set"
        if isinstance(user, ast.Call):
            d = (dotted(user.func) or "").split(".")[-1]
            if d in ("min", "max", "sorted") and any(k.arg == "key" for k in user.keywords):
                return "sensitive", f"reduced by {d}(..., key=...), which keeps the first of equal candidates"
            if d in ("sum", "any", "all", "set", "frozenset", "len", "min", "max", "sorted"):
                return "insensitive", f"reduced by {d}() over whole values"
        return "sensitive", "materialised in completion order"
    if isinstance(par, ast.For) and par.iter is node:
        body = par.body
        strict = any(isinstance(x, ast.If) and any(isinstance(c, ast.Compare) and
                     isinstance(c.ops[0], (ast.Lt, ast.Gt, ast.LtE, ast.GtE)) for c in ast.walk(x.test))
                     and any(isinstance(y, ast.Assign) for y in ast.walk(x)) for s in body for x in ast.walk(s))
        appends = any(isinstance(x, ast.Call) and isinstance(x.func, ast.Attribute)
                      and x.func.attr in ("append", "extend", "insert") for s in body for x in ast.walk(s))
        early = any(isinstance(x, (ast.Break, ast.Return)) for s in body for x in ast.walk(s))
        if strict:
            return "sensitive", "a best-so-far comparison keeps the first (or last) of equal candidates"
        if appends or early:
            return "sensitive", "the loop appends/returns in completion order"
        return "insensitive", "the loop body performs commutative updates only"
    if isinstance(par, ast.Call):
        d = (dotted(par.func) or "").split(".")[-1]
        if d in ("min", "max", "sorted") and any(k.arg == "key" for k in par.keywords):
            return "sensitive", f"reduced by {d}(..., key=...)"
        if d in ("list", "tuple", "next", "iter", "enumerate", "zip", "map"):
            return "sensitive", f"consumed in completion order by {d}()"
        if d in ("len", "set", "frozenset", "sum", "any", "all"):
            return "insensitive", f"consumed by {d}()"
    return "sensitive", "handed on in completion order"


def rule_noshare(ctx):
    """Shared with C04-COPY: 'regardless of what was called before' includes earlier
    non-inplace calls on the same tree - they work on a copy, and the copy shares no
    mutable state (e.g. the already-optimised subtree cache) with its source."""
    from .c04 import rule_copy as src

    return C.reuse_rule(ctx, src, "C04-COPY", "C17-NOSHARE",
                        "a non-inplace seeded operation leaves no trace in its source tree",
                        lambda i: True, 20)


RULES = [rule_plumb, rule_global, rule_preset, rule_hashord, rule_schedord, rule_noshare]
