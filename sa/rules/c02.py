"""C02 — tree transformations never change the value the tree computes.

Decided statically: the cache-invalidation discipline of ContractionTree
(structural necessary conditions; not the numerical behaviour)."""

from __future__ import annotations

import ast

from ..engine.program import AnalysisError, dotted, walk_local
from ..engine.report import RuleResult
from ..engine.dataflow import target_names
from . import common as C

PID = "C02"

EXPLANATION = (
    "Static cache-invalidation discipline of ContractionTree, decided on the "
    "AST/CFG of the current /repo sources: (KEYS) registry of per-node cache keys; "
    "(DEPS) dependency graph between cached getters, computed from the getters' "
    "bodies; (LISTS) the key lists of remove_ind / reset_contraction_indices are "
    "closed under that dependency graph; (CLOSURE) every function that removes/"
    "recreates nodes or partially drops index orders reaches a whole-tree "
    "reset of the order-sensitive keys on every normal path; (ROOT) no writer may "
    "store legs/inds for the root other than from the declared output; (CORES) "
    "compiled contractors are dropped whenever the sliced set changes; (NODE) who "
    "may add/remove nodes. Each is a necessary condition of C02 (breaking it "
    "yields a history that returns wrong values); value equality itself is not "
    "decided. "
    "Later rounds added: "
    "(CORES recipes) whoever rewrites or drops an order-sensitive recipe drops the "
    "compiled contractors; (SLICESUM) per-slice results are recombined exactly; (MERGE) "
    "shared with C18. "
)
ASSUMPTIONS = (
    "the ast of cotengra/*.py is the program (no monkey-patching, optional "
    "accelerators behaviour-equivalent)",
    "legs/size of a node depend only on its leaf set and the sliced set (documented "
    "invariant of get_legs)",
)

TREE = "ContractionTree"


def tree_class(ctx):
    return ctx.p.cls(C.CORE, TREE)


def getters(ctx, family="core"):
    """key -> Func for @cached_node_property(key) getters.  family='core': the
    classes defined in core.py (ContractionTree, ContractionTreeCompressed) —
    the transformation targets of the property; family='all' adds
    ContractionTreeMulti, whose ``sliced_inds`` is a different notion (variable
    indices of a multi-contraction) and whose keys are reported separately."""
    out = {}
    tc = tree_class(ctx)
    for c in [tc] + tc.all_subclasses():
        if family == "core" and c.module.path != C.CORE:
            continue
        for f in c.methods.values():
            d = f.decorator_call("cached_node_property")
            if d is not None and d.args and isinstance(d.args[0], ast.Constant):
                out.setdefault(d.args[0].value, []).append(f)
    return out


def getter_key_of_method(ctx, name):
    for k, fs in getters(ctx).items():
        for f in fs:
            if f.name == name:
                return k
    return None


def tree_funcs(ctx, thorough=False):
    """All functions that may touch a tree's caches: methods of the tree class
    family and functions installed on it as class attributes; in thorough tier
    every function of the package."""
    tc = tree_class(ctx)
    fs = []
    for c in [tc] + tc.all_subclasses():
        if not thorough and c.module.path != C.CORE:
            continue
        for f in c.methods.values():
            fs.append(f)
        for al in c.aliases.values():
            if al.target is not None and al.target not in fs:
                fs.append(al.target)
    if thorough:
        for f in ctx.p.all_funcs():
            if f not in fs:
                fs.append(f)
    else:
        for path in (C.ANNEAL, C.HYPER, C.REUSABLE, C.CORE):
            for f in ctx.p.module(path).all_funcs:
                if f not in fs:
                    fs.append(f)
    return fs


def tree_receivers(ctx, f):
    """local names of ``f`` that denote a ContractionTree (family) object: other
    classes reuse attribute names such as ``children`` or ``_flops`` (MiniTree,
    MCTS, ContractionCosts) and must not be confused with trees."""
    key = ("treerecv", f.key)
    cache = ctx.__dict__.setdefault("_c02_recv", {})
    if key in cache:
        return cache[key]
    tc = tree_class(ctx)
    fam = set([tc] + tc.all_subclasses())
    names = set()
    cand = set(f.params) | set(ctx.r.local_assignments(f))
    if f.parent_func is not None:
        cand |= set(f.parent_func.params) | set(ctx.r.local_assignments(f.parent_func))
    for nm in cand:
        if nm is None:
            continue
        ts = ctx.r.type_of_expr(f, ast.Name(id=nm, ctx=ast.Load()))
        if ts & fam:
            names.add(nm)
    cache[key] = names
    return names


def _root_name(expr):
    while isinstance(expr, (ast.Attribute, ast.Subscript, ast.Call)):
        expr = expr.func if isinstance(expr, ast.Call) else expr.value
    return expr.id if isinstance(expr, ast.Name) else None


# --------------------------------------------------------------------------- #


def rule_keys(ctx):
    r = RuleResult("C02-KEYS", "registry of per-node cache keys", min_instances=10)
    reg = registry(ctx)
    for k, srcs in sorted(reg.items()):
        r.ok(f"{C.CORE}::{TREE}::C02-KEYS::{k}", srcs[0], "cache key", sources=len(srcs))
    # every store into a per-node entry uses a key whose dependencies the closure
    # analysis knows: a getter's key (dependency graph computed from its body) or
    # 'centrality' (heuristic only).  An ad-hoc key is a cache nobody invalidates.
    known = set(getters(ctx)) | {"centrality"}
    for f in tree_funcs(ctx, False):
        if f.cls is not None and f.cls.module.path != C.CORE:
            continue
        for kind, key, nodeexpr, n, val, keyexpr in C.info_key_accesses(f):
            if kind != "store":
                continue
            keys = [key] if isinstance(key, str) else (C.loop_key_values(ctx, f, keyexpr, n) or None)
            if keys is not None and set(keys) <= known:
                continue
            if keys is None and isinstance(keyexpr, ast.Name):
                # the decorator's own store: info[node][name], name a parameter of the
                # enclosing decorator factory (the getter key itself)
                g, deco = f.parent_func, False
                while g is not None:
                    deco = deco or keyexpr.id in g.params
                    g = g.parent_func
                if deco:
                    continue
            r.violation(ctx.key(f, "C02-KEYS", "adhoc"), C.loc(f, n),
                        f"`{C.unparse(n, 60)}` caches a value in a per-node entry under a key that no "
                        "getter defines: per-node entries are dropped only when that node is rebuilt, "
                        "and the invalidation lists know nothing about this key, so the value "
                        "survives changes elsewhere in the tree", key=C.unparse(keyexpr, 60))
    if ctx.tier == "thorough":
        for k, fs in sorted(getters(ctx, "all").items()):
            if k not in reg:
                r.exempt(f"{fs[0].module.path}::{fs[0].cls.name}::C02-KEYS::{k}", fs[0].loc,
                         "key of ContractionTreeMulti: not a transformation target of C02; "
                         "its sliced_inds table is a different type")
    return r


def registry(ctx):
    if hasattr(ctx, "_c02_registry"):
        return ctx._c02_registry
    reg = {}
    for k, fs in getters(ctx).items():
        for f in fs:
            reg.setdefault(k, []).append(f.loc)
    for f in tree_funcs(ctx, False):
        if f.cls is not None and f.cls.module.path != C.CORE:
            continue
        for kind, key, nodeexpr, n, val, keyexpr in C.info_key_accesses(f):
            if key is not None and isinstance(key, str):
                reg.setdefault(key, []).append(C.loc(f, n))
            elif keyexpr is not None:
                ks = C.loop_key_values(ctx, f, keyexpr, n)
                for kk in ks or ():
                    reg.setdefault(kk, []).append(C.loc(f, n))
    ctx._c02_registry = reg
    return reg


def deps_graph(ctx):
    """key -> {'keys': {(key, 'node'|'children'|'both')}, 'attrs': set}"""
    if hasattr(ctx, "_c02_deps"):
        return ctx._c02_deps
    tc = tree_class(ctx)
    g = {}
    eff = ctx.effects
    for key, fs in getters(ctx).items():
        f = next((x for x in fs if x.cls is tc), fs[0])
        keys = set()
        attrs = set()

        def visit(fn, seen):
            if fn.key in seen:
                return
            seen.add(fn.key)
            d = eff.direct(fn)
            own = eff.self_like(fn)
            for a in d["access"]:
                if a.recv in own and a.kind == "read":
                    attrs.add(a.attr)
            for call, res in ctx.r.calls_in(fn):
                targets = []
                fnx = call.func
                if isinstance(fnx, ast.Attribute) and isinstance(fnx.value, ast.Name) \
                        and fnx.value.id in own:
                    targets.append(fnx.attr)
                elif dotted(fnx) in ("map", "filter") and call.args and \
                        isinstance(call.args[0], ast.Attribute) and \
                        isinstance(call.args[0].value, ast.Name) and \
                        call.args[0].value.id in own:
                    targets.append(call.args[0].attr)
                for t in targets:
                    k2 = getter_key_of_method(ctx, t)
                    if k2 is not None:
                        keys.add(k2)
                    else:
                        m = tc.lookup(t)
                        if m is not None:
                            visit(m, seen)

        visit(f, set())
        keys.discard(key) if False else None
        g[key] = {"keys": keys, "attrs": attrs - {"info"}, "func": f}
    # centrality is filled by compute_centralities, not by a decorated getter
    cc = tc.lookup("compute_centralities")
    if cc is not None:
        t = eff.transitive(cc)
        g["centrality"] = {"keys": set(), "attrs": set(t["read"]) - {"info"}, "func": cc}
    ctx._c02_deps = g
    return g


def closure(g, start_pred):
    """Keys whose transitive dependencies satisfy start_pred(key, entry)."""
    hit = {k for k, e in g.items() if start_pred(k, e)}
    changed = True
    while changed:
        changed = False
        for k, e in g.items():
            if k not in hit and (e["keys"] - {k}) & hit:
                hit.add(k)
                changed = True
    return hit


def order_sensitive(ctx):
    g = deps_graph(ctx)
    if "inds" not in g:
        raise AnalysisError("cached getter 'inds' not found")
    hit = {"inds"}
    changed = True
    while changed:
        changed = False
        for k, e in g.items():
            if k not in hit and e["keys"] & hit:
                hit.add(k)
                changed = True
    return hit


def rule_deps(ctx):
    r = RuleResult("C02-DEPS", "dependency graph of cached getters (computed)", 9)
    g = deps_graph(ctx)
    for k, e in sorted(g.items()):
        r.ok(f"{C.CORE}::{TREE}::C02-DEPS::{k}", e["func"].loc,
             "depends on", keys=sorted(e["keys"]), attrs=sorted(e["attrs"]))
    r.note("order-sensitive set O = " + ", ".join(sorted(order_sensitive(ctx))))
    return r


def popped_keys(ctx, func, through_calls=True, _seen=None):
    """(deleted keys D, updated keys U, filtered?) of info keys dropped/rewritten
    in func.  Keys popped inside a call to another tree method on the same tree
    are included (through_calls)."""
    _seen = _seen or set()
    if func.key in _seen:
        return set(), set()
    _seen.add(func.key)
    D, U = set(), set()
    for kind, key, nodeexpr, n, val, keyexpr in C.info_key_accesses(func):
        keys = [key] if isinstance(key, str) else (C.loop_key_values(ctx, func, keyexpr, n) or [])
        if kind in ("pop", "del"):
            D.update(keys)
        elif kind == "store":
            U.update(keys)
    if through_calls:
        own = ctx.effects.self_like(func) | {"tree"}
        for call, res in ctx.r.calls_in(func):
            fn = call.func
            if isinstance(fn, ast.Attribute) and isinstance(fn.value, ast.Name) and \
                    fn.value.id in own and fn.attr == "reset_contraction_indices":
                for c in res.callees:
                    d2, u2 = popped_keys(ctx, c, True, _seen)
                    D |= d2
    return D, U


def _is_len1_test(test):
    """``len(<name>) == 1`` -> the name, else None."""
    if isinstance(test, ast.Compare) and len(test.ops) == 1 and isinstance(test.ops[0], ast.Eq) \
            and isinstance(test.left, ast.Call) and dotted(test.left.func) == "len" \
            and len(test.left.args) == 1 and isinstance(test.left.args[0], ast.Name) \
            and isinstance(test.comparators[0], ast.Constant) and test.comparators[0].value == 1:
        return test.left.args[0].id
    return None


def leaf_status(f):
    """How a cached getter behaves on a leaf, from its top-level statements:
    'const' (``if len(node) == 1: return <literal>``), 'na' (subscripts
    ``self.children[node]`` before any leaf test: never cached on a leaf) or 'dep'
    (a leaf value is computed, so it can go stale)."""
    for st in f.node.body:
        if isinstance(st, ast.If) and _is_len1_test(st.test):
            if len(st.body) == 1 and isinstance(st.body[0], ast.Return):
                v = st.body[0].value
                if isinstance(v, ast.Constant) or (isinstance(v, (ast.Dict, ast.Tuple, ast.List)) and
                                                   not (getattr(v, "keys", None) or getattr(v, "elts", None))):
                    return "const"
            return "dep"
        for n in ast.walk(st):
            if isinstance(n, ast.Subscript) and isinstance(n.value, ast.Attribute) and \
                    n.value.attr == "children":
                return "na"
    return "dep"


def _whole_reset(ctx, func):
    """func clears or deletes a whole info entry (``X.info[n].clear()``, ``del X.info[n]``,
    ``X.info.pop(n)``)."""
    for n in walk_local(func.node):
        if isinstance(n, ast.Call) and isinstance(n.func, ast.Attribute):
            if n.func.attr == "clear" and C.is_info_entry(n.func.value, C.info_aliases(func)):
                return True
            if n.func.attr == "pop" and isinstance(n.func.value, ast.Attribute) and \
                    n.func.value.attr == "info":
                return True
        if isinstance(n, ast.Delete):
            for t in n.targets:
                if C.info_entry_node_expr(t) is not None:
                    return True
    return False


def _leaf_branch_instances(ctx, r, ri, g, sl):
    """remove_ind treats leaves in a branch of its own: a leaf carrying the index
    must lose every cached key that a leaf can hold and that depends on the sliced set."""
    leafkeys = {k for k, e in g.items() if k != "centrality" and leaf_status(e["func"]) == "dep"}
    need = leafkeys & sl
    C.require({"legs", "size"} <= need, f"leaf-held slice-dependent keys not recognised: {sorted(need)}")
    branches = [n for n in walk_local(ri.node) if isinstance(n, ast.If) and _is_len1_test(n.test)]
    C.require(branches, "remove_ind: leaf branch (len(node) == 1) not found")
    accesses = C.info_key_accesses(ri)
    aliases = C.info_aliases(ri)

    def stmt_effect(st):
        """(whole reset?, keys dropped) by one simple statement"""
        whole, D = False, set()
        ids = {id(x) for x in ast.walk(st)}
        for call, res in ctx.r.calls_in(ri):
            if id(call) in ids and any(_whole_reset(ctx, c) for c in res.callees):
                whole = True
        for n in ast.walk(st):
            if isinstance(n, ast.Call) and isinstance(n.func, ast.Attribute) and n.func.attr == "clear" \
                    and C.is_info_entry(n.func.value, aliases):
                whole = True
        for kind, k, nodeexpr, n, val, keyexpr in accesses:
            if id(n) in ids and kind in ("pop", "del", "store"):
                ks = [k] if isinstance(k, str) else (C.loop_key_values(ctx, ri, keyexpr, n) or [])
                D.update(ks)
        return whole, D

    def paths(stmts):
        """[(whole, dropped keys)] for every path through a statement list (ifs are
        split; loops and other compound statements are taken as one step)"""
        acc = [(False, frozenset())]
        for st in stmts:
            if isinstance(st, ast.If):
                a = paths(st.body)
                b = paths(st.orelse) if st.orelse else [(False, frozenset())]
                acc = [(w1 or w2, d1 | d2) for w1, d1 in acc for w2, d2 in a + b]
            else:
                w, d = stmt_effect(st)
                acc = [(w1 or w, d1 | d) for w1, d1 in acc]
            if len(acc) > 64:
                raise AnalysisError("remove_ind: leaf branch too branchy to enumerate")
        return acc

    for br in branches:
        key = ctx.key(ri, "C02-LISTS", "leaf")
        # the paths on which the leaf is touched at all (something is dropped/rewritten or
        # the leaf is registered as sliced): each must drop everything slice-dependent
        bad = None
        n_paths = 0
        for whole, D in paths(br.body):
            if not whole and not D:
                continue  # leaf does not carry the index on this path
            n_paths += 1
            if not whole and need - D:
                bad = (D, sorted(need - D))
        if bad is not None:
            for m in bad[1]:
                r.violation(f"{key}::{m}", C.loc(ri, br),
                            f"sliced leaf keeps its cached '{m}', which depends on the sliced set "
                            f"(a path through the leaf branch drops only {sorted(bad[0])})")
        else:
            r.ok(key, C.loc(ri, br), f"sliced leaf: every slice-dependent leaf key dropped or the whole "
                 f"entry reset on each of {n_paths} path(s)", leaf_keys=sorted(need))


def rule_lists(ctx):
    r = RuleResult("C02-LISTS", "invalidation lists are dependency-closed", 3)
    tc = tree_class(ctx)
    g = deps_graph(ctx)
    reg = set(registry(ctx)) | set(g)
    # keys that (transitively) depend on the sliced set / on legs
    def dep_sliced(k, e):
        return "sliced_inds" in e["attrs"]

    sl = closure(g, dep_sliced)
    ri = tc.lookup("remove_ind")
    C.require(ri is not None, "ContractionTree.remove_ind not found")
    D, U = popped_keys(ctx, ri)
    need = {k for k in reg if k in sl}
    missing = sorted(need - (D | U))
    key = ctx.key(ri, "C02-LISTS")
    if missing:
        for m in missing:
            r.violation(f"{key}::{m}", ri.loc,
                        f"cached key '{m}' depends on the sliced set but remove_ind neither "
                        f"rewrites nor deletes it", deleted=sorted(D), updated=sorted(U))
    else:
        r.ok(key, ri.loc, "U ∪ D covers every slice-dependent key",
             deleted=sorted(D), updated=sorted(U),
             exempt_by_computation=sorted(reg - sl))
    _leaf_branch_instances(ctx, r, ri, g, sl)
    rc = tc.lookup("reset_contraction_indices")
    C.require(rc is not None, "reset_contraction_indices not found")
    D2, _ = popped_keys(ctx, rc)
    O = order_sensitive(ctx)
    missing = sorted(O - D2)
    key = ctx.key(rc, "C02-LISTS")
    if missing:
        for m in missing:
            r.violation(f"{key}::{m}", rc.loc,
                        f"order-sensitive key '{m}' is not dropped by reset_contraction_indices",
                        dropped=sorted(D2), order_sensitive=sorted(O))
    else:
        r.ok(key, rc.loc, "drops every order-sensitive key", dropped=sorted(D2))
    # the reset must be unfiltered: iterate every non-leaf node
    ok_iter = False
    for n in walk_local(rc.node):
        if isinstance(n, ast.For):
            it = dotted(n.iter)
            if it in ("self.children", "self.info"):
                # no continue / conditional around the pops
                if not any(isinstance(x, (ast.Continue, ast.Break)) for x in ast.walk(n)):
                    ok_iter = True
    if not ok_iter:
        r.violation(ctx.key(rc, "C02-LISTS", "iteration"), rc.loc,
                    "reset_contraction_indices does not iterate all nodes unconditionally")
    else:
        # ... and on every path: no early return in front of the loop
        fl = ctx.flow(rc)
        loops = [fl.cfg.node_of(n) for n in walk_local(rc.node) if isinstance(n, ast.For)
                 and dotted(n.iter) in ("self.children", "self.info")]
        loops = [x.id for x in loops if x is not None]
        if loops and not fl.cfg.all_paths_pass(fl.cfg.entry.id, loops):
            pth = fl.cfg.path_avoiding(fl.cfg.entry.id, loops)
            r.violation(ctx.key(rc, "C02-LISTS", "iteration"), rc.loc,
                        "reset_contraction_indices can return without walking the nodes: the "
                        "per-node index orders are cached independently of whatever the skipped "
                        "path tests, so stale recipes survive a restructuring",
                        path=fl.cfg.describe_path(pth) if pth else "")
    return r


# ---- CLOSURE ---------------------------------------------------------------


def _is_reset_call(ctx, func, call):
    if isinstance(call.func, ast.Attribute) and call.func.attr == "reset_contraction_indices":
        return True
    return False


def unconditional_reset(ctx, func, _depth=0):
    """func executes reset_contraction_indices() on every normal path."""
    if _depth > 3:
        return False
    fl = ctx.flow(func)
    for n, call in fl.calls():
        if _is_reset_call(ctx, func, call) and fl.cfg.postdominates(n.id, fl.cfg.entry.id):
            return True
    return False


def _inline_reset_loops(ctx, func, fl, O):
    """Second recognised idiom: an unfiltered loop over X.children / X.info that
    pops every order-sensitive key of each node (the body of
    reset_contraction_indices written in line)."""
    out = []
    for n in fl.cfg.nodes:
        if n.kind != "for":
            continue
        it = n.ast.iter
        if isinstance(it, ast.Call) and isinstance(it.func, ast.Attribute) and \
                it.func.attr in ("items", "keys", "values"):
            it = it.func.value
        if not (isinstance(it, ast.Attribute) and it.attr in ("children", "info")):
            continue
        body = n.ast.body
        if any(isinstance(x, (ast.Continue, ast.Break, ast.Return)) for b in body
               for x in ast.walk(b)):
            continue
        popped = set()
        for st in body:
            # only statements executed unconditionally in each iteration
            if isinstance(st, ast.For):
                ks = C.resolve_str_tuple(ctx, func, st.iter)
                if ks and any(isinstance(x, ast.Call) and isinstance(x.func, ast.Attribute)
                              and x.func.attr == "pop" for b in st.body for x in ast.walk(b)) \
                        and not any(isinstance(x, ast.If) for b in st.body for x in ast.walk(b)):
                    popped.update(ks)
            elif isinstance(st, ast.Expr) and isinstance(st.value, ast.Call) and \
                    isinstance(st.value.func, ast.Attribute) and st.value.func.attr == "pop" \
                    and st.value.args and isinstance(st.value.args[0], ast.Constant):
                popped.add(st.value.args[0].value)
        if O <= popped:
            out.append(n.id)
    return out


def rule_closure(ctx):
    r = RuleResult("C02-CLOSURE", "restructuring reaches a whole-tree reset of order-"
                   "sensitive keys on every normal path", 4)
    tc = tree_class(ctx)
    O = order_sensitive(ctx)
    rn = tc.lookup("_remove_node")
    C.require(rn is not None, "_remove_node not found")
    # discharged once and for all?
    if unconditional_reset(ctx, rn):
        r.note("_remove_node itself resets the index orders unconditionally")
    exempt_funcs = {"_remove_node", "reset_contraction_indices", "__init__",
                    "set_state_from", "sort_contraction_indices"}
    for f in tree_funcs(ctx, ctx.tier == "thorough"):
        if f.name in exempt_funcs:
            continue
        fl = None
        events = []
        # (i) _remove_node on a possibly non-leaf node / (iii) stores of legs|involved
        for call in C.method_calls(f, "_remove_node"):
            res = ctx.r.resolve_call(f, call)
            if not any(c.name == "_remove_node" and c.cls is not None and
                       c.cls.is_subclass_of(tc) for c in res.callees):
                continue
            events.append(("remove", call))
        # (ii) partial pops of O-keys, stores into legs / involved
        for kind, key, nodeexpr, n, val, keyexpr in C.info_key_accesses(f):
            keys = [key] if isinstance(key, str) else (C.loop_key_values(ctx, f, keyexpr, n) or [])
            if kind in ("pop", "del") and set(keys) & O:
                events.append(("pop", n))
            if kind == "store" and set(keys) & {"legs", "involved"} and \
                    f.decorator_call("cached_node_property") is None and f.name != "getter":
                events.append(("store", n))
        if not events:
            continue
        if f.name == "contract_nodes_pair":
            # creation of a fresh parent: ancestors do not exist yet or are
            # recreated by the caller, which is itself an instance
            continue
        fl = ctx.flow(f)
        cfg = fl.cfg
        reset_nodes = [n.id for n, call in fl.calls() if _is_reset_call(ctx, f, call)]
        reset_nodes += _inline_reset_loops(ctx, f, fl, O)
        bad = None
        for kind, node in events:
            cn = cfg.containing(node, f.module.parents)
            if cn is None:
                continue
            if cn.id in reset_nodes:
                continue
            if not cfg.all_paths_pass(cn.id, reset_nodes):
                path = cfg.path_avoiding(cn.id, reset_nodes)
                bad = (kind, node, path)
                break
        key = ctx.key(f, "C02-CLOSURE")
        if bad is None:
            r.ok(key, f.loc, f"{len(events)} restructuring event(s), all followed by "
                 "reset_contraction_indices() on every normal path")
        else:
            kind, node, path = bad
            r.violation(key, C.loc(f, node),
                        f"after this {kind} event a normal return is reachable without "
                        f"resetting the order-sensitive keys {sorted(O)} of the ancestors",
                        path=cfg.describe_path(path) if path else "")
    return r


# ---- ROOT ------------------------------------------------------------------


def _root_guarded(func, store_node, target_expr):
    """store is inside the true branch of a test containing ``len(<t>) != X.N``
    (or ``< X.N``) for the stored-to node expression."""
    tname = ast.unparse(target_expr) if target_expr is not None else None
    for ifn, in_true in C.enclosing_ifs(func, store_node):
        for cmp in C.compare_ops(ifn.test):
            if len(cmp.ops) != 1:
                continue
            l, rgt = cmp.left, cmp.comparators[0]
            def is_len_of_target(e):
                return isinstance(e, ast.Call) and dotted(e.func) == "len" and e.args and \
                    ast.unparse(e.args[0]) == tname
            def is_N(e):
                d = dotted(e)
                return d is not None and d.split(".")[-1] == "N"
            op = cmp.ops[0]
            if is_len_of_target(l) and is_N(rgt):
                if in_true and isinstance(op, (ast.NotEq, ast.Lt)) and \
                        _conj_member(ifn.test, cmp):
                    return True
                if (not in_true) and isinstance(op, (ast.Eq, ast.GtE)) and ifn.test is cmp:
                    return True
    return False


def _conj_member(test, cmp):
    """cmp is test itself or a conjunct of a top-level ``and``."""
    if test is cmp:
        return True
    if isinstance(test, ast.BoolOp) and isinstance(test.op, ast.And):
        return any(_conj_member(v, cmp) for v in test.values)
    return False


def _child_var(func, name):
    """``name`` is bound as a child: ``l, r = X.children[p]`` or as 2nd/3rd
    element of a (p, l, r) / (p, (l, r)) loop target."""
    for n in walk_local(func.node):
        if isinstance(n, ast.Assign) and len(n.targets) == 1 and \
                isinstance(n.targets[0], ast.Tuple):
            v = n.value
            if isinstance(v, ast.Subscript) and isinstance(v.value, ast.Attribute) \
                    and v.value.attr == "children":
                if name in [x for x, _ in target_names(n.targets[0])]:
                    return True
        if isinstance(n, (ast.For, ast.comprehension)) and isinstance(n.target, ast.Tuple):
            elts = n.target.elts
            if len(elts) == 3 and all(isinstance(e, ast.Name) for e in elts):
                if name in (elts[1].id, elts[2].id):
                    return True
            if len(elts) == 2 and isinstance(elts[1], ast.Tuple):
                if name in [x for x, _ in target_names(elts[1])]:
                    return True
    return False


def rule_root(ctx):
    r = RuleResult("C02-ROOT", "writers of the root's index order", 4)
    tc = tree_class(ctx)
    getter_names = {f.name for fs in getters(ctx).values() for f in fs} | {"getter"}
    for f in tree_funcs(ctx, ctx.tier == "thorough"):
        if f.name in getter_names and f.cls is not None:
            continue
        if f.qual.endswith("wrapper.<locals>.getter"):
            continue
        for kind, key, nodeexpr, n, val, keyexpr in C.info_key_accesses(f):
            if kind != "store" or key not in ("legs", "inds"):
                continue
            disc = f"{key}:{ast.unparse(nodeexpr) if nodeexpr is not None else '?'}"
            ckey = ctx.key(f, "C02-ROOT", disc)
            fl = ctx.flow(f)
            why = None
            if nodeexpr is not None and _root_guarded(f, n, nodeexpr):
                why = "guarded: target cannot be the root (len(node) != N)"
            elif isinstance(nodeexpr, ast.Name) and _child_var(f, nodeexpr.id):
                why = "target is a child node (never the root)"
            elif val is not None:
                deps = fl.deps(val, fl.node_of_expr(n))
                getter_calls = [d for d in deps if d[0] == "call" and
                                d[1].split(".")[-1] in ("get_legs", "get_inds")]
                params = [d for d in deps if d[0] == "param" and d[1] not in
                          ("self", "tree", "ind", "inplace")]
                if getter_calls and not any(
                    d[0] == "call" and d[1] in ("set", "sorted", "frozenset") for d in deps
                ):
                    why = "value derived from the getter's own result (order-preserving)"
            if why:
                r.ok(ckey, C.loc(f, n), why)
            else:
                r.violation(ckey, C.loc(f, n),
                            f"stores info[node]['{key}'] from a caller-supplied/recomputed value "
                            "with no guard excluding the root, whose order must be that of the "
                            "declared output", value=C.unparse(val) if val is not None else "")
    # read side: the root branch of get_legs iterates self.output in order
    gl = tc.lookup("get_legs")
    C.require(gl is not None, "get_legs not found")
    found = False
    for n in walk_local(gl.node):
        if isinstance(n, ast.Return) and n.value is not None:
            for ifn, in_true in C.enclosing_ifs(gl, n):
                t = ast.unparse(ifn.test)
                if ".N" in t and in_true:
                    found = True
                    src = None
                    v = n.value
                    if isinstance(v, (ast.DictComp, ast.ListComp, ast.GeneratorExp)):
                        src = v.generators[0].iter
                    elif isinstance(v, ast.Call) and v.args and isinstance(
                            v.args[0], (ast.GeneratorExp, ast.ListComp)):
                        src = v.args[0].generators[0].iter
                    k = ctx.key(gl, "C02-ROOT", "root-branch")
                    if src is not None and dotted(src) == "self.output":
                        r.ok(k, C.loc(gl, n), "root legs iterate self.output in declared order")
                    else:
                        r.violation(k, C.loc(gl, n),
                                    "root legs are not an order-preserving iteration of "
                                    "self.output", value=C.unparse(v))
    if not found:
        raise AnalysisError("root special case of get_legs not recognised")
    return r


# ---- CORES -----------------------------------------------------------------


def _clears_cores_nodes(ctx, func, fl):
    """CFG node ids in func that (directly or through a callee that does so on
    all its paths) execute ``X.contraction_cores.clear()``."""
    out = []
    for n, call in fl.calls():
        fn = call.func
        if isinstance(fn, ast.Attribute) and fn.attr == "clear" and \
                isinstance(fn.value, ast.Attribute) and fn.value.attr == "contraction_cores":
            out.append(n.id)
            continue
        if isinstance(fn, ast.Attribute) and isinstance(fn.value, ast.Name):
            res = ctx.r.resolve_call(func, call)
            for c in res.callees:
                if c is func or c.cls is None:
                    continue
                if c.name in ("reset_contraction_indices",) or \
                        c.name.startswith(("remove_ind", "restore_ind", "set_state_from")):
                    if c.name == "set_state_from":
                        out.append(n.id)
                        break
                    fl2 = ctx.flow(c)
                    inner = [m.id for m, cc in fl2.calls()
                             if isinstance(cc.func, ast.Attribute) and cc.func.attr == "clear"
                             and isinstance(cc.func.value, ast.Attribute)
                             and cc.func.value.attr == "contraction_cores"]
                    inner += [m.id for m, cc in fl2.calls()
                              if isinstance(cc.func, ast.Attribute)
                              and cc.func.attr == "reset_contraction_indices"]
                    if inner and fl2.cfg.all_paths_pass(fl2.cfg.entry.id, inner):
                        out.append(n.id)
                        break
    return out


def rule_cores(ctx):
    r = RuleResult("C02-CORES", "compiled contractors dropped when the sliced set changes", 2)
    tc = tree_class(ctx)
    for f in tree_funcs(ctx, ctx.tier == "thorough"):
        if f.name in ("__init__", "set_state_from"):
            continue
        d = ctx.effects.direct(f)
        recvs = tree_receivers(ctx, f)
        muts = [a for a in d["access"] if a.attr == "sliced_inds" and a.kind in ("write", "mutate")
                and a.recv in recvs]
        if not muts:
            continue
        if f.cls is not None and f.cls.module.path != C.CORE:
            for a in muts:
                r.exempt(ctx.key(f, "C02-CORES", a.recv), a.loc,
                         "ContractionTreeMulti.sliced_inds is the table of variable indices of "
                         "a multi-contraction, not a sliced set of the executed contraction")
            continue
        # only receivers that are trees
        fl = ctx.flow(f)
        clears = _clears_cores_nodes(ctx, f, fl)
        for a in muts:
            cn = fl.cfg.containing(a.node, f.module.parents)
            k = ctx.key(f, "C02-CORES", a.recv)
            if cn is None:
                continue
            if fl.cfg.all_paths_pass(cn.id, clears):
                r.ok(k, a.loc, "sliced_inds change is followed by contraction_cores.clear() "
                     "on every normal path")
            else:
                p = fl.cfg.path_avoiding(cn.id, clears)
                r.violation(k, a.loc, "sliced_inds changes but a compiled contractor for the "
                            "old sliced set can survive (no contraction_cores.clear() on some "
                            "path to return)", path=fl.cfg.describe_path(p) if p else "")
    # (sensitivity map) the compiled contractor is built from the per-node recipes: whoever re-writes or drops
    # an order-sensitive key of existing nodes by hand (sorting the index orders, resetting them) must drop the
    # compiled contractors too, on every path — they embody the old axes / permutations / equations
    O = order_sensitive(ctx)
    for f in tree_funcs(ctx, ctx.tier == "thorough"):
        if f.name in ("__init__", "set_state_from", "_remove_node") or f.name.startswith("get_") or \
                (f.cls is not None and f.cls.module.path != C.CORE):
            continue
        if any((dotted(d.func) if isinstance(d, ast.Call) else dotted(d)) in ("cached_node_property",) for d in f.decorators):
            continue
        events = []
        for kind, key_, nodeexpr, n, val, keyexpr in C.info_key_accesses(f):
            keys = [key_] if key_ is not None else (C.loop_key_values(ctx, f, keyexpr, n) or [])
            if kind in ("store", "pop", "del") and any(k_ in O for k_ in keys):
                events.append(n)
        if not events:
            continue
        fl = ctx.flow(f)
        clears = _clears_cores_nodes(ctx, f, fl)
        k = ctx.key(f, "C02-CORES", "recipes")
        bad = None
        for ev in events:
            cn = fl.cfg.containing(ev, f.module.parents)
            if cn is not None and not fl.cfg.all_paths_pass(cn.id, clears):
                bad = ev
                break
        if bad is None:
            r.ok(k, f.loc, f"{len(events)} write(s)/drop(s) of order-sensitive recipes are followed by contraction_cores.clear() on every path")
        else:
            r.violation(k, C.loc(f, bad), f"`{C.unparse(C.enclosing_stmt(f, bad), 60)}` changes an order-sensitive recipe of an existing "
                        f"node, but a compiled contractor built from the old recipes can survive (no contraction_cores.clear() on "
                        f"some path to the return): the next contract() with the same options executes the old program")
    return r


def rule_corekey(ctx):
    """The per-tree memo of compiled contractors (``contraction_cores``) is looked up
    with a key built from the options: every option that is forwarded to the builder
    must be carried by the key itself (tuple membership), not through a projection
    such as a name or a hash, or a second request with different options executes
    the contractor compiled for the first one."""
    from .c13 import _carriers
    r = RuleResult("C02-COREKEY", "contractor memo key carries every forwarded option", 1)
    for f in tree_funcs(ctx, False):
        if f.cls is None:
            continue
        for n in walk_local(f.node):
            if not isinstance(n, ast.Assign) or not isinstance(n.value, ast.Call):
                continue
            tg = [t for t in n.targets if isinstance(t, ast.Subscript) and
                  isinstance(t.value, ast.Attribute) and t.value.attr == "contraction_cores"]
            if not tg:
                continue
            keyexpr = tg[0].slice
            inj, lossy = _carriers(ctx, f, keyexpr)
            build = n.value
            fwd = []
            for a in list(build.args) + [k.value for k in build.keywords]:
                for x in ast.walk(a):
                    if isinstance(x, ast.Name) and x.id in f.params and x.id != "self" \
                            and x.id not in fwd:
                        fwd.append(x.id)
            missing = [p_ for p_ in fwd if p_ not in inj]
            key = ctx.key(f, "C02-COREKEY")
            if missing:
                r.violation(key, C.loc(f, n), f"options {missing} are forwarded to "
                            f"{dotted(build.func)} but reach the memo key only through "
                            f"{sorted(lossy) or 'nothing'}: two requests differing in them share "
                            "one compiled contractor", key=C.unparse(keyexpr, 120))
            else:
                r.ok(key, C.loc(f, n), "every forwarded option is a member of the key tuple",
                     forwarded=fwd)
    return r


def rule_topo(ctx):
    """Executing a tree (and ``get_path``) in a caller-supplied order relies on
    ``traverse(order)`` producing children before parents.  In the ordered traversal a
    child is inserted by score, *bounded by its parent's current position*."""
    r = RuleResult("C02-TOPO", "ordered traversal keeps children before parents", 1)
    tc = tree_class(ctx)
    f = tc.lookup("_traverse_ordered")
    C.require(f is not None, "_traverse_ordered not found")
    key = ctx.key(f, "C02-TOPO")
    calls = [n for n in walk_local(f.node) if isinstance(n, ast.Call)
             and (dotted(n.func) or "").split(".")[-1] in ("bisect", "bisect_right", "bisect_left")]
    if not calls:
        r.exempt(key, f.loc, "the traversal no longer inserts by bisection: a different algorithm, "
                 "not decided by this rule")
        return r
    # the parent's position: ``node = queue[i]`` in the scanning loop
    pos_names = set()
    for n in walk_local(f.node):
        if isinstance(n, ast.Assign) and isinstance(n.value, ast.Subscript) and \
                isinstance(n.value.slice, ast.Name) and isinstance(n.value.value, ast.Name):
            pos_names.add(n.value.slice.id)

    def bound_ok(e):
        """the bound is the parent's position (or smaller): ``i``, ``i - k``, ``min(i, ...)``"""
        if isinstance(e, ast.Name):
            return e.id in pos_names or None
        if isinstance(e, ast.BinOp) and isinstance(e.op, ast.Sub) and isinstance(e.left, ast.Name) \
                and e.left.id in pos_names and isinstance(e.right, ast.Constant) and e.right.value >= 0:
            return True
        if isinstance(e, ast.BinOp) and isinstance(e.op, ast.Add) and isinstance(e.left, ast.Name) \
                and e.left.id in pos_names and isinstance(e.right, ast.Constant) and e.right.value > 0:
            return False
        if isinstance(e, ast.Call) and dotted(e.func) == "min":
            return True if any(bound_ok(a) for a in e.args) else None
        return None

    for c in calls:
        bounded = False
        verdicts = []
        if c.args and isinstance(c.args[0], ast.Subscript) and isinstance(c.args[0].slice, ast.Slice) \
                and c.args[0].slice.upper is not None:
            verdicts.append(bound_ok(c.args[0].slice.upper))          # bisect(scores[:i], s)
        if len(c.args) >= 4:
            verdicts.append(bound_ok(c.args[3]))                      # bisect(scores, s, lo, hi)
        for k in c.keywords:
            if k.arg == "hi":
                verdicts.append(bound_ok(k.value))
        par = f.module.parents.get(c)
        if isinstance(par, ast.Call) and dotted(par.func) == "min":
            verdicts.append(True if any(bound_ok(a) for a in par.args if a is not c) else None)
        if any(v is False for v in verdicts):
            r.violation(key, C.loc(f, c), f"`{C.unparse(c)}`: the search range includes the parent's own "
                        "position (off by one): a child that scores at least as high as its parent is "
                        "queued after it")
            continue
        if verdicts and all(v is None for v in verdicts):
            raise AnalysisError(f"{f.qual}: cannot relate the bisection bound in `{C.unparse(c)}` to the "
                                f"parent's position")
        bounded = any(v is True for v in verdicts)
        if bounded:
            # the bound names the parent's position only while the position variable has not been
            # advanced past an insertion that has not happened yet: in the block of the bisection
            # the order is  bisect -> insert(s) -> position += 1
            st = C.enclosing_stmt(f, c)
            par_ = f.module.parents.get(st)
            blk = None
            for fld in ("body", "orelse"):
                b = getattr(par_, fld, None)
                if isinstance(b, list) and any(x is st for x in b):
                    blk = b
            if blk is not None:
                bi = [i for i, x in enumerate(blk) if x is st][0]
                incs = [i for i, x in enumerate(blk) if isinstance(x, ast.AugAssign)
                        and isinstance(x.target, ast.Name) and x.target.id in pos_names]
                ins = [i for i, x in enumerate(blk) if any(
                    isinstance(y, ast.Call) and isinstance(y.func, ast.Attribute) and y.func.attr == "insert"
                    for y in ast.walk(x))]
                if any(i < bi for i in incs) or (ins and incs and min(incs) < max(ins)):
                    r.violation(key, C.loc(f, c), "the parent's position is advanced before the child is "
                                "searched for / inserted: the bisection range then includes the parent's own "
                                "slot and a child that scores at least as high as its parent lands after it")
                    continue
            r.ok(key, C.loc(f, c), "insertion position bounded by the parent's position")
        else:
            r.violation(key, C.loc(f, c), f"`{C.unparse(c)}` searches the whole queue: a child that "
                        "scores above its parent is queued after it, and the contraction list asks "
                        "for an intermediate that does not exist yet")
    return r


def rule_multpair(ctx):
    """Shared with C06-MULT: un-slicing restores the slice count that slicing recorded."""
    from .c06 import rule_multpair as src

    return C.reuse_rule(ctx, src, "C06-MULT", "C02-MULTPAIR",
                        "slice-count factor recorded on removal is the one removed on restore",
                        lambda i: True, 2)


def rule_rebuild(ctx):
    """Shared with C04-REBUILD."""
    from .c04 import rule_rebuild as src

    return C.reuse_rule(ctx, src, "C04-REBUILD", "C02-REBUILD",
                        "nodes are rebuilt bottom-up", lambda i: True, 1)


def rule_reorder(ctx):
    """A function that sets the index order (``inds``) of nodes by hand - the root
    of the order-sensitive keys - may do so only on a tree whose *derived* recipes
    (tensordot axes / permutation, einsum equation) are not cached: a whole-tree drop
    of the derived keys dominates the first such store on every path.  Otherwise a
    recipe computed from the old orders (by an earlier ``contract`` or
    ``print_contractions``) is executed against the new ones."""
    r = RuleResult("C02-REORDER", "index orders are only re-assigned on a tree without cached recipes", 1)
    O = order_sensitive(ctx)
    derived = O - {"inds"}
    for f in tree_funcs(ctx, False):
        if f.cls is None or f.cls.module.path != C.CORE:
            continue
        if f.parent_func is not None:
            continue  # the getter decorator's own store
        stores = [n for kind, key, ne, n, v, ke in C.info_key_accesses(f)
                  if kind == "store" and key == "inds"]
        if not stores:
            continue
        if f.name == "contract_nodes_pair":
            continue  # stores inds of a *new* node (nothing derived is cached for it); see C02-ROOT
        fl = ctx.flow(f)
        drops = [n.id for n, call in fl.calls() if _is_reset_call(ctx, f, call)]
        drops += _inline_reset_loops(ctx, f, fl, derived)
        key = ctx.key(f, "C02-REORDER")
        bad = None
        for st in stores:
            sn = fl.cfg.containing(st, f.module.parents)
            # every path from the entry to the store passes a whole-tree drop
            if sn is None or not drops or not fl.cfg.all_paths_pass(fl.cfg.entry.id, drops, dst=sn.id):
                bad = st
                break
        if bad is None:
            r.ok(key, f.loc, "recipes derived from the index orders are dropped before the orders are set")
        else:
            pth = fl.cfg.path_avoiding(fl.cfg.entry.id, drops, dst=fl.cfg.containing(bad, f.module.parents).id)
            r.violation(key, C.loc(f, bad), f"`{C.unparse(C.enclosing_stmt(f, bad), 60)}` sets a node's index "
                        f"order on a path on which the derived keys {sorted(derived)} were not dropped: a "
                        "recipe cached from the old order (earlier contract / print_contractions) is then "
                        "executed against the new order - wrong axes contracted or permuted",
                        path=fl.cfg.describe_path(pth) if pth else "")
    return r


def rule_slicearr(ctx):
    """Shared with C06-APPLY: a sliced/projected tree contracts to the right value only
    if the arrays are cut on every axis the tree considers removed."""
    from .c06 import rule_apply as src

    return C.reuse_rule(ctx, src, "C06-APPLY", "C02-SLICEARR",
                        "arrays are sliced on every axis of every sliced index",
                        lambda i: True, 2)


def rule_slicesum(ctx):
    """Shared with C06-COMBINE / C19-RESCALE (seed C02_10): slicing is one of the transformations; the
    sliced tree contracts to the same value only if the per-slice results are recombined exactly — summed
    by the exponent-aware adder, stacked at a common exponent with the factor `10 ** (own - largest)`."""
    from .c06 import rule_combine as src

    r = C.reuse_rule(ctx, src, "C06-COMBINE", "C02-SLICESUM",
                     "per-slice results of a sliced tree are recombined exactly", lambda i: True, 2)
    from .c06 import rule_radix, rule_stack
    for fn, old_id in ((rule_radix, "C06-RADIX"), (rule_stack, "C06-STACK")):
        for i in fn(ctx).instances:
            c = i.construct.replace(old_id, "C02-SLICESUM")
            if i.verdict == "violation":
                r.violation(c, i.loc, i.reason, **i.detail)
            elif i.verdict == "exempt":
                r.exempt(c, i.loc, i.reason)
            else:
                r.ok(c, i.loc, i.reason)
    return r


# ---- NODE ------------------------------------------------------------------


def rule_node(ctx):
    r = RuleResult("C02-NODE", "who may add/remove nodes", 3)
    tc = tree_class(ctx)
    allowed_del = {"_remove_node"}
    allowed_child_store = {"contract_nodes_pair"}
    thorough_child_store = {"get_cache_contrib", "reorder_contractions_for_peak_est"}
    for f in tree_funcs(ctx, ctx.tier == "thorough"):
        for n in walk_local(f.node):
            tgt = None
            what = None
            if isinstance(n, ast.Delete):
                for t in n.targets:
                    if isinstance(t, ast.Subscript) and isinstance(t.value, ast.Attribute) \
                            and t.value.attr in ("children", "info"):
                        tgt, what = t, f"del {t.value.attr}[...]"
            elif isinstance(n, ast.Assign):
                for t in n.targets:
                    if isinstance(t, ast.Subscript) and isinstance(t.value, ast.Attribute) \
                            and t.value.attr == "children":
                        tgt, what = t, "children[...] = "
                    # (seed C04_11) a whole per-node entry may only be *created empty*: putting a saved dict back
                    # under a node re-introduces the cached figures (involved, inds, ...) of the node that was removed
                    if isinstance(t, ast.Subscript) and isinstance(t.value, ast.Attribute) and t.value.attr == "info" \
                            and _root_name(t) in tree_receivers(ctx, f):
                        v = n.value
                        fresh = (isinstance(v, ast.Dict) and not v.keys) or \
                            (isinstance(v, ast.Call) and dotted(v.func) == "dict" and not v.args and not v.keywords)
                        k2 = ctx.key(f, "C02-NODE", "info[...] = ")
                        if fresh:
                            r.ok(k2, C.loc(f, n), "a per-node entry is created empty")
                        else:
                            r.violation(k2, C.loc(f, n), f"`{C.unparse(n, 60)}` installs an existing dictionary as a node's entry: "
                                        f"whatever it caches (involved, inds, einsum_eq, ...) describes the node as it was, not "
                                        f"the node re-created with other children — later slicing and cost updates start from it")
            elif isinstance(n, ast.Call) and isinstance(n.func, ast.Attribute) and \
                    n.func.attr in ("clear", "pop", "popitem"):
                v = n.func.value
                if isinstance(v, ast.Subscript) and isinstance(v.value, ast.Attribute) and \
                        v.value.attr == "info" and n.func.attr == "clear":
                    tgt, what = n, "info[...].clear()"
                elif isinstance(v, ast.Attribute) and v.attr in ("children", "info") and \
                        n.func.attr in ("pop", "popitem", "clear"):
                    tgt, what = n, f"{v.attr}.{n.func.attr}()"
            if tgt is None:
                continue
            base = tgt.func.value if isinstance(tgt, ast.Call) else tgt
            if _root_name(base) not in tree_receivers(ctx, f):
                continue  # same attribute name on a different kind of object
            k = ctx.key(f, "C02-NODE", what)
            if what.startswith("children[...] ="):
                ok = f.name in allowed_child_store or f.name in thorough_child_store
            else:
                ok = f.name in allowed_del
            if ok:
                r.ok(k, C.loc(f, n), "node-set mutation in its owner")
            else:
                r.violation(k, C.loc(f, n), f"{what} outside _remove_node/contract_nodes_pair: "
                            "the per-function invalidation rules no longer cover it")
    # _remove_node drops the whole info entry on every branch
    rn = tc.lookup("_remove_node")
    fl = ctx.flow(rn)
    drops = []
    for n in fl.cfg.nodes:
        if n.kind != "stmt":
            continue
        st = n.ast
        if isinstance(st, ast.Delete) and any(
            isinstance(t, ast.Subscript) and isinstance(t.value, ast.Attribute)
            and t.value.attr == "info" for t in st.targets):
            drops.append(n.id)
        if isinstance(st, ast.Expr) and isinstance(st.value, ast.Call) and \
                isinstance(st.value.func, ast.Attribute) and st.value.func.attr == "clear" and \
                isinstance(st.value.func.value, ast.Subscript) and \
                isinstance(st.value.func.value.value, ast.Attribute) and \
                st.value.func.value.value.attr == "info":
            drops.append(n.id)
    k = ctx.key(rn, "C02-NODE", "whole-entry")
    kept = [(n, key_) for kind, key_, _, n, _, _ in C.info_key_accesses(rn) if kind == "store"]
    if kept:
        r.violation(k, C.loc(rn, kept[0][0]), f"_remove_node re-inserts the cached entry "
                    f"'{kept[0][1]}' of the node it removes: a value computed for the old "
                    "structure / sliced set survives the removal")
    elif drops and fl.cfg.all_paths_pass(fl.cfg.entry.id, drops):
        r.ok(k, rn.loc, "every path through _remove_node drops the node's whole info entry")
    else:
        p = fl.cfg.path_avoiding(fl.cfg.entry.id, drops)
        r.violation(k, rn.loc, "a path through _remove_node keeps (part of) the node's cached "
                    "info", path=fl.cfg.describe_path(p) if p else "")
    return r


def rule_presurv(ctx):
    """Shared with C18-SURV: legs pre-supplied by the annealing move evaluator are
    cached as the node's legs and decide which indices are summed where."""
    from .c18 import rule_surv

    return C.reuse_rule(ctx, rule_surv, "C18-SURV", "C02-PRESURV",
                        "legs handed to contract_nodes_pair follow the tree's survival rule",
                        lambda i: C.ANNEAL in i.construct, 3)


def rule_pure(ctx):
    """``inplace=False`` transformations work on a copy: after
    ``tree = self if inplace else self.copy()`` (or before it) the state of ``self``
    itself is never written or mutated directly."""
    r = RuleResult("C02-PURE", "inplace=False transformations leave the original untouched", 8)
    for f in tree_funcs(ctx, ctx.tier == "thorough"):
        la = ctx.r.local_assignments(f)
        work = None
        for name, vals in la.items():
            for v in vals:
                if isinstance(v, ast.IfExp) and isinstance(v.test, ast.Name) and \
                        v.test.id == "inplace" and isinstance(v.body, ast.Name):
                    work = (name, v.body.id)
        if work is None:
            continue
        wname, orig = work
        key = ctx.key(f, "C02-PURE")
        bad = None
        for a in ctx.effects.direct(f)["access"]:
            if a.recv == orig and a.kind in ("write", "mutate") and wname != orig:
                bad = a
                break
        if bad is not None:
            r.violation(key, bad.loc, f"`{orig}.{bad.attr}` is modified directly although the "
                        f"transformation is supposed to work on `{wname}` (a copy unless "
                        "inplace=True): with inplace=False the original tree is left in a "
                        "half-updated state", stmt=C.unparse(C.enclosing_stmt(f, bad.node), 80))
        else:
            stale = _stale_reads_of_original(ctx, f, wname, orig) if wname != orig else []
            if stale:
                n, what, via = stale[0]
                r.violation(key, C.loc(f, n), f"`{what}` consults the original `{orig}` after the "
                            f"working tree `{wname}` was changed ({via}): with inplace=False "
                            "(or after reslice) the two differ, so the figures describe the wrong tree",
                            stmt=C.unparse(C.enclosing_stmt(f, n), 80))
            else:
                r.ok(key, f.loc, f"all state changes and later reads go through `{wname}`")
    return r


def transformation_state(ctx):
    """Attributes that tree methods other than the constructors write or mutate on
    their own object, minus lazily memoised ones (every write inside
    ``if <obj>.<attr> is None:``)."""
    if hasattr(ctx, "_c02_state"):
        return ctx._c02_state
    state, memo_only = set(), {}
    for f in tree_funcs(ctx, False):
        if f.cls is None or f.name in ("__init__", "set_state_from", "copy", "__setstate__"):
            continue
        own = ctx.effects.self_like(f)
        for a in ctx.effects.direct(f)["access"]:
            if a.recv in own and a.kind in ("write", "mutate"):
                state.add(a.attr)
                guarded = False
                cur = f.module.parents.get(a.node)
                while cur is not None and cur is not f.node:
                    if isinstance(cur, ast.If) and C.unparse(cur.test) == f"{a.recv}.{a.attr} is None":
                        guarded = True
                    cur = f.module.parents.get(cur)
                memo_only[a.attr] = memo_only.get(a.attr, True) and guarded
    ctx._c02_state = {a for a in state if not memo_only.get(a)}
    return ctx._c02_state


def _memo_guarded(f, a):
    """Access ``a`` in ``f`` is a write under ``if <recv>.<attr> is None:`` (lazy init)."""
    cur = f.module.parents.get(a.node)
    while cur is not None and cur is not f.node:
        if isinstance(cur, ast.If) and C.unparse(cur.test) == f"{a.recv}.{a.attr} is None":
            return True
        cur = f.module.parents.get(cur)
    return False


def real_writes(ctx, func):
    """Own-object attributes written or mutated by ``func`` and the same-family
    methods it reaches, not counting lazy initialisation of a memo attribute."""
    cache = ctx.__dict__.setdefault("_c02_real_writes", {})
    if func.key in cache:
        return cache[func.key]
    eff = ctx.effects
    out, seen, stack = set(), set(), [func]
    while stack:
        f = stack.pop()
        if f.key in seen:
            continue
        seen.add(f.key)
        own = eff.self_like(f)
        for a in eff.direct(f)["access"]:
            if a.recv in own and a.kind in ("write", "mutate") and not _memo_guarded(f, a):
                out.add(a.attr)
        for call, res in ctx.r.calls_in(f):
            fn = call.func
            recv = None
            if isinstance(fn, ast.Attribute) and isinstance(fn.value, ast.Name):
                recv = fn.value.id
            elif dotted(fn) in ("map", "filter") and call.args and \
                    isinstance(call.args[0], ast.Attribute) and isinstance(call.args[0].value, ast.Name):
                recv = call.args[0].value.id
            if recv in own:
                for c in res.callees:
                    if f.cls is None or c.cls is None or c.cls.is_subclass_of(f.cls) \
                            or f.cls.is_subclass_of(c.cls):
                        stack.append(c)
    cache[func.key] = out
    return out


# derived per-tree caches: filling them (contract_stats(), a getter) does not make the
# working tree differ from the original in any way a reader of the original could see;
# every real transformation also writes children / sliced_inds / multiplicity / ...
DERIVED_CACHES = {"info", "contraction_cores", "already_optimized", "_flops", "_write", "_sizes",
                  "_track_flops", "_track_write", "_track_size", "_default_objective"}


def _stale_reads_of_original(ctx, f, wname, orig):
    """Mentions of ``orig`` that are reachable from a statement changing ``wname``."""
    state = transformation_state(ctx) - DERIVED_CACHES
    fl = ctx.flow(f)
    parents = f.module.parents
    eff = ctx.effects
    changing = {}
    for call, res in ctx.r.calls_in(f):
        fn = call.func
        if isinstance(fn, ast.Attribute) and isinstance(fn.value, ast.Name) and fn.value.id == wname:
            w = set()
            for c in res.callees:
                w |= real_writes(ctx, c) & state
            if w:
                cn = fl.cfg.containing(call, parents)
                if cn is not None:
                    changing.setdefault(cn.id, [f"{wname}.{fn.attr}()", set()])[1].update(w)
    for a in eff.direct(f)["access"]:
        if a.recv == wname and a.kind in ("write", "mutate") and a.attr in state:
            cn = fl.cfg.containing(a.node, parents)
            if cn is not None:
                changing.setdefault(cn.id, [f"{wname}.{a.attr} written", set()])[1].add(a.attr)
    if not changing:
        return []
    after = {}   # node -> {attr: first statement that changed it on some path to node}
    for nid, (via, attrs) in changing.items():
        for m in fl.cfg.reachable_from_succs(nid):
            d = after.setdefault(m, {})
            for a in attrs:
                d.setdefault(a, via)
    out = []
    for n in walk_local(f.node):
        if not (isinstance(n, ast.Name) and n.id == orig and isinstance(n.ctx, ast.Load)):
            continue
        cn = fl.cfg.containing(n, parents)
        if cn is None or cn.id not in after:
            continue
        par = parents.get(n)
        if isinstance(par, ast.Attribute):
            gp = parents.get(par)
            if isinstance(gp, ast.Call) and gp.func is par:
                res = ctx.r.resolve_call(f, gp)
                reads = set()
                for c in res.callees:
                    reads |= eff.transitive(c)["read"] & set(after[cn.id])
                if reads:
                    a0 = sorted(reads)[0]
                    out.append((n, f"{orig}.{par.attr}() [reads {sorted(reads)[:4]}]", after[cn.id][a0]))
            elif par.attr in after[cn.id]:
                out.append((n, f"{orig}.{par.attr}", after[cn.id][par.attr]))
        elif isinstance(par, ast.IfExp) and isinstance(par.test, ast.Name) and par.test.id == "inplace":
            continue
        else:
            out.append((n, f"{orig} (passed on whole)", sorted(after[cn.id].values())[0]))
    return out


def rule_preproc(ctx):
    """Single-term preprocessing steps are registered lazily, as a side effect of
    computing leaf legs.  Whoever reads ``tree.preprocessing`` to build an executable
    contraction must have (eagerly) evaluated the per-node recipes first."""
    r = RuleResult("C02-PREPROC", "preprocessing is read only after the recipes are computed", 1)
    recipe = {"get_einsum_eq", "get_tensordot_axes", "get_tensordot_perm", "get_inds",
              "get_can_dot", "get_legs"}
    scope = [ctx.p.func(C.CONTRACT, "extract_contractions")]
    if ctx.tier == "thorough":
        scope += [f for f in ctx.p.all_funcs() if f not in scope]
    for f in scope:
        reads = [n for n in walk_local(f.node) if isinstance(n, ast.Attribute)
                 and n.attr == "preprocessing" and isinstance(n.ctx, ast.Load)
                 and not (isinstance(f.module.parents.get(n), ast.Attribute))]
        if not reads or f.cls is not None and f.name in (
                "has_preprocessing", "set_state_from", "_remove_node", "compute_leaf_legs",
                "print_contractions", "__init__"):
            continue
        if f.name != "extract_contractions" and f.cls is None and \
                not any(isinstance(c, ast.Call) and isinstance(c.func, ast.Attribute)
                        and c.func.attr in recipe for c in walk_local(f.node)):
            continue
        fl = ctx.flow(f)
        eager = []
        for n, call in fl.calls():
            if isinstance(call.func, ast.Attribute) and call.func.attr in recipe:
                # evaluated at this CFG node only if consumed eagerly there
                par = f.module.parents.get(call)
                lazy = False
                cur = call
                while cur is not None and cur is not n.ast:
                    if isinstance(cur, ast.GeneratorExp):
                        user = f.module.parents.get(cur)
                        if not (isinstance(user, ast.Call) and (
                                (isinstance(user.func, ast.Attribute) and user.func.attr in
                                 ("extend",)) or dotted(user.func) in ("list", "tuple", "sorted"))):
                            lazy = True
                    cur = f.module.parents.get(cur)
                if not lazy:
                    eager.append(n.id)
            if isinstance(call.func, ast.Attribute) and call.func.attr == "has_preprocessing":
                eager.append(n.id)
        key = ctx.key(f, "C02-PREPROC")
        early = None
        for rd in reads:
            cn = fl.cfg.containing(rd, f.module.parents)
            if cn is None or not any(fl.cfg.dominates(e, cn.id) and e != cn.id for e in eager):
                early = rd
        if early is None:
            r.ok(key, C.loc(f, reads[0]), f"{len(reads)} read(s), all after the recipes of every "
                 "node were evaluated")
        else:
            r.violation(key, C.loc(f, early), "tree.preprocessing is read before the per-node "
                        "recipes (which register the preprocessing steps lazily) have been "
                        "evaluated: on a fresh tree single-term simplifications are skipped")
    return r


def rule_copy(ctx):
    """Shared with C04-COPY: copying is one of the transformations of C02."""
    from .c04 import rule_copy as src

    return C.reuse_rule(ctx, src, "C04-COPY", "C02-COPY",
                        "copy completeness / no state shared between a tree and its copy",
                        lambda i: True, 20)


def rule_merge(ctx):
    """Shared with C18-MERGE (seed C01_4): annealing installs the legs, cost and size computed by the move
    evaluator on the new node (`contract_nodes_pair(legs=…, cost=…, size=…)`); they are the tree's own figures
    only if the evaluator merges the two leg tables by the tree's survival rule."""
    from .c18 import rule_merge as src

    return C.reuse_rule(ctx, src, "C18-MERGE", "C02-MERGE",
                        "figures installed by annealing moves follow the tree's survival rule", lambda i: True, 3)


RULES = [rule_merge, rule_keys, rule_deps, rule_lists, rule_closure, rule_reorder, rule_root, rule_cores, rule_corekey,
         rule_topo, rule_multpair, rule_rebuild, rule_slicearr, rule_slicesum, rule_node,
         rule_presurv, rule_pure, rule_copy, rule_preproc]
