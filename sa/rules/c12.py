"""C12 — the einsum front end (narrow: conventions of the string rewrites)."""

from __future__ import annotations

import ast

from ..engine.program import AnalysisError, dotted, walk_local
from ..engine.report import RuleResult
from . import common as C
from .c09 import _ev

PID = "C12"
EXPLANATION = (
    "Conformance with numpy.einsum for all call forms is NOT decided. Decided are the "
    "conventions of the front end's rewrites: (ELLIPSIS) the set of used symbols is complete "
    "before a fresh symbol is chosen and the choice tests `not in used`; an operand's '...' "
    "gets the LAST ne of the req ellipsis symbols (slice bound partially evaluated, including "
    "ne = 0); an explicit output's '...' gets all of them; an implicit output puts them first; "
    "(IMPLICIT) the two sorted-singles implementations agree, the label version keeps first-"
    "appearance order and never re-admits an index; (INTERLEAVED) operands at 2i, sublists at "
    "2i+1, output iff an odd count; (SINGLE) the single-operand fast paths are guarded by "
    "term == output / equal lengths and transpose in the right direction; (CANON) one renaming "
    "map for inputs, output, size_dict keys and edge paths; (NCON) negative labels are the "
    "outputs, in the order -1, -2, ... "
    "Later rounds added: "
    "(INTERLEAVED) decided for the loop form and the strided-slice form; the output "
    "branch is taken exactly for an odd argument count, never by truth value of the "
    "sublist; (CANON implicit-output) the label interface uses the order-of-appearance "
    "routine. "
    "Round 7: (BLANKS, defect F30) the caller's subscripts string is re-bound to a blank-free copy on every path to the splitter; (ELLIPSIS right-aligned) the symbol list an operand's '...' is sliced from does not grow inside the replacing loop. "
    'Round 8: (BACKEND, shared with C01/C11) the pairwise implementation behind the front end keeps its conventions. '
    "Round 8 (engine E9): (EXPAND) the ellipsis rewriting's source is evaluated on a bounded family of equations and compared with numpy's rule. "
    '(INTERLEAVEDEVAL) the interleaved conversion is evaluated on a bounded family of argument tuples. '
    'Round 9: (CANONALWAYS) the renaming of labels is guarded by the option alone; (INTERLEAVEDEVAL, defect F32) comparable labels are renamed monotonically when the output is implicit. '
)
ASSUMPTIONS = ("numpy right-aligns the dimensions an ellipsis stands for and puts them first in an "
               "implicit output",)


def _block(parents, st):
    p = parents.get(st)
    for fld in ("body", "orelse", "finalbody"):
        b = getattr(p, fld, None)
        if isinstance(b, list) and any(s is st for s in b):
            return b
    return [st]


def rule_ellipsis(ctx):
    r = RuleResult("C12-ELLIPSIS", "ellipsis expansion conventions", 4)
    f = ctx.p.func(C.UTILS, "parse_equation_ellipses")
    parents = f.module.parents
    # the set of used symbols and the list of fresh ones
    used = None
    # the collection the fresh-symbol choice is tested against, if any (`ix not in <used>`)
    tested = {dotted(n.comparators[0]) for n in walk_local(f.node) if isinstance(n, ast.Compare)
              and isinstance(n.ops[0], ast.NotIn) and isinstance(n.comparators[0], ast.Name)}
    for n in walk_local(f.node):
        if isinstance(n, ast.Call) and isinstance(n.func, ast.Attribute) and n.func.attr in ("update", "add") \
                and isinstance(n.func.value, ast.Name):
            st = C.enclosing_stmt(f, n)
            if C.enclosing_loops(f, st) and (used is None or n.func.value.id in tested):
                if used is not None and used[0] in tested and n.func.value.id not in tested:
                    continue
                used = (n.func.value.id, st)
    whole_used = None
    if used is None:
        # the collection may be built in one go from the whole left-hand side: `used = set(lhs)`
        for n in walk_local(f.node):
            if isinstance(n, ast.Assign) and len(n.targets) == 1 and isinstance(n.targets[0], ast.Name) and n.targets[0].id in tested \
                    and isinstance(n.value, ast.Call) and dotted(n.value.func) in ("set", "frozenset") and n.value.args \
                    and not C.enclosing_loops(f, n):
                src = {x.id for x in ast.walk(n.value.args[0]) if isinstance(x, ast.Name)}
                la_ = ctx.r.local_assignments(f)
                params_ = [a.arg for a in f.node.args.args]
                # everything left of '->' (or the whole equation)
                if src & ({params_[0]} | {nm for nm, vs in la_.items() if any(".split('->')" in C.unparse(v_) or '.split("->")' in C.unparse(v_) for v_ in vs)}):
                    whole_used = (n.targets[0].id, n)
    C.require(used is not None or whole_used is not None, "parse_equation_ellipses: collection of used symbols not found")
    uname, ust = used if used is not None else whole_used
    picks = [n for n in walk_local(f.node) if isinstance(n, ast.Compare) and isinstance(n.ops[0], ast.NotIn)
             and dotted(n.comparators[0]) == uname]
    k = ctx.key(f, "C12-ELLIPSIS", "fresh")
    if not picks:
        r.violation(k, f.loc, f"fresh symbols for '...' are not tested against `{uname}`: a symbol already "
                    f"used in the equation can be chosen and the two indices are identified")
    elif whole_used is not None:
        if ust.lineno < picks[0].lineno:
            r.ok(k, C.loc(f, picks[0]), f"`{uname}` holds every symbol left of '->' before symbols `not in {uname}` are chosen")
        else:
            r.violation(k, C.loc(f, picks[0]), f"fresh symbols are chosen before `{uname}` is built")
    else:
        pick_st = C.enclosing_stmt(f, picks[0])
        # the outermost loops of both, in one block, collection first
        def top(st):
            lp = C.enclosing_loops(f, st)
            return lp[-1] if lp else st
        a, b = top(ust), top(pick_st)
        blk = _block(parents, a)
        # (seed C12_1) every operand contributes its symbols: the collecting statement is not guarded
        # inside its loop (an operand without '...' uses symbols too)
        inner_guards = [i for i, _ in C.enclosing_ifs(f, ust)
                        if any(i is x for lp_ in C.enclosing_loops(f, ust) for x in ast.walk(lp_))]
        if inner_guards:
            r.violation(k, C.loc(f, ust), f"`{C.unparse(ust, 40)}` only runs under `{C.unparse(inner_guards[0].test, 40)}`: "
                        f"symbols of the operands that fail the test are not reserved, so the symbols chosen for "
                        f"'...' can coincide with an index of such an operand and the two are identified")
        elif a is b:
            r.violation(k, C.loc(f, picks[0]), f"fresh symbols are chosen inside the loop that still collects "
                        f"`{uname}`: symbols of later operands are not excluded yet")
        elif any(x is b for x in blk) and [i for i, x in enumerate(blk) if x is a][0] < \
                [i for i, x in enumerate(blk) if x is b][0]:
            r.ok(k, C.loc(f, picks[0]), f"`{uname}` is complete (all operands) before symbols `not in {uname}` are chosen")
        else:
            r.violation(k, C.loc(f, picks[0]), f"the choice of fresh symbols does not come after the loop that "
                        f"collects `{uname}` over all operands")
    # right alignment
    k = ctx.key(f, "C12-ELLIPSIS", "right-aligned")
    reps = [n for n in walk_local(f.node) if isinstance(n, ast.Call) and isinstance(n.func, ast.Attribute)
            and n.func.attr == "replace" and n.args and isinstance(n.args[0], ast.Constant)
            and n.args[0].value == "..."]
    C.require(len(reps) >= 2, "parse_equation_ellipses: '...' replacements not found")
    per_operand = [x for x in reps if C.enclosing_loops(f, C.enclosing_stmt(f, x))]
    whole = [x for x in reps if not C.enclosing_loops(f, C.enclosing_stmt(f, x))]
    C.require(per_operand, "parse_equation_ellipses: per-operand replacement not found")
    rep = per_operand[0]
    lp = C.enclosing_loops(f, C.enclosing_stmt(f, rep))[0]
    sl = [x for x in ast.walk(rep.args[1]) if isinstance(x, ast.Subscript) and isinstance(x.slice, ast.Slice)]
    growing = None
    if sl:
        base = dotted(sl[0].value)
        for n in ast.walk(lp):
            if isinstance(n, ast.Call) and isinstance(n.func, ast.Attribute) and n.func.attr in ("append", "extend", "insert") \
                    and dotted(n.func.value) == base:
                growing = n
            if isinstance(n, ast.AugAssign) and dotted(n.target) == base:
                growing = n
    if not sl:
        r.violation(k, C.loc(f, rep), "every operand's '...' is replaced by the same symbols regardless of how "
                    "many dimensions it stands for")
    elif growing is not None:
        r.violation(k, C.loc(f, growing), f"(seed C12_7) `{C.unparse(growing, 50)}` inside the loop that replaces the operands' '...': an operand "
                    f"seen before a longer ellipsis takes the last symbols of a list that is still growing, so its broadcast "
                    f"dimensions line up with the *leading* dimensions of the longer one (numpy aligns them to the right)")
    else:
        s0 = sl[0]
        # names: the per-operand count is the loop's value variable; req is the other name in the bound
        tnames = [e.id for e in ast.walk(lp.target) if isinstance(e, ast.Name)]
        ne_name = tnames[-1]
        others = {x.id for b in (s0.slice.lower, s0.slice.upper) if b is not None for x in ast.walk(b)
                  if isinstance(x, ast.Name)} - {ne_name}
        bad = None
        for req, ne in ((3, 0), (3, 1), (3, 2), (3, 3), (1, 1), (5, 2)):
            env = {ne_name: ne}
            for o in others:
                env[o] = req
            env["len"] = req
            try:
                lo = _ev(s0.slice.lower, env) if s0.slice.lower is not None else None
                up = _ev(s0.slice.upper, env) if s0.slice.upper is not None else None
            except AnalysisError as e:
                raise AnalysisError(f"parse_equation_ellipses: slice bound not evaluable: {e}")
            got = list(range(req))[lo:up]
            want = list(range(req))[req - ne:] if ne else []
            if got != want and bad is None:
                bad = (req, ne, got, want)
        if bad:
            req, ne, got, want = bad
            r.violation(k, C.loc(f, rep), f"with {req} ellipsis symbols an operand whose '...' stands for {ne} "
                        f"dimension(s) gets symbols {got} instead of the last {ne} ({want}): broadcast dimensions "
                        f"are right-aligned")
        else:
            r.ok(k, C.loc(f, rep), f"`{C.unparse(s0, 50)}` = the last ne symbols (checked for ne = 0..req)")
    # explicit output gets all; implicit output puts them first
    k = ctx.key(f, "C12-ELLIPSIS", "explicit-output")
    all_names = set()
    for n in walk_local(f.node):
        if isinstance(n, ast.Assign) and isinstance(n.targets[0], ast.Name) and isinstance(n.value, ast.Call) \
                and isinstance(n.value.func, ast.Attribute) and n.value.func.attr == "join" and n.value.args \
                and isinstance(n.value.args[0], ast.Name):
            all_names.add(n.targets[0].id)
    if whole and any(dotted(w.args[1]) in all_names for w in whole):
        r.ok(k, C.loc(f, whole[0]), "an explicit output's '...' is replaced by all ellipsis symbols")
    else:
        r.violation(k, f.loc, "an explicit output's '...' is not replaced by the full list of ellipsis symbols")
    k = ctx.key(f, "C12-ELLIPSIS", "implicit-output")
    adds = [n for n in walk_local(f.node) if isinstance(n, ast.Assign) and isinstance(n.value, ast.BinOp)
            and isinstance(n.value.op, ast.Add) and "find_output_str" in C.unparse(n.value)]
    if not adds:
        r.violation(k, f.loc, "the implicit output of an equation with '...' is not (ellipsis symbols + sorted singles)")
    else:
        v = adds[0].value
        if dotted(v.left) in all_names and "find_output_str" in C.unparse(v.right):
            r.ok(k, C.loc(f, adds[0]), "implicit output = ellipsis symbols, then the sorted singles")
        else:
            r.violation(k, C.loc(f, adds[0]), f"`{C.unparse(v, 60)}`: the dimensions an ellipsis stands for must "
                        f"come first in an implicit output")
    return r


def rule_implicit(ctx):
    r = RuleResult("C12-IMPLICIT", "implicit outputs are ordered as documented", 3)
    for path, name in ((C.UTILS, "find_output_str"), (C.CONTRACT, "_sanitize_equation")):
        f = ctx.p.func(path, name)
        k = ctx.key(f, "C12-IMPLICIT", "sorted-singles")
        gens = [n for n in walk_local(f.node) if isinstance(n, ast.GeneratorExp)]
        ok = False
        why = "no generator over sorted(set(...)) with count == 1 found"
        for g in gens:
            gen = g.generators[0]
            it = gen.iter
            srt = isinstance(it, ast.Call) and dotted(it.func) == "sorted" and it.args and \
                isinstance(it.args[0], ast.Call) and dotted(it.args[0].func) == "set"
            cnt = any(isinstance(c, ast.Compare) and isinstance(c.ops[0], ast.Eq)
                      and isinstance(c.comparators[0], ast.Constant) and c.comparators[0].value == 1
                      and "count" in C.unparse(c.left) for i in gen.ifs for c in ast.walk(i))
            if srt and cnt:
                ok = True
            elif cnt and not srt:
                why = f"singles are taken in the order of `{C.unparse(it, 40)}`, not sorted"
            elif srt and not cnt:
                why = "the filter is not `count == 1`"
        if ok:
            r.ok(k, f.loc, "indices appearing exactly once, in sorted order")
        else:
            r.violation(k, f.loc, why)
    f = ctx.p.func(C.UTILS, "find_output_from_inputs")
    k = ctx.key(f, "C12-IMPLICIT", "appearance-order")
    ifs = [n for n in walk_local(f.node) if isinstance(n, ast.If) and isinstance(n.test, ast.Compare)
           and isinstance(n.test.ops[0], (ast.In, ast.NotIn))]
    C.require(ifs, "find_output_from_inputs: membership test not found")
    i0 = ifs[0]
    seen = dotted(i0.test.comparators[0])
    again, first = (i0.body, i0.orelse) if isinstance(i0.test.ops[0], ast.In) else (i0.orelse, i0.body)
    pops = any(isinstance(c, ast.Call) and isinstance(c.func, ast.Attribute) and c.func.attr in ("pop", "discard")
               for s in again for c in ast.walk(s)) or any(isinstance(s, ast.Delete) for s in again)
    adds_seen = any(isinstance(c, ast.Call) and isinstance(c.func, ast.Attribute) and c.func.attr == "add"
                    and dotted(c.func.value) == seen for s in first for c in ast.walk(s))
    stores = any(isinstance(x, ast.Subscript) and isinstance(x.ctx, ast.Store) for s in first for x in ast.walk(s))
    rets = [n for n in walk_local(f.node) if isinstance(n, ast.Return)]
    ret_ok = rets and isinstance(rets[0].value, ast.Call) and dotted(rets[0].value.func) in ("tuple", "list")
    if pops and adds_seen and stores and ret_ok:
        r.ok(k, f.loc, "first appearance admits an index, the second removes it for good; order of appearance")
    else:
        r.violation(k, f.loc, "the order-of-appearance output is not maintained as (admit at first appearance, "
                    "drop at the second, remember that it was seen)")
    return r


def _odd_test(t, nname):
    """True iff `t` is (equivalent on small counts to) 'the argument count is odd'."""
    if isinstance(t, ast.Compare) and len(t.ops) == 1 and isinstance(t.left, ast.BinOp) and isinstance(t.left.op, ast.Mod):
        try:
            return all(({ast.Eq: lambda a, b: a == b, ast.NotEq: lambda a, b: a != b}[type(t.ops[0])])(
                _ev(t.left, {nname: n_}), _ev(t.comparators[0], {nname: n_})) == (n_ % 2 == 1)
                for n_ in (2, 3, 4, 5))
        except (KeyError, AnalysisError):
            return False
    if isinstance(t, ast.BinOp) and isinstance(t.op, ast.Mod):
        # bare `n % 2` as a truth value
        try:
            return all(bool(_ev(t, {nname: n_})) == (n_ % 2 == 1) for n_ in (2, 3, 4, 5))
        except AnalysisError:
            return False
    return False


def rule_interleaved(ctx):
    r = RuleResult("C12-INTERLEAVED", "interleaved call form", 2)
    f = ctx.p.func(C.UTILS, "convert_from_interleaved")
    nname = None
    for n in walk_local(f.node):
        if isinstance(n, ast.Assign) and isinstance(n.value, ast.Call) and dotted(n.value.func) == "len":
            nname = n.targets[0].id
    C.require(nname, "convert_from_interleaved: argument count not found")
    argname = f.node.args.vararg.arg if f.node.args.vararg else (f.node.args.args[0].arg if f.node.args.args else None)
    C.require(argname, "convert_from_interleaved: argument tuple not found")
    k = ctx.key(f, "C12-INTERLEAVED", "positions")
    loops = [n for n in walk_local(f.node) if isinstance(n, ast.For)
             and isinstance(n.iter, ast.Call) and dotted(n.iter.func) == "range"]
    slices = [n for n in walk_local(f.node) if isinstance(n, ast.Subscript) and dotted(n.value) == argname
              and isinstance(n.slice, ast.Slice)]
    bad = None
    where = f.node
    if loops:
        lp = where = loops[0]
        C.require(isinstance(lp.target, ast.Name), "convert_from_interleaved: counter not found")
        apps = [n for n in ast.walk(lp) if isinstance(n, ast.Call) and isinstance(n.func, ast.Attribute)
                and n.func.attr == "append" and n.args and isinstance(n.args[0], ast.Subscript)]
        C.require(len(apps) == 2, "convert_from_interleaved: the two appends not found")
        for nargs in (2, 3, 4, 5, 6, 7):
            try:
                rng = list(range(*[_ev(a, {nname: nargs}) for a in lp.iter.args]))
                got = [tuple(_ev(a.args[0].slice, {nname: nargs, lp.target.id: i}) for a in apps) for i in rng]
            except AnalysisError as e:
                raise AnalysisError(f"convert_from_interleaved: {e}")
            want = [(2 * i, 2 * i + 1) for i in range(nargs // 2)]
            if got != want and bad is None:
                bad = (nargs, got, want)
    elif len(slices) == 2:
        # strided-slice form: arrays = args[0:n-1:2]; inputs = args[1:n:2]
        # which of the two is the list of operands: the one whose name is returned as it is
        ret_names = {x.id for n in walk_local(f.node) if isinstance(n, ast.Return) and n.value is not None
                     for x in ast.walk(n.value) if isinstance(x, ast.Name)}

        def tname(s_):
            st = C.enclosing_stmt(f, s_)
            return st.targets[0].id if isinstance(st, ast.Assign) and isinstance(st.targets[0], ast.Name) else None
        slices.sort(key=lambda s_: (tname(s_) not in ret_names, s_.lineno, s_.col_offset))
        C.require(tname(slices[0]) in ret_names and tname(slices[1]) not in ret_names,
                  "convert_from_interleaved: operand and sublist slices not told apart")
        where = slices[0]
        for nargs in (2, 3, 4, 5, 6, 7):
            cols = []
            for s_ in slices:
                try:
                    lo, up, stp = (None if b_ is None else _ev(b_, {nname: nargs})
                                   for b_ in (s_.slice.lower, s_.slice.upper, s_.slice.step))
                except AnalysisError as e:
                    raise AnalysisError(f"convert_from_interleaved: {e}")
                cols.append(list(range(nargs))[lo:up:stp])
            got = list(zip(*cols)) if len(cols[0]) == len(cols[1]) else cols
            want = [(2 * i, 2 * i + 1) for i in range(nargs // 2)]
            if got != want and bad is None:
                bad = (nargs, got, want)
    else:
        raise AnalysisError("convert_from_interleaved: neither the index loop nor two strided slices of the "
                            "arguments found")
    if bad:
        r.violation(k, C.loc(f, where), f"for {bad[0]} arguments the (operand, sublist) positions read are {bad[1]}, "
                    f"expected {bad[2]}")
    else:
        r.ok(k, C.loc(f, where), "operands at 2i, sublists at 2i + 1 for i < n // 2")
    # output: the branch that writes '->' into the equation
    k = ctx.key(f, "C12-INTERLEAVED", "output")
    arrow = [n for n in walk_local(f.node) if isinstance(n, ast.If)
             and any(isinstance(x, ast.Constant) and isinstance(x.value, str) and "->" in x.value
                     for s_ in n.body for x in ast.walk(s_))]
    C.require(arrow, "convert_from_interleaved: the branch that appends the output not found")
    i = arrow[0]
    t = i.test
    la = ctx.r.local_assignments(f)

    def last_of_args(e):
        return isinstance(e, ast.Subscript) and dotted(e.value) == argname and C.unparse(e.slice) == "-1"

    verdict = None
    only_count = {x.id for x in ast.walk(t) if isinstance(x, ast.Name)} == {nname}
    if only_count and not _odd_test(t, nname):
        verdict = "not-last"
    elif _odd_test(t, nname):
        src = [x for s_ in i.body for x in ast.walk(s_) if last_of_args(x)]
        names = {x.id for s_ in i.body for x in ast.walk(s_) if isinstance(x, ast.Name)}
        via = [nm for nm in names if any(last_of_args(y) for v in la.get(nm, []) for y in ast.walk(v))]
        verdict = "ok" if (src or via) else "not-last"
    else:
        # a local that holds the last argument when the count is odd, and None otherwise
        nm = None
        form = None
        if isinstance(t, ast.Name):
            nm, form = t.id, "truth"
        elif isinstance(t, ast.Compare) and isinstance(t.left, ast.Name) and len(t.ops) == 1 and \
                isinstance(t.comparators[0], ast.Constant) and t.comparators[0].value is None:
            nm, form = t.left.id, ("isnot" if isinstance(t.ops[0], ast.IsNot) else "other")
        defs = la.get(nm, []) if nm else []
        holder = len(defs) == 1 and isinstance(defs[0], ast.IfExp) and _odd_test(defs[0].test, nname) and \
            last_of_args(defs[0].body) and isinstance(defs[0].orelse, ast.Constant) and defs[0].orelse.value is None
        if holder and form == "isnot":
            verdict = "ok"
        elif holder and form == "truth":
            verdict = "truthiness"
        else:
            raise AnalysisError(f"convert_from_interleaved: test `{C.unparse(t, 60)}` of the output branch not classified")
    if verdict == "ok":
        r.ok(k, C.loc(f, i), "an output sublist is read (from the last argument) iff the argument count is odd")
    elif verdict == "truthiness":
        r.violation(k, C.loc(f, i), f"`if {C.unparse(t)}:` tests the output sublist by truth value: an explicit "
                    f"*empty* output (`einsum(x, [0, 1], y, [1, 2], [])`, full contraction to a scalar) is falsy and "
                    f"is treated as 'no output given'")
    else:
        r.violation(k, C.loc(f, i), "the output sublist is not taken from the last argument exactly when the number of "
                    "arguments is odd")
    return r


def rule_single(ctx):
    r = RuleResult("C12-SINGLE", "single-operand fast paths", 2)
    f = ctx.p.func(C.INTERFACE, "_build_expression")
    tops = [n for n in f.node.body if isinstance(n, ast.If) and "len(" in C.unparse(n.test) and "== 1" in C.unparse(n.test)]
    C.require(tops, "_build_expression: single-operand branch not found")
    one = tops[0]
    chain = [n for n in one.body if isinstance(n, ast.If)]
    C.require(chain, "_build_expression: fast-path chain not found")
    c0 = chain[0]
    # names of the operand's term and the output
    k = ctx.key(f, "C12-SINGLE", "noop")
    t = c0.test
    if isinstance(t, ast.Compare) and isinstance(t.ops[0], ast.Eq) and \
            isinstance(t.left, ast.Name) and isinstance(t.comparators[0], ast.Name):
        term, out = t.left.id, t.comparators[0].id
        r.ok(k, C.loc(f, c0), f"the operand is returned unchanged only under `{C.unparse(t)}`")
    else:
        r.violation(k, C.loc(f, c0), f"the 'nothing to do' fast path is taken under `{C.unparse(t, 60)}`, not "
                    f"under equality of the operand's term and the output")
        return r
    k = ctx.key(f, "C12-SINGLE", "transpose")
    nxt = c0.orelse[0] if c0.orelse and isinstance(c0.orelse[0], ast.If) else None
    if nxt is None:
        r.ok(k, C.loc(f, c0), "no transposition fast path (everything else goes through einsum)")
        return r
    tt = nxt.test
    same_len = isinstance(tt, ast.Compare) and isinstance(tt.ops[0], ast.Eq) and \
        {C.unparse(tt.left), C.unparse(tt.comparators[0])} == {f"len({term})", f"len({out})"}
    perms = [n for s in nxt.body for n in ast.walk(s) if isinstance(n, ast.Call) and dotted(n.func) == "tuple"]
    direction = None
    for p in perms:
        a = p.args[0] if p.args else None
        if isinstance(a, ast.Call) and dotted(a.func) == "map" and isinstance(a.args[0], ast.Attribute) \
                and a.args[0].attr in ("index", "find"):
            direction = (dotted(a.args[0].value), dotted(a.args[1]))
        elif isinstance(a, ast.GeneratorExp) and isinstance(a.elt, ast.Call) and isinstance(a.elt.func, ast.Attribute) \
                and a.elt.func.attr in ("index", "find"):
            direction = (dotted(a.elt.func.value), dotted(a.generators[0].iter))
    if not same_len:
        r.violation(k, C.loc(f, nxt), f"the transposition fast path is taken under `{C.unparse(tt, 60)}`: an operand "
                    f"with traced or summed indices has another number of axes than the output")
    elif direction == (term, out):
        r.ok(k, C.loc(f, nxt), f"permutation = position in `{term}` of each output index")
    elif direction == (out, term):
        r.violation(k, C.loc(f, nxt), "the permutation lists, for each axis of the operand, its position in the "
                    "output (the inverse): right only for swaps")
    else:
        raise AnalysisError("_build_expression: transposition fast path not recognised")
    return r


def rule_canon(ctx):
    r = RuleResult("C12-CANON", "one renaming map for every label-carrying argument", 4)
    f = ctx.p.func(C.UTILS, "canonicalize_inputs")
    # the map
    mp = None
    for n in walk_local(f.node):
        if isinstance(n, ast.Assign) and isinstance(n.targets[0], ast.Name) and "defaultdict" in C.unparse(n.value):
            mp = n.targets[0].id
    C.require(mp is not None, "canonicalize_inputs: renaming map not found")
    rets = [n for n in walk_local(f.node) if isinstance(n, ast.Return) and isinstance(n.value, ast.Tuple)]
    C.require(rets and len(rets[0].value.elts) == 4, "canonicalize_inputs: 4-tuple return not found")
    fl = ctx.flow(f)
    at = fl.cfg.containing(rets[0], f.module.parents)
    labels = {0: "inputs", 1: "output", 2: "size_dict", 3: "optimize"}
    for i, e in enumerate(rets[0].value.elts):
        k = ctx.key(f, "C12-CANON", labels[i])
        defs = fl.defs_reaching(e.id, at.id) if isinstance(e, ast.Name) else []
        probs = []
        n_mapped = 0
        for d in defs:
            v = d.value
            if v is None:
                continue
            txt = C.unparse(v, 300)
            uses_map = f"{mp}[" in txt
            carries = labels[i] in {x.id for x in ast.walk(v) if isinstance(x, ast.Name)}
            if uses_map:
                n_mapped += 1
            elif carries:
                # the caller's labels reach the result untranslated
                st = fl.cfg.nodes[d.node].ast
                guards = [C.unparse(g.test, 40) for g, _ in C.enclosing_ifs(f, st)] if st is not None else []
                edge_guard = any("is_edge_path" in g for g in guards)
                if labels[i] == "optimize" and edge_guard and not _in_true_branch_of(f, st, "is_edge_path"):
                    continue  # an explicit position path carries no labels
                probs.append(f"`{C.unparse(v, 50)}` hands the caller's labels on without renaming")
        if probs:
            r.violation(k, f.loc, f"{labels[i]}: {probs[0]}; the other arguments are renamed, so the labels no "
                        f"longer refer to the same indices")
        elif n_mapped == 0 and labels[i] in ("inputs", "output", "size_dict"):
            r.violation(k, f.loc, f"{labels[i]} is never translated through `{mp}`")
        else:
            r.ok(k, f.loc, f"{labels[i]}: {n_mapped} definition(s) through `{mp}[...]`"
                 + (" / derived from renamed inputs" if n_mapped < len([d for d in defs if d.value is not None]) else ""))
    # (seed C12_5) with no output given, the label interface keeps the indices that appear once *in order of
    # first appearance*; the string front end sorts them.  The two agree only while code-point order equals
    # appearance order of the canonical symbols (26 labels: 'A' < 'a'), so the canonical output of the label
    # interface must come from the order-of-appearance routine
    k = ctx.key(f, "C12-CANON", "implicit-output")
    calls = [n for n in walk_local(f.node) if isinstance(n, ast.Call) and (dotted(n.func) or "").split(".")[-1]
             in ("find_output_from_inputs", "find_output_str")]
    implicit = [c for c in calls if any((not in_true and "output is not None" in C.unparse(g.test)) or
                                        (in_true and "output is None" in C.unparse(g.test))
                                        for g, in_true in C.enclosing_ifs(f, C.enclosing_stmt(f, c)))]
    if not implicit:
        raise AnalysisError("canonicalize_inputs: the implicit-output branch was not recognised")
    sorted_ones = [c for c in implicit if (dotted(c.func) or "").endswith("find_output_str")]
    if sorted_ones:
        r.violation(k, C.loc(f, sorted_ones[0]), f"`{C.unparse(sorted_ones[0], 50)}`: the implicit output of the label interface is "
                    f"computed by the *sorting* routine; canonical symbols are handed out a-z then A-Z, and 'A' sorts before 'a', "
                    f"so with more than 26 labels the output axes are no longer in order of first appearance")
    else:
        r.ok(k, C.loc(f, implicit[0]), "implicit output of the label interface = indices appearing once, in order of first appearance")
    return r


def _in_true_branch_of(f, st, frag):
    for g, in_true in C.enclosing_ifs(f, st):
        if frag in C.unparse(g.test, 60):
            return in_true
    return False


def rule_ncon(ctx):
    r = RuleResult("C12-NCON", "ncon: negative labels are the outputs in the order -1, -2, ...", 2)
    f = ctx.p.func(C.INTERFACE, "ncon")
    k = ctx.key(f, "C12-NCON", "negative")
    tests = [n for n in walk_local(f.node) if isinstance(n, ast.Compare) and isinstance(n.comparators[0], ast.Constant)
             and n.comparators[0].value == 0]
    if tests and all(isinstance(t.ops[0], ast.Lt) for t in tests):
        r.ok(k, C.loc(f, tests[0]), "a label is an output iff it is a negative integer")
    else:
        r.violation(k, f.loc, "outputs are not selected by `label < 0`")
    k = ctx.key(f, "C12-NCON", "order")
    srt = [n for n in walk_local(f.node) if isinstance(n, ast.Call) and dotted(n.func) == "sorted"]
    desc = any(any(kw.arg == "reverse" and isinstance(kw.value, ast.Constant) and kw.value.value is True
                   for kw in s_.keywords) for s_ in srt)
    neg_key = any(any(kw.arg == "key" and "-" in C.unparse(kw.value) for kw in s_.keywords) for s_ in srt)
    if srt and (desc or neg_key):
        r.ok(k, C.loc(f, srt[0]), "outputs sorted descending: -1, -2, -3, ...")
    else:
        r.violation(k, f.loc, "the output labels are not sorted in descending order: the result's axes come out as "
                    "..., -2, -1 (or in hash order)")
    return r


def _strips_blanks(e):
    """`X.replace(" ", "")`, `"".join(X.split())`, `re.sub(r"\\s+", "", X)` somewhere in the expression."""
    for c in ast.walk(e):
        if isinstance(c, ast.Call) and isinstance(c.func, ast.Attribute):
            if c.func.attr == "replace" and len(c.args) >= 2 and isinstance(c.args[0], ast.Constant) and c.args[0].value == " " \
                    and isinstance(c.args[1], ast.Constant) and c.args[1].value == "":
                return True
            if c.func.attr == "join" and isinstance(c.func.value, ast.Constant) and c.func.value.value == "" and c.args and \
                    any(isinstance(x, ast.Call) and isinstance(x.func, ast.Attribute) and x.func.attr == "split" and not x.args for x in ast.walk(c.args[0])):
                return True
            if c.func.attr == "translate":
                return True
        if isinstance(c, ast.Call) and dotted(c.func) in ("re.sub",) and len(c.args) >= 2 and isinstance(c.args[1], ast.Constant) and c.args[1].value == "":
            return True
    return False


def rule_blanks(ctx):
    """(defect F30) numpy ignores blanks in the subscripts string (`'ij, jk -> ik'`); every symbol of the string
    the front end splits becomes an index label, so a blank that survives is a label of its own (size mismatch,
    or — in the shape-only interfaces — silently another network).  On every CFG path from the place the caller's
    string is taken out of `args` to the call that splits it, the string is re-bound to a blank-free copy (or the
    splitter does that itself before its first `split`)."""
    r = RuleResult("C12-BLANKS", "blanks in the equation string are dropped before it is split", 1)
    f = ctx.p.func(C.UTILS, "parse_einsum_input")
    g = ctx.p.func(C.UTILS, "parse_equation_ellipses")
    C.require(f is not None and g is not None, "parse_einsum_input / parse_equation_ellipses not found")
    fl = ctx.flow(f)
    cfg = fl.cfg
    k = ctx.key(f, "C12-BLANKS")
    # the splitter may normalise on its own
    gp = [a.arg for a in g.node.args.args][0]
    first_split = min((n.lineno for n in walk_local(g.node) if isinstance(n, ast.Call) and isinstance(n.func, ast.Attribute)
                       and n.func.attr == "split" and dotted(n.func.value) == gp), default=None)
    own = any(isinstance(n, ast.Assign) and any(isinstance(t, ast.Name) and t.id == gp for t in n.targets) and _strips_blanks(n.value)
              and (first_split is None or n.lineno < first_split) for n in walk_local(g.node))
    calls = [(n, c) for n, c in fl.calls() if dotted(c.func) == "parse_equation_ellipses" and c.args]
    C.require(calls, "parse_einsum_input: call of parse_equation_ellipses not found")
    p0 = [a.arg for a in f.node.args.args][0]
    births, eqn = [], None
    for n in cfg.nodes:
        st = n.ast
        if n.kind == "stmt" and isinstance(st, ast.Assign) and isinstance(st.value, ast.Name) and st.value.id == p0:
            for t in st.targets:
                if isinstance(t, (ast.Tuple, ast.List)) and t.elts and isinstance(t.elts[0], ast.Name):
                    births.append(n)
                    eqn = t.elts[0].id
    C.require(births, "parse_einsum_input: `eq, *arrays = args` not found")
    strips = [n.id for n in cfg.nodes if n.kind == "stmt" and isinstance(n.ast, ast.Assign)
              and any(isinstance(t, ast.Name) and t.id == eqn for t in n.ast.targets) and _strips_blanks(n.ast.value)]
    bad = None
    for cn, c in calls:
        if _strips_blanks(c.args[0]) or own:
            continue
        for b in births:
            p_ = cfg.path_avoiding(b.id, strips, cn.id)
            if p_ is not None:
                bad = (c, p_)
    if bad:
        r.violation(k, C.loc(f, bad[0]), "the caller's equation string reaches `parse_equation_ellipses` — which splits it into one label per "
                    "character — with its blanks: `einsum('ij, jk -> ik', a, b)`, which numpy accepts, raises (or, with shapes only, "
                    "describes another network)", path=cfg.describe_path(bad[1]))
    else:
        r.ok(k, C.loc(f, calls[0][1]), "the string is re-bound to a blank-free copy on every path to the splitter")
    return r


def rule_backend(ctx):
    """Shared with C01-BACKEND / C11 (seed C12_9): `cotengra.einsum` on numpy arrays executes every pairwise step with
    the library's own matmul-based einsum, so 'returns the same array as numpy' depends on that planner's layouts,
    reshape guards (size-1 axes are dropped before the matmul and put back by the output reshape) and stage order."""
    from .c01 import rule_backend as src

    return C.reuse_rule(ctx, src, "C01-BACKEND", "C12-BACKEND",
                        "the pairwise implementation behind the front end keeps its conventions", lambda i: True, 9)


def rule_expand(ctx):
    """(engine E9) The rewriting of an equation with ellipses is a pure function of (equation, shapes).  Its source —
    with `check_ellipsis`, `find_output_str` and `get_symbol` — is evaluated by the engine's mini-evaluator on every
    equation of a bounded family (one to three operands, named parts over two symbols, an ellipsis of rank 0–2 at
    any position or none, implicit and explicit outputs) and the result is compared with numpy's rule: every
    operand's '...' becomes the *last* k of K fresh symbols, the fresh symbols are distinct and none of them is
    used in the equation, an explicit output's '...' becomes all K, an implicit output is the K fresh symbols
    followed by the sorted named symbols that appear once."""
    import itertools

    from ..engine.minieval import Mini, NoEval, Raised

    r = RuleResult("C12-EXPAND", "ellipsis expansion agrees with numpy's rule on a bounded family", 1)
    m = ctx.p.module(C.UTILS)
    names = ("parse_equation_ellipses", "check_ellipsis", "find_output_str", "get_symbol")
    fs = {g.name: g.node for g in m.all_funcs if g.cls is None and g.name in names}
    C.require(len(fs) == len(names), "ellipsis helpers not found in utils.py")
    consts = {}
    for nm, vals in m.assigns.items():
        if len(vals) == 1 and isinstance(vals[0], ast.Constant) and isinstance(vals[0].value, (str, int)):
            consts[nm] = vals[0].value
    f = ctx.p.func(C.UTILS, "parse_equation_ellipses")
    k = ctx.key(f, "C12-EXPAND")
    named = ["", "a", "b", "ab", "ba", "aa"]
    ops = []
    for nm in named:
        ops.append((nm, None, 0))
        for pos in range(len(nm) + 1):
            for kk in (0, 1, 2):
                ops.append((nm, pos, kk))
    step = 1 if ctx.tier == "thorough" else 6
    bad = None
    n_eq = 0
    idx = 0
    try:
        for nops in (1, 2, 3):
            pool = ops if nops < 3 else [o for o in ops if len(o[0]) <= 1]
            for combo in itertools.product(pool, repeat=nops):
                if not any(o[1] is not None for o in combo):
                    continue
                idx += 1
                if idx % step:
                    continue
                terms = [(nm if pos is None else nm[:pos] + "..." + nm[pos:]) for nm, pos, kk in combo]
                shapes = tuple(tuple([2] * (len(nm) + (kk if pos is not None else 0))) for nm, pos, kk in combo)
                K = max(kk for nm, pos, kk in combo if pos is not None)
                lhs = ",".join(terms)
                allnamed = "".join(nm for nm, _, _ in combo)
                once = "".join(c for c in sorted(set(allnamed)) if allnamed.count(c) == 1)
                for out in (None, "..." + once, once + "..."):
                    eq = lhs if out is None else lhs + "->" + out
                    n_eq += 1
                    try:
                        res = Mini(fs, budget=40000, consts=consts).call(f.node, [eq, shapes, False])
                        ins, o = res
                        parts = ins.split(",")
                        if len(parts) != nops:
                            raise _ExpErr(f"{len(parts)} operands come back")
                        fresh_full = None
                        ell = []
                        for (nm, pos, kk), part in zip(combo, parts):
                            if pos is None:
                                if part != nm:
                                    raise _ExpErr(f"operand `{nm}` without '...' is rewritten to `{part}`")
                                ell.append("")
                                continue
                            if len(part) != len(nm) + kk or part[:pos] != nm[:pos] or part[pos + kk:] != nm[pos:]:
                                raise _ExpErr(f"operand `{nm[:pos]}...{nm[pos:]}` of rank {len(nm) + kk} becomes `{part}`")
                            ell.append(part[pos:pos + kk])
                        full = max(ell, key=len)
                        if len(full) != K or len(set(full)) != K or set(full) & set(allnamed):
                            raise _ExpErr(f"the symbols `{full}` chosen for '...' are not {K} distinct symbols unused in the equation")
                        for e_ in ell:
                            if e_ != full[K - len(e_):]:
                                raise _ExpErr(f"an operand's '...' becomes `{e_}`, the last {len(e_)} of `{full}` are `{full[K - len(e_):]}` (right alignment)")
                        want = full + once if out is None else out.replace("...", full)
                        if o != want:
                            raise _ExpErr(f"the output is `{o}`, numpy's is `{want}`")
                    except _ExpErr as e:
                        bad = bad or (eq, shapes, str(e))
                    except Raised as e:
                        bad = bad or (eq, shapes, f"raises ({e.text})")
                    except NoEval:
                        raise
                    except Exception as e:
                        bad = bad or (eq, shapes, f"raises ({type(e).__name__}: {e})")
        # equations without '...': operands unchanged, explicit output kept, implicit output = sorted singles
        for nops in (1, 2, 3):
            for combo in itertools.product(("a", "ab", "ba", "bc", "aa", ""), repeat=nops):
                lhs = ",".join(combo)
                alln = "".join(combo)
                once = "".join(c for c in sorted(set(alln)) if alln.count(c) == 1)
                for out in (None, once[::-1]):
                    eq = lhs if out is None else lhs + "->" + out
                    n_eq += 1
                    try:
                        ins, o = Mini(fs, budget=40000, consts=consts).call(f.node, [eq, tuple(tuple([2] * len(t)) for t in combo), False])
                        if ins != lhs or o != (once if out is None else out):
                            bad = bad or (eq, [(2,) * len(t) for t in combo], f"rewritten to `{ins}->{o}`")
                    except Raised as e:
                        bad = bad or (eq, [(2,) * len(t) for t in combo], f"raises ({e.text})")
                    except NoEval:
                        raise
                    except Exception as e:
                        bad = bad or (eq, [(2,) * len(t) for t in combo], f"raises ({type(e).__name__}: {e})")
    except NoEval as e:
        raise AnalysisError(f"parse_equation_ellipses: not evaluable by the mini-evaluator ({e})")
    if bad:
        r.violation(k, f.loc, f"for `{bad[0]}` with operand ranks {[len(s_) for s_ in bad[1]]}: {bad[2]}")
    else:
        r.ok(k, f.loc, f"{n_eq} equations with ellipses: expansion as numpy's")
    return r


class _ExpErr(Exception):
    pass


def rule_interleaved_eval(ctx):
    """(engine E9) `convert_from_interleaved` with `get_symbol_map` is a pure function of the argument tuple.  Its source is
    evaluated on every interleaved call with one to three operands, sublists of up to two labels from a mixed pool
    (integers, a string, a tuple, Ellipsis), with and without an output sublist, and compared with the definition:
    operand i is argument 2i, its sublist argument 2i+1, labels are renamed consistently in order of first appearance,
    Ellipsis becomes '...', the output sublist — also an *empty* one — follows '->'."""
    import itertools

    from ..engine.minieval import Mini, NoEval, Raised

    r = RuleResult("C12-INTERLEAVEDEVAL", "the interleaved form is converted as defined on a bounded family", 1)
    m = ctx.p.module(C.UTILS)
    names = ("convert_from_interleaved", "get_symbol_map", "get_symbol")
    fs = {g.name: g.node for g in m.all_funcs if g.cls is None and g.name in names}
    C.require(len(fs) == len(names), "interleaved helpers not found")
    consts = {nm: vals[0].value for nm, vals in m.assigns.items()
              if len(vals) == 1 and isinstance(vals[0], ast.Constant) and isinstance(vals[0].value, (str, int))}
    f = ctx.p.func(C.UTILS, "convert_from_interleaved")
    k = ctx.key(f, "C12-INTERLEAVEDEVAL")
    pool = [0, 1, "x", (1, 2)]
    subs = [()] + [(a,) for a in pool] + [(a, b) for a in pool[:3] for b in pool[:3]] + [(Ellipsis, 0), (1, Ellipsis), (5, 3), (3, 1)]
    bad = None
    n = 0
    try:
        for nops in (1, 2, 3):
            for combo in itertools.product(subs if nops < 3 else subs[:6], repeat=nops):
                seen = []
                for t in combo:
                    for lab in t:
                        if lab is not Ellipsis and lab not in seen:
                            seen.append(lab)
                outs = [None, (), tuple(reversed(seen[:2]))]
                for out in outs:
                    args = []
                    for i, t in enumerate(combo):
                        args += [("array", i), list(t)]
                    if out is not None:
                        args.append(list(out))
                    n += 1
                    try:
                        eq, arrays = Mini(fs, budget=20000, consts=consts).call(f.node, [tuple(args)])
                        if list(arrays) != [("array", i) for i in range(nops)]:
                            raise _ExpErr(f"operands come back as {list(arrays)}")
                        lhs, sep, rhs = eq.partition("->")
                        if (out is None) != (sep == ""):
                            raise _ExpErr(f"equation `{eq}`: the output part is {'missing' if sep == '' else 'invented'}")
                        parts = lhs.split(",")
                        if len(parts) != nops:
                            raise _ExpErr(f"equation `{eq}` has {len(parts)} operands")
                        mp = {}
                        for t, part in zip(combo, parts):
                            toks = []
                            i_ = 0
                            while i_ < len(part):
                                if part.startswith("...", i_):
                                    toks.append("...")
                                    i_ += 3
                                else:
                                    toks.append(part[i_])
                                    i_ += 1
                            if len(toks) != len(t):
                                raise _ExpErr(f"sublist {list(t)} becomes `{part}`")
                            for lab, tok in zip(t, toks):
                                if lab is Ellipsis:
                                    if tok != "...":
                                        raise _ExpErr(f"Ellipsis becomes `{tok}`")
                                elif mp.setdefault(lab, tok) != tok or tok == "...":
                                    raise _ExpErr(f"label {lab!r} is not renamed consistently in `{eq}`")
                        if len(set(mp.values())) != len(mp):
                            raise _ExpErr(f"two labels share a symbol in `{eq}`")
                        if out is not None and rhs != "".join(mp[lab] for lab in out):
                            raise _ExpErr(f"output sublist {list(out)} becomes `{rhs}`")
                        # (defect F32) without an output sublist the result is ordered by the *labels* (numpy), and the
                        # string form orders an implicit output by symbol: for comparable labels the renaming must be monotone
                        ints = sorted(lab for lab in mp if isinstance(lab, int) and not isinstance(lab, bool))
                        if out is None and len(ints) == len(mp) and [mp[lab] for lab in ints] != sorted(mp[lab] for lab in ints):
                            raise _ExpErr(f"the labels {ints} are renamed to {[mp[lab] for lab in ints]}: an implicit output, sorted by symbol "
                                          "downstream, comes out in order of appearance instead of numpy's label order")
                    except _ExpErr as e:
                        bad = bad or (args, str(e))
                    except Raised as e:
                        bad = bad or (args, f"raises ({e.text})")
                    except NoEval:
                        raise
                    except Exception as e:
                        bad = bad or (args, f"raises ({type(e).__name__}: {e})")
    except NoEval as e:
        raise AnalysisError(f"convert_from_interleaved: not evaluable by the mini-evaluator ({e})")
    if bad:
        r.violation(k, f.loc, f"for the interleaved arguments {bad[0]}: {bad[1]}")
    else:
        r.ok(k, f.loc, f"{n} interleaved calls converted as defined")
    return r


def rule_implicit_eval(ctx):
    """(engine E9) The implicit output of the label interface is documented as 'the indices that appear once, in the
    order they appear on the inputs'.  `find_output_from_inputs` is evaluated on every list of one to three terms of
    up to three labels from a mixed pool and compared with that definition."""
    import itertools

    from ..engine.minieval import Mini, NoEval, Raised

    r = RuleResult("C12-IMPLICITEVAL", "the label interface's implicit output is the singles in order of appearance", 1)
    f = ctx.p.func(C.UTILS, "find_output_from_inputs")
    C.require(f is not None, "find_output_from_inputs not found")
    k = ctx.key(f, "C12-IMPLICITEVAL")
    pool = ["b", "a", 3, (0, 1)]
    terms = [t for n_ in range(0, 4) for t in itertools.product(pool, repeat=n_) if n_ < 3 or len(set(t)) < 3]
    bad = None
    n = 0
    try:
        for nops in (1, 2, 3):
            for combo in itertools.product(terms if nops < 3 else terms[:21], repeat=nops):
                n += 1
                flat = [x for t in combo for x in t]
                want = tuple(x for x in dict.fromkeys(flat) if flat.count(x) == 1)
                try:
                    got = Mini({}, budget=5000).call(f.node, [combo])
                except Raised as e:
                    bad = bad or (combo, f"raises ({e.text})")
                    continue
                except NoEval:
                    raise
                except Exception as e:
                    bad = bad or (combo, f"raises ({type(e).__name__}: {e})")
                    continue
                if tuple(got) != want and bad is None:
                    bad = (combo, f"gives {tuple(got)}, documented is {want}")
    except NoEval as e:
        raise AnalysisError(f"find_output_from_inputs: not evaluable by the mini-evaluator ({e})")
    if bad:
        r.violation(k, f.loc, f"for the terms {bad[0]}: {bad[1]}")
    else:
        r.ok(k, f.loc, f"{n} lists of terms: singles in order of first appearance")
    return r


def rule_canon_always(ctx):
    """(seed C12_11) The label interface accepts arbitrary hashable labels because `normalize_input` maps them to
    single symbols before anything builds an equation string.  With `canonicalize` on, that mapping is
    unconditional: the only test on the path to `canonicalize_inputs` is the option itself (a 'fast path' for labels
    that are already strings lets multi-character labels through, which are then concatenated into index strings)."""
    r = RuleResult("C12-CANONALWAYS", "labels are always mapped to symbols when canonicalisation is on", 1)
    f = ctx.p.func(C.INTERFACE, "normalize_input")
    C.require(f is not None, "normalize_input not found")
    calls = [c for c in walk_local(f.node) if isinstance(c, ast.Call) and dotted(c.func) == "canonicalize_inputs"]
    C.require(calls, "normalize_input: call of canonicalize_inputs not found")
    k = ctx.key(f, "C12-CANONALWAYS")
    ifs = C.enclosing_ifs(f, C.enclosing_stmt(f, calls[0]))
    extra = [i_ for i_, t in ifs if not (isinstance(i_.test, ast.Name) and t)]
    if extra:
        r.violation(k, C.loc(f, extra[0]), f"`canonicalize_inputs` is reached only under `{C.unparse(extra[0].test, 90)}`: labels that take the other "
                    "branch (multi-character strings, say) reach the equation builders unrenamed, where labels are concatenated into "
                    "index strings — array_contract raises or contracts another network")
    else:
        r.ok(k, C.loc(f, calls[0]), "the renaming is guarded by the option alone")
    return r


RULES = [rule_canon_always, rule_implicit_eval, rule_interleaved_eval, rule_expand, rule_backend, rule_blanks, rule_ellipsis, rule_implicit, rule_interleaved, rule_single, rule_canon, rule_ncon]
