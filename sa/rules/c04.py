"""C04 — incrementally tracked costs equal a from-scratch rebuild (structural clauses)."""

from __future__ import annotations

import ast

from ..engine.program import AnalysisError, dotted, walk_local
from ..engine.report import RuleResult
from ..engine.dataflow import MUTATORS, base_name, target_names
from . import common as C
from .c02 import (tree_class, tree_funcs, deps_graph, closure, getter_key_of_method,
                  tree_receivers)
from .c13 import _mutations_of

PID = "C04"
EXPLANATION = (
    "Structural clauses behind 'tracked == rebuilt', decided on ContractionTree: "
    "(COPY) every attribute ever stored on a tree is transferred by set_state_from; "
    "attributes that are mutated in place anywhere are transferred through a copy "
    "(per-value copy where the values are mutated), attributes transferred by "
    "reference have no in-place mutation site outside __init__; (ALIAS) the cached "
    "leg dictionaries shared between a tree and its copies are never mutated through "
    "a returned reference; (TRACK) the running totals are written only by their "
    "owners, _remove_node and _update_tracked are sign-symmetric over the same "
    "getters, contract_nodes_pair always reaches _update_tracked after linking the "
    "parent, remove_ind updates a cached flops/size entry together with the matching "
    "tracker from the same old/new values, and contract_stats() dominates the first "
    "delta in every function that applies one; (STALEREAD) a function that changes "
    "the sliced set reads slice-dependent cached quantities afterwards only if they "
    "were populated for every node before the change; (PRE) the cache entries that "
    "contract_nodes_pair accepts pre-computed all come from one simulator call. The "
    "integer arithmetic itself (// d, MaxCounter) is not decided. "
    "Later rounds added: "
    "(ARITH) the in-place deltas of remove_ind are evaluated symbolically for one "
    "abstract step and equal the definitional differences; (MERGE) the annealing move "
    "evaluator merges two leg tables by the tree's survival rule (symbolic case "
    "analysis); (TRACK recompute) reset, refill and flag of each recomputed total run "
    "under the same conditions. "
    'Round 7: (ORIENT) the left/right orientation of a node is a function of the node sets only; (KEYS, shared with C02) no ad-hoc cached figure in a per-node entry. '
)
ASSUMPTIONS = (
    "a tree that carries sliced indices has been through remove_ind and is therefore tracked",
)

TRANSIENT = {
    "surface_order": "re-derived from the path in ContractionTreeCompressed.set_state_from",
}
TRACKERS = {"_flops", "_write", "_sizes", "_track_flops", "_track_write", "_track_size"}
TRACK_WRITERS = {"__init__", "set_state_from", "total_flops", "total_write", "max_size",
                 "contract_stats", "_remove_node", "_update_tracked", "remove_ind"}


def _core_family(ctx):
    tc = tree_class(ctx)
    return [c for c in [tc] + tc.all_subclasses() if c.module.path == C.CORE]


def _transfer_modes(ctx, ssf):
    """attr -> 'ref' | 'copy' | 'deep1' as transferred by a set_state_from body"""
    modes = {}
    for n in walk_local(ssf.node):
        if isinstance(n, ast.For):
            # ``for attr in ("a", "b")``  or  ``for flag, attr in (("fa", "a"), ...)``
            cols = {}
            if isinstance(n.target, ast.Name):
                names = C.resolve_str_tuple(ctx, ssf, n.iter)
                if names:
                    cols[n.target.id] = names
            elif isinstance(n.target, ast.Tuple) and isinstance(n.iter, (ast.Tuple, ast.List)):
                rows = [C.str_consts(e) for e in n.iter.elts]
                if rows and all(r_ is not None and len(r_) == len(n.target.elts) for r_ in rows):
                    for i, te in enumerate(n.target.elts):
                        if isinstance(te, ast.Name):
                            cols[te.id] = [r_[i] for r_ in rows]
            if not cols:
                continue
            # locals of the loop body bound to getattr(other, <col var>)
            via = {}
            for st in ast.walk(n):
                if isinstance(st, ast.Assign) and isinstance(st.targets[0], ast.Name) and \
                        isinstance(st.value, ast.Call) and dotted(st.value.func) == "getattr":
                    via[st.targets[0].id] = st.value
            for st in n.body:
                for call in [x for x in ast.walk(st) if isinstance(x, ast.Call)
                             and dotted(x.func) == "setattr" and len(x.args) == 3]:
                    var = C.unparse(call.args[1])
                    if var not in cols:
                        continue
                    v = call.args[2]
                    if isinstance(v, ast.Name) and v.id in via:
                        v = via[v.id]
                    mode = _value_mode(v)
                    for a in cols[var]:
                        modes[a] = mode
        elif isinstance(n, ast.Assign):
            for t in n.targets:
                if isinstance(t, ast.Attribute) and isinstance(t.value, ast.Name) and \
                        t.value.id == "self":
                    modes[t.attr] = _value_mode(n.value)
    return modes


def _value_mode(v):
    if isinstance(v, ast.DictComp) and isinstance(v.value, ast.Call) and \
            isinstance(v.value.func, ast.Attribute) and v.value.func.attr == "copy":
        return "deep1"
    if isinstance(v, ast.Call) and isinstance(v.func, ast.Attribute) and v.func.attr == "copy":
        return "copy"
    if isinstance(v, ast.Call) and dotted(v.func) in ("dict", "list", "set", "copy.copy"):
        return "copy"
    if isinstance(v, ast.Call) and dotted(v.func) in ("copy.deepcopy", "deepcopy"):
        return "deep1"
    return "ref"


def _mutation_sites(ctx, funcs):
    """attr -> [(func, node, nested?)] in-place mutations through self-like receivers"""
    out = {}
    for f in funcs:
        own = ctx.effects.self_like(f) | ({"tree"} if "tree" in f.params or
                                          "tree" in ctx.r.local_assignments(f) else set())
        aliases = C.info_aliases(f)
        # local names bound to a *value* held in a container attribute of the tree:
        # v = X.attr[k] / X.attr.setdefault(k, ..) / X.attr.get(k) / for .. in X.attr.items()
        valias = {}
        for n in walk_local(f.node):
            if isinstance(n, ast.Assign) and len(n.targets) == 1 and isinstance(n.targets[0], ast.Name):
                v = n.value
                base = None
                if isinstance(v, ast.Subscript):
                    base = v.value
                elif isinstance(v, ast.Call) and isinstance(v.func, ast.Attribute) and \
                        v.func.attr in ("setdefault", "get"):
                    base = v.func.value
                if isinstance(base, ast.Attribute) and isinstance(base.value, ast.Name) and \
                        base.value.id in own and base.attr != "info":
                    valias[n.targets[0].id] = base.attr
            elif isinstance(n, (ast.For, ast.comprehension)):
                it = n.iter
                if isinstance(it, ast.Call) and isinstance(it.func, ast.Attribute) and \
                        it.func.attr in ("items", "values") and isinstance(it.func.value, ast.Attribute) \
                        and isinstance(it.func.value.value, ast.Name) and it.func.value.value.id in own \
                        and it.func.value.attr != "info":
                    t = n.target
                    if it.func.attr == "items" and isinstance(t, ast.Tuple) and len(t.elts) == 2:
                        t = t.elts[1]
                    if isinstance(t, ast.Name):
                        valias[t.id] = it.func.value.attr
        for n in walk_local(f.node):
            tgt = None
            if isinstance(n, (ast.Assign, ast.AugAssign)):
                tgts = n.targets if isinstance(n, ast.Assign) else [n.target]
                for t in tgts:
                    if isinstance(t, ast.Subscript):
                        tgt = t
            elif isinstance(n, ast.Delete):
                for t in n.targets:
                    if isinstance(t, ast.Subscript):
                        tgt = t
            elif isinstance(n, ast.Call) and isinstance(n.func, ast.Attribute) and \
                    n.func.attr in MUTATORS:
                tgt = n.func.value
            if tgt is None:
                continue
            # unwind: root name, first attribute, depth of subscripts after it
            chain = []
            e = tgt
            while isinstance(e, (ast.Subscript, ast.Attribute)):
                chain.append(e)
                e = e.value
            if not isinstance(e, ast.Name):
                continue
            if e.id in aliases and not chain[-1:] == []:
                out.setdefault("info", []).append((f, n, True))
                continue
            if e.id in aliases:
                out.setdefault("info", []).append((f, n, True))
                continue
            if e.id in valias and e.id not in own:
                # mutation through a local alias of a contained value
                is_mut = isinstance(n, ast.Call) or any(isinstance(c, ast.Subscript) for c in chain)
                if is_mut:
                    out.setdefault(valias[e.id], []).append((f, n, True))
                continue
            if e.id not in own:
                continue
            chain.reverse()
            if not chain or not isinstance(chain[0], ast.Attribute):
                continue
            attr = chain[0].attr
            depth = sum(1 for c in chain[1:] if isinstance(c, ast.Subscript))
            is_call = isinstance(n, ast.Call)
            nested = depth >= 2 or (is_call and depth >= 1)
            if depth == 0 and not is_call:
                continue  # plain rebinding self.attr = ...
            out.setdefault(attr, []).append((f, n, nested))
    return out


def rule_copy(ctx):
    r = RuleResult("C04-COPY", "copy completeness and no shared mutable state", 20)
    fam = _core_family(ctx)
    tc = fam[0]
    funcs = [f for f in tree_funcs(ctx, False) if f.cls is None or f.cls.module.path == C.CORE]
    # attributes ever stored on self
    stored = {}
    for c in fam:
        for f in c.methods.values():
            for a in ctx.effects.direct(f)["access"]:
                if a.recv == "self" and a.kind == "write" and isinstance(a.node, ast.Attribute):
                    stored.setdefault(a.attr, a.loc)
    ssf = tc.methods.get("set_state_from")
    C.require(ssf is not None, "ContractionTree.set_state_from not found")
    modes = _transfer_modes(ctx, ssf)
    muts = _mutation_sites(ctx, funcs)
    for attr, where in sorted(stored.items()):
        key = f"{C.CORE}::ContractionTree::C04-COPY::{attr}"
        if attr in TRANSIENT:
            r.exempt(key, where, TRANSIENT[attr])
            continue
        mode = modes.get(attr)
        if mode is None:
            r.violation(key, where, f"self.{attr} is part of a tree's state but set_state_from "
                        "does not transfer it: copies (and every inplace=False transformation) "
                        "lose or share it")
            continue
        sites = [(f, n, nested) for f, n, nested in muts.get(attr, []) if f.name != "__init__"]
        nested = [s for s in sites if s[2]]
        if mode == "ref" and sites:
            f, n, _ = sites[0]
            r.violation(key, C.loc(f, n), f"self.{attr} is transferred by reference but mutated "
                        f"in place in {f.qual}: a copy and its original change together",
                        mutation=C.unparse(n, 80))
        elif mode == "copy" and nested:
            f, n, _ = nested[0]
            r.violation(key, C.loc(f, n), f"the values of self.{attr} are mutated in place but "
                        "set_state_from only copies the outer container",
                        mutation=C.unparse(n, 80))
        else:
            r.ok(key, where, f"transferred by {mode}; {len(sites)} in-place mutation site(s)")
    # every attribute is transferred on every path: a store under `if other.<flag>:` is fine only
    # if <flag> itself is transferred unconditionally (then the guarded value is meaningless when
    # the flag is off); a flag that is only ever *raised* leaves a re-used target with the flag of
    # its previous state (seed C03_9)
    uncond, cond = {}, {}
    for fn in [ssf] + [c.methods["set_state_from"] for c in fam[1:] if "set_state_from" in c.methods]:
        for n in walk_local(fn.node):
            if not isinstance(n, ast.Assign):
                continue
            for t in n.targets:
                if isinstance(t, ast.Attribute) and dotted(t.value) == "self":
                    ifs = C.enclosing_ifs(fn, n)
                    if ifs:
                        guards = set()
                        for i, _ in ifs:
                            for x in ast.walk(i.test):
                                if isinstance(x, ast.Attribute) and isinstance(x.value, ast.Name) and \
                                        x.value.id not in ("self",):
                                    guards.add(x.attr)
                        cond.setdefault(t.attr, []).append((fn, n, guards))
                    else:
                        uncond[t.attr] = n
    for attr, sites in sorted(cond.items()):
        if attr in uncond:
            continue
        for fn, n, guards in sites:
            key = f"{C.CORE}::ContractionTree::C04-COPY::{attr}::conditional"
            bad = [g for g in guards if g == attr or (g not in uncond and g not in modes)]
            only_raised = attr in guards
            if only_raised or bad:
                r.violation(key, C.loc(fn, n), f"self.{attr} is transferred only under "
                            f"`{C.unparse(C.enclosing_ifs(fn, n)[0][0].test, 50)}`: when the source does not have it "
                            f"set, a target that is re-used (set_state_from on an existing tree, e.g. by "
                            f"reconfiguration workers) keeps its own old value")
            else:
                r.ok(key, C.loc(fn, n), f"guarded by {sorted(guards)}, which is transferred unconditionally")
    # subclass overrides call super().set_state_from
    for c in fam[1:]:
        o = c.methods.get("set_state_from")
        if o is None:
            continue
        key = ctx.key(o, "C04-COPY", "super")
        if any(isinstance(n, ast.Call) and "super().set_state_from" in ast.unparse(n.func)
               for n in walk_local(o.node)):
            r.ok(key, o.loc, "extends the base transfer")
        else:
            r.violation(key, o.loc, "override of set_state_from does not call the base transfer")
    # copy() goes through set_state_from
    cp = tc.methods.get("copy")
    key = ctx.key(cp, "C04-COPY", "copy")
    if cp is not None and any(isinstance(n, ast.Call) and isinstance(n.func, ast.Attribute)
                              and n.func.attr == "set_state_from" for n in walk_local(cp.node)):
        r.ok(key, cp.loc, "copy() = new object + set_state_from")
    else:
        r.violation(key, tc.key, "copy() does not use set_state_from")
    return r


def rule_alias(ctx):
    r = RuleResult("C04-ALIAS", "cached leg dictionaries are never mutated through a reference", 8)
    scope = tree_funcs(ctx, ctx.tier == "thorough")
    for f in scope:
        names = {}
        for n in walk_local(f.node):
            if isinstance(n, ast.Assign) and isinstance(n.value, ast.Call) and \
                    isinstance(n.value.func, ast.Attribute) and \
                    n.value.func.attr in ("get_legs", "get_involved"):
                for t in n.targets:
                    for nm, _ in target_names(t):
                        names[nm] = n
            elif isinstance(n, ast.Assign) and isinstance(n.value, ast.Subscript) and \
                    isinstance(n.value.slice, ast.Constant) and \
                    n.value.slice.value in ("legs", "involved"):
                for t in n.targets:
                    for nm, _ in target_names(t):
                        names[nm] = n
        for nm, st in names.items():
            key = ctx.key(f, "C04-ALIAS", nm)
            mut = _mutations_of(ctx, f, {nm})
            # only mutations that a *cached* definition of the name reaches (the name may be re-bound to a fresh
            # dict on another path, e.g. in the handler of a failed lookup)
            if mut:
                fl_ = ctx.flow(f)
                live = []
                for mn in mut:
                    try:
                        at = fl_.node_of_expr(mn)
                    except Exception:
                        at = None
                    if at is None:
                        live.append(mn)
                        continue
                    defs = fl_.defs_reaching(nm, at)

                    def cached(v):
                        return (isinstance(v, ast.Call) and isinstance(v.func, ast.Attribute)
                                and v.func.attr in ("get_legs", "get_involved")) or \
                            (isinstance(v, ast.Subscript) and isinstance(v.slice, ast.Constant)
                             and v.slice.value in ("legs", "involved"))
                    if not defs or any(d.value is not None and cached(d.value) and d.kind in ("assign",) and d.strong for d in defs):
                        live.append(mn)
                mut = live
            if mut:
                r.violation(key, C.loc(f, mut[0]), f"`{nm}` holds a cached legs/involved "
                            "dictionary (shared with copies of the tree) and is mutated in place",
                            mutation=C.unparse(mut[0], 80))
            else:
                r.ok(key, C.loc(f, st), "only read / passed to copying helpers")
    # the helpers copy before modifying
    m = ctx.p.module(C.CORE)
    for name in ("legs_union", "legs_without"):
        h = m.funcs.get(name)
        C.require(h is not None, f"{name} not found")
        key = ctx.key(h, "C04-ALIAS", "copies-first")
        p0 = h.positional[0]
        direct = ctx.effects.direct(h)
        aliased = set()
        for n in walk_local(h.node):
            if isinstance(n, ast.Assign) and isinstance(n.value, ast.Name) and n.value.id == p0:
                aliased |= {nm for t in n.targets for nm, _ in target_names(t)}
        fl = ctx.flow(h)
        through_alias = []
        for mn in _mutations_of(ctx, h, aliased):
            at = fl.node_of_expr(mn)
            tgt = mn.targets[0] if isinstance(mn, ast.Assign) else getattr(mn, "target", None)
            nm = base_name(tgt) if tgt is not None else (
                mn.func.value.id if isinstance(mn, ast.Call) and isinstance(mn.func, ast.Attribute)
                and isinstance(mn.func.value, ast.Name) else None)
            for d in fl.defs_reaching(nm, at) if nm else ():
                if d.kind in ("assign", "iter") and isinstance(d.value, ast.Name) and \
                        d.value.id == p0:
                    through_alias.append(mn)
        if p0 in direct["param_mut"] or through_alias:
            r.violation(key, h.loc, f"{name} mutates its argument (a cached dictionary) in place")
        else:
            r.ok(key, h.loc, "works on a copy")
    return r


def rule_track(ctx):
    r = RuleResult("C04-TRACK", "running totals: owners, symmetry, pairing, dominance", 12)
    tc = tree_class(ctx)
    scope = tree_funcs(ctx, ctx.tier == "thorough")
    # (a) who may write
    for f in scope:
        if f.cls is not None and f.cls.module.path != C.CORE and ctx.tier != "thorough":
            continue
        for a in ctx.effects.direct(f)["access"]:
            if a.attr in TRACKERS and a.kind in ("write", "mutate") and \
                    a.recv in tree_receivers(ctx, f):
                key = ctx.key(f, "C04-TRACK", f"write:{a.attr}")
                if f.name in TRACK_WRITERS:
                    r.ok(key, a.loc, "owner")
                else:
                    r.violation(key, a.loc, f"{a.attr} is modified outside its owners "
                                f"({sorted(TRACK_WRITERS)})")
    # (b) symmetry
    rn, ut = tc.lookup("_remove_node"), tc.lookup("_update_tracked")
    C.require(rn is not None and ut is not None, "_remove_node/_update_tracked not found")

    def tracker_ops(f):
        ops = {}
        for n in walk_local(f.node):
            if isinstance(n, ast.AugAssign) and isinstance(n.target, ast.Attribute) and \
                    n.target.attr in ("_flops", "_write"):
                sign = "+" if isinstance(n.op, ast.Add) else "-" if isinstance(n.op, ast.Sub) else "?"
                getter = [x.func.attr for x in ast.walk(n.value) if isinstance(x, ast.Call)
                          and isinstance(x.func, ast.Attribute)]
                ops[n.target.attr] = (sign, tuple(getter))
            elif isinstance(n, ast.Call) and isinstance(n.func, ast.Attribute) and \
                    isinstance(n.func.value, ast.Attribute) and n.func.value.attr == "_sizes":
                sign = {"add": "+", "discard": "-", "remove": "-"}.get(n.func.attr, "?")
                getter = [x.func.attr for a in n.args for x in ast.walk(a)
                          if isinstance(x, ast.Call) and isinstance(x.func, ast.Attribute)]
                ops["_sizes"] = (sign, tuple(getter))
        return ops

    a, b = tracker_ops(rn), tracker_ops(ut)
    for trk in ("_flops", "_write", "_sizes"):
        key = ctx.key(rn, "C04-TRACK", f"symmetry:{trk}")
        if trk not in a or trk not in b:
            r.violation(key, rn.loc if trk not in a else ut.loc,
                        f"{trk} is adjusted on only one side of remove/add: removing and "
                        "re-adding a node no longer cancels")
        elif a[trk][1] != b[trk][1] or {a[trk][0], b[trk][0]} != {"+", "-"} or b[trk][0] != "+":
            r.violation(key, rn.loc, f"{trk}: _remove_node does {a[trk]}, _update_tracked does "
                        f"{b[trk]} — not the same quantity with opposite sign")
        else:
            r.ok(key, rn.loc, f"-{a[trk][1][0]} / +{b[trk][1][0]}")
    # guards agree: each tracker op is under its own _track_* flag
    for f in (rn, ut):
        for n in walk_local(f.node):
            trk = None
            if isinstance(n, ast.AugAssign) and isinstance(n.target, ast.Attribute) and \
                    n.target.attr in ("_flops", "_write"):
                trk = n.target.attr
            elif isinstance(n, ast.Call) and isinstance(n.func, ast.Attribute) and \
                    isinstance(n.func.value, ast.Attribute) and n.func.value.attr == "_sizes" \
                    and n.func.attr in ("add", "discard"):
                trk = "_sizes"
            if trk is None:
                continue
            flag = {"_flops": "_track_flops", "_write": "_track_write", "_sizes": "_track_size"}[trk]
            st = C.enclosing_stmt(f, n)
            g = [C.unparse(i.test) for i, t in C.enclosing_ifs(f, st) if t]
            key = ctx.key(f, "C04-TRACK", f"flag:{trk}")
            if any(flag in x for x in g):
                r.ok(key, C.loc(f, n), f"guarded by {flag}")
            else:
                r.violation(key, C.loc(f, n), f"{trk} is adjusted without testing {flag}")
    # (c) contract_nodes_pair: children store -> _update_tracked on all paths
    cnp = tc.lookup("contract_nodes_pair")
    fl = ctx.flow(cnp)
    link = [n for n in fl.cfg.nodes if n.kind == "stmt" and isinstance(n.ast, ast.Assign)
            and any(isinstance(t, ast.Subscript) and C.unparse(t.value) == "self.children"
                    for t in n.ast.targets)]
    C.require(link, "children store in contract_nodes_pair not found")
    upd = [n.id for n, c in fl.calls() if isinstance(c.func, ast.Attribute)
           and c.func.attr == "_update_tracked"]
    key = ctx.key(cnp, "C04-TRACK", "update-after-link")
    if upd and fl.cfg.all_paths_pass(link[0].id, upd):
        r.ok(key, C.loc(cnp, link[0].ast), "every path from linking the parent to the return "
             "adds the parent to the running totals")
    else:
        p = fl.cfg.path_avoiding(link[0].id, upd)
        r.violation(key, C.loc(cnp, link[0].ast), "a new parent can be linked without being "
                    "added to the running totals", path=fl.cfg.describe_path(p) if p else "")
    # (d) remove_ind pairing
    ri = tc.lookup("remove_ind")
    flr = ctx.flow(ri)
    stores = {}
    for kind, k, nodeexpr, n, val, keyexpr in C.info_key_accesses(ri):
        if kind == "store" and k in ("flops", "size"):
            stores[k] = (n, val)
    for k, trackers in (("flops", ["_flops"]), ("size", ["_sizes", "_write"])):
        key = ctx.key(ri, "C04-TRACK", f"pair:{k}")
        if k not in stores:
            r.violation(key, ri.loc, f"remove_ind no longer rewrites the cached {k}")
            continue
        n, val = stores[k]
        new_names = {x.id for x in ast.walk(val) if isinstance(x, ast.Name)}
        blk = ri.module.parents.get(C.enclosing_stmt(ri, n))
        missing = []
        for trk in trackers:
            found = False
            for st in walk_local(ri.node):
                txt = None
                if isinstance(st, ast.AugAssign) and isinstance(st.target, ast.Attribute) and \
                        st.target.attr == trk:
                    txt = st.value
                elif isinstance(st, ast.Call) and isinstance(st.func, ast.Attribute) and \
                        isinstance(st.func.value, ast.Attribute) and st.func.value.attr == trk \
                        and st.args:
                    txt = st.args[0]
                if txt is None:
                    continue
                used = {x.id for x in ast.walk(txt) if isinstance(x, ast.Name)}
                d1 = flr.deps(txt, flr.node_of_expr(st))
                d2 = flr.deps(val, flr.node_of_expr(n))
                same_src = bool({x for x in d1 if x[0] == "call"} & {x for x in d2 if x[0] == "call"})
                if (used & new_names) or same_src:
                    found = True
            if not found:
                missing.append(trk)
        if missing:
            r.violation(key, C.loc(ri, n), f"remove_ind rewrites the cached {k} of a node but "
                        f"does not apply the same change to {missing}")
        else:
            r.ok(key, C.loc(ri, n), f"cached {k} and {trackers} updated from the same values")
    # (e) contract_stats dominates the first delta / node removal
    for f in scope:
        if f.name in ("_remove_node", "_update_tracked", "contract_stats", "__init__",
                      "set_state_from", "total_flops", "total_write", "max_size",
                      "contract_nodes_pair", "contract_nodes"):
            continue
        fl2 = None
        events = []
        for call in C.method_calls(f, "_remove_node"):
            events.append(call)
        for a in ctx.effects.direct(f)["access"]:
            if a.attr in ("_flops", "_write", "_sizes") and a.kind in ("write", "mutate") \
                    and a.recv in tree_receivers(ctx, f):
                events.append(a.node)
        if not events:
            continue
        fl2 = ctx.flow(f)
        stats = [n.id for n, c in fl2.calls() if isinstance(c.func, ast.Attribute)
                 and c.func.attr == "contract_stats"]
        key = ctx.key(f, "C04-TRACK", "stats-first")
        bad = None
        for ev in events:
            cn = fl2.cfg.containing(ev, f.module.parents)
            if cn is None:
                continue
            if not any(fl2.cfg.dominates(s, cn.id) for s in stats):
                bad = ev
                break
        if bad is None:
            r.ok(key, f.loc, f"contract_stats() dominates all {len(events)} delta/removal events")
        else:
            r.violation(key, C.loc(f, bad), "a running total is adjusted (or a node removed) "
                        "before contract_stats() has switched tracking on and populated the "
                        "per-node figures the delta is computed from")
    # (f) (seed C04_10) a recomputation is reset + refill + flag, all three under the same conditions: a
    # refill without reset counts every node twice (the stale copy survives later deltas), a reset or a
    # flag without refill reports an empty total as tracked
    flagof = {"_flops": "_track_flops", "_write": "_track_write", "_sizes": "_track_size"}
    for name in ("contract_stats", "total_flops", "total_write", "max_size"):
        f = tc.lookup(name)
        if f is None:
            continue

        def guards(st, f=f):
            return frozenset((C.unparse(i.test), t) for i, t in C.enclosing_ifs(f, st))
        for trk, flag in flagof.items():
            resets, fills, flags = [], [], []
            for n in walk_local(f.node):
                if isinstance(n, ast.Assign):
                    for t in n.targets:
                        if isinstance(t, ast.Attribute) and dotted(t.value) == "self":
                            if t.attr == trk:
                                resets.append(n)
                            if t.attr == flag and isinstance(n.value, ast.Constant) and n.value.value is True:
                                flags.append(n)
                elif isinstance(n, ast.AugAssign) and isinstance(n.target, ast.Attribute) and \
                        n.target.attr == trk and dotted(n.target.value) == "self" and C.enclosing_loops(f, n):
                    fills.append(n)
                elif isinstance(n, ast.Expr) and isinstance(n.value, ast.Call) and \
                        isinstance(n.value.func, ast.Attribute) and n.value.func.attr == "add" and \
                        dotted(n.value.func.value) == f"self.{trk}" and C.enclosing_loops(f, n):
                    fills.append(n)
            if not fills and not resets:
                continue
            key = ctx.key(f, "C04-TRACK", f"recompute:{trk}")
            if not fills or not resets or not flags:
                miss = [w_ for w_, l_ in (("reset", resets), ("refill loop", fills), (f"`self.{flag} = True`", flags)) if not l_]
                r.violation(key, f.loc, f"the recomputation of {trk} lacks its {' and '.join(miss)}")
                continue
            gs = {("reset", x): guards(x) for x in resets}
            gs.update({("refill", x): guards(x) for x in fills})
            gs.update({("flag", x): guards(x) for x in flags})
            distinct = set(gs.values())
            fl3 = ctx.flow(f)
            dom_ok = all(fl3.cfg.dominates(fl3.cfg.containing(rs, f.module.parents).id,
                                           fl3.cfg.containing(fi, f.module.parents).id)
                         for rs in resets[:1] for fi in fills)
            if len(distinct) == 1 and dom_ok:
                r.ok(key, C.loc(f, fills[0]), f"reset, refill and flag of {trk} run under the same conditions "
                     f"{sorted(c for c, _ in next(iter(distinct)))}")
            else:
                (ka, xa), ga = [(k_, g_) for k_, g_ in gs.items() if k_[0] == "reset"][0]
                other = [(k_, g_) for k_, g_ in gs.items() if g_ != ga]
                (kb, xb), gb = other[0] if other else ((("refill", fills[0])), guards(fills[0]))
                only_a = sorted(f"{c} is {t}" for c, t in ga - gb)
                only_b = sorted(f"{c} is {t}" for c, t in gb - ga)
                r.violation(key, C.loc(f, xb), f"the {kb} of {trk} and its reset run under different conditions "
                            f"(reset only: {only_a}; {kb} only: {only_b}): in the states where they disagree every "
                            f"size is entered a second time without the table being emptied (later removals strike "
                            f"off one copy only, so the old maximum survives), or an emptied total is reported as tracked")
    return r


def rule_staleread(ctx):
    r = RuleResult("C04-STALEREAD", "no slice-dependent quantity is first computed after the "
                   "sliced set changed", 2)
    tc = tree_class(ctx)
    g = deps_graph(ctx)
    sl = closure(g, lambda k, e: "sliced_inds" in e["attrs"])
    for f in tree_funcs(ctx, ctx.tier == "thorough"):
        if f.cls is not None and f.cls.module.path != C.CORE:
            continue
        if f.name in ("__init__", "set_state_from", "restore_ind"):
            # restore_ind recomputes the affected nodes from scratch (remove + re-add)
            continue
        writes = [a for a in ctx.effects.direct(f)["access"]
                  if a.attr == "sliced_inds" and a.kind in ("write", "mutate")]
        if not writes:
            continue
        fl = ctx.flow(f)
        w = fl.cfg.containing(writes[0].node, f.module.parents)
        after = fl.cfg.reachable_from_succs(w.id)
        stats_dom = any(fl.cfg.dominates(n.id, w.id) for n, c in fl.calls()
                        if isinstance(c.func, ast.Attribute) and c.func.attr == "contract_stats")
        pre = set()
        for n in fl.cfg.nodes:
            if n.kind == "for" and fl.cfg.dominates(n.id, w.id):
                it = n.ast.iter
                src = C.unparse(it)
                if not any(s in src for s in (".children", ".info", ".traverse(")):
                    continue
                if any(isinstance(x, (ast.Continue, ast.Break)) for b in n.ast.body
                       for x in ast.walk(b)):
                    continue
                for st in n.ast.body:
                    if isinstance(st, ast.Expr) and isinstance(st.value, ast.Call) and \
                            isinstance(st.value.func, ast.Attribute):
                        k = getter_key_of_method(ctx, st.value.func.attr)
                        if k:
                            pre.add(k)
        if stats_dom:
            pre |= {"flops", "size"}
        seen = set()
        for n, c in fl.calls():
            if n.id not in after or not isinstance(c.func, ast.Attribute):
                continue
            k = getter_key_of_method(ctx, c.func.attr)
            if k is None or k not in sl or k in seen:
                continue
            seen.add(k)
            key = ctx.key(f, "C04-STALEREAD", k)
            if k in pre:
                r.ok(key, C.loc(f, c), f"'{k}' is populated for every node before the sliced "
                     "set changes")
            else:
                r.violation(key, C.loc(f, c), f"'{k}' is read after the sliced set changed but "
                            "is not guaranteed to be cached beforehand: for a node created with "
                            "pre-computed figures it is computed from the already-sliced state "
                            "and the incremental update skips the node")
    return r


def rule_pre(ctx):
    r = RuleResult("C04-PRE", "pre-computed figures accepted by contract_nodes_pair", 1)
    tc = tree_class(ctx)
    cnp = tc.lookup("contract_nodes_pair")
    # the only keys it accepts pre-computed are legs / flops / size
    accepted = {}
    for kind, k, nodeexpr, n, val, keyexpr in C.info_key_accesses(cnp):
        if kind == "store":
            accepted[k] = val
    key = ctx.key(cnp, "C04-PRE")
    extra = set(accepted) - {"legs", "flops", "size"}
    params_ok = all(isinstance(v, ast.Name) and v.id in cnp.params for v in accepted.values())
    if extra or not params_ok:
        r.violation(key, cnp.loc, f"contract_nodes_pair stores {sorted(accepted)}: only "
                    "caller-supplied legs/flops/size are expected")
    else:
        r.ok(key, cnp.loc, f"accepts {sorted(accepted)} from its caller; callers checked by "
             "C18-PRE")
    return r


def rule_presource(ctx):
    """Shared with C18-PRE: a pre-computed figure handed to contract_nodes_pair is
    cached verbatim and added to the running totals."""
    from .c18 import rule_pre as src

    return C.reuse_rule(ctx, src, "C18-PRE", "C04-PRESRC",
                        "figures pre-supplied to contract_nodes_pair come from one call of the "
                        "cross-checked simulator", lambda i: True, 2)


def rule_whole(ctx):
    """Shared with C02-NODE: removing a node must leave none of its cached figures
    behind (restore_ind / reconfiguration rely on remove + re-add to recompute)."""
    from .c02 import rule_node

    src = rule_node(ctx)
    r = RuleResult("C04-WHOLE", "_remove_node leaves no cached figure of the node behind", 1)
    for i in src.instances:
        if i.construct.endswith("::whole-entry") or "::info[...] = " in i.construct:
            c = i.construct.replace("C02-NODE", "C04-WHOLE")
            if i.verdict == "violation":
                r.violation(c, i.loc, i.reason, **i.detail)
            else:
                r.ok(c, i.loc, i.reason)
    return r


def rule_presurv(ctx):
    """Shared with C18-SURV: figures cached from the local move evaluator are only
    as right as its survival rule."""
    from .c18 import rule_surv

    return C.reuse_rule(ctx, rule_surv, "C18-SURV", "C04-PRESURV",
                        "the simulator whose figures are cached in the tree uses the tree's "
                        "survival rule", lambda i: C.ANNEAL in i.construct or "merge-counts" in i.construct
                        or "leaf-counts" in i.construct, 3)


def rule_pure(ctx):
    """Shared with C02-PURE."""
    from .c02 import rule_pure as src

    return C.reuse_rule(ctx, src, "C02-PURE", "C04-PURE",
                        "inplace=False transformations leave the original untouched",
                        lambda i: True, 8)


def _cfg_paths(cfg, limit=400):
    """all acyclic entry->exit paths as lists of node ids"""
    out, stack = [], [[cfg.entry.id]]
    while stack:
        pth = stack.pop()
        last = pth[-1]
        if last == cfg.exit.id:
            out.append(pth)
            if len(out) > limit:
                raise AnalysisError("too many paths to enumerate")
            continue
        for s_ in cfg.succ[last]:
            if s_ not in pth:
                stack.append(pth + [s_])
    return out


def rule_maxcount(ctx):
    """``MaxCounter`` backs the tracked largest intermediate (``_sizes``).  Two path
    properties of ``discard`` decide whether ``max()`` stays the maximum of what the
    counter holds: (A) on every path that removes the last copy of ``x`` and on which
    nothing tested establishes ``x != maximum``, the maximum is re-assigned afterwards
    (to the maximum of the rest, or to -inf when nothing is left); (B) the maximum is
    never recomputed from the container while a copy of ``x`` that is put back later
    on the same path is missing from it.  ``add`` takes the larger of old maximum and x."""
    r = RuleResult("C04-MAXCOUNT", "the size tracker's maximum is the maximum of its contents", 2)
    mc = ctx.p.cls(C.UTILS, "MaxCounter")
    f = mc.methods.get("discard")
    C.require(f is not None, "MaxCounter.discard not found")
    x = f.positional[1]
    fl = ctx.flow(f)
    cfg = fl.cfg

    def is_c(e):
        return isinstance(e, ast.Attribute) and e.attr == "_c"

    def events(nid):
        n = cfg.nodes[nid]
        st = n.ast
        ev = []
        if st is None or n.kind in ("entry", "exit", "raise"):
            return ev
        if n.kind == "test":
            return ev
        nodes_ = list(ast.walk(st)) if not isinstance(st, (ast.If, ast.Try, ast.For, ast.While, ast.With)) else []
        for sub in nodes_:
            if isinstance(sub, ast.Delete):
                for t in sub.targets:
                    if isinstance(t, ast.Subscript) and is_c(t.value) and C.unparse(t.slice) == x:
                        ev.append("del")
            if isinstance(sub, ast.Call) and isinstance(sub.func, ast.Attribute) and sub.func.attr == "pop" \
                    and is_c(sub.func.value) and sub.args and C.unparse(sub.args[0]) == x:
                ev.append("del")
            if isinstance(sub, (ast.Assign, ast.AugAssign)):
                tgts = sub.targets if isinstance(sub, ast.Assign) else [sub.target]
                for t in tgts:
                    if isinstance(t, ast.Subscript) and is_c(t.value) and C.unparse(t.slice) == x:
                        ev.append("reinsert")
                    if isinstance(t, ast.Attribute) and t.attr == "_max_element":
                        rec = any(isinstance(y, ast.Call) and dotted(y.func) == "max" and y.args
                                  and is_c(y.args[0]) for y in ast.walk(sub.value))
                        ev.append("recompute" if rec else "setmax")
        return ev

    def rules_out_max(test, taken):
        """the outcome of this test establishes x != self._max_element"""
        def is_cmp(e, op):
            return isinstance(e, ast.Compare) and len(e.ops) == 1 and isinstance(e.ops[0], op) and \
                {C.unparse(e.left), C.unparse(e.comparators[0])} == {x, "self._max_element"}
        if is_cmp(test, ast.Eq):
            return not taken
        if is_cmp(test, ast.NotEq):
            return taken
        if isinstance(test, ast.BoolOp) and isinstance(test.op, ast.And) and taken:
            return any(is_cmp(v, ast.NotEq) for v in test.values)
        if isinstance(test, ast.BoolOp) and isinstance(test.op, ast.Or) and not taken:
            return any(is_cmp(v, ast.Eq) for v in test.values)
        return False

    keyA = ctx.key(f, "C04-MAXCOUNT", "reassigned-when-last-copy-goes")
    keyB = ctx.key(f, "C04-MAXCOUNT", "recomputed-from-final-contents")
    badA = badB = None
    n_paths = 0
    for pth in _cfg_paths(cfg):
        n_paths += 1
        evs, excluded = [], False
        for i, nid in enumerate(pth):
            n = cfg.nodes[nid]
            if n.kind == "test" and isinstance(n.ast, ast.If) and i + 1 < len(pth):
                taken = cfg.branch.get((nid, pth[i + 1]))
                taken = bool(taken) if taken is not None else False
                if rules_out_max(n.ast.test, taken):
                    excluded = True
            evs += [(e, nid) for e in events(nid)]
        names = [e for e, _ in evs]
        if "del" in names:
            after = names[names.index("del"):]
            gone = "reinsert" not in after
            if gone and not excluded and not ({"recompute", "setmax"} & set(after)):
                badA = pth
        if "recompute" in names and "reinsert" in names[names.index("recompute"):]:
            badB = pth
    C.require(n_paths >= 3, "MaxCounter.discard: control flow not recognised")
    if badA:
        r.violation(keyA, f.loc, "a path removes the last copy of x without the tests on it establishing "
                    "x != maximum, and leaves the maximum as it was: once the counter runs empty (or the "
                    "maximum leaves) max() keeps reporting a size that is no longer held",
                    path=cfg.describe_path(badA))
    else:
        r.ok(keyA, f.loc, f"{n_paths} paths: the maximum is re-assigned whenever the last copy of a "
             "possibly-maximal element goes")
    if badB:
        r.violation(keyB, f.loc, "the maximum is recomputed from the container while x is temporarily "
                    "removed and put back afterwards: with several copies of the maximum the counter "
                    "forgets it although a tensor of that size is still held",
                    path=cfg.describe_path(badB))
    else:
        r.ok(keyB, f.loc, "the maximum is recomputed only from the final contents")
    a = mc.methods.get("add")
    if a is not None:
        keyC = ctx.key(a, "C04-MAXCOUNT", "add")
        ok = any(isinstance(n, ast.Assign) and any(isinstance(t, ast.Attribute) and t.attr == "_max_element"
                                                    for t in n.targets)
                 and isinstance(n.value, ast.Call) and dotted(n.value.func) == "max"
                 and {C.unparse(v) for v in n.value.args} == {"self._max_element", a.positional[1]}
                 for n in walk_local(a.node))
        if ok:
            r.ok(keyC, a.loc, "add keeps max(old maximum, x)")
        else:
            r.violation(keyC, a.loc, "add does not set the maximum to max(old maximum, x)")
    # (sensitivity map) (C) which branch a discard takes is decided by the count: the deleting branch (and with it
    # the maximum update) exactly for the last copy, the decrementing branch — by one — otherwise.  The test is
    # partially evaluated for counts 1, 2, 3.
    keyD = ctx.key(f, "C04-MAXCOUNT", "last-copy-test")
    cntn = None
    for n in walk_local(f.node):
        if isinstance(n, ast.Assign) and isinstance(n.targets[0], ast.Name) and isinstance(n.value, ast.Subscript) \
                and is_c(n.value.value):
            cntn = n.targets[0].id
    split = None
    for n in walk_local(f.node):
        if isinstance(n, ast.If) and cntn and cntn in {y.id for y in ast.walk(n.test) if isinstance(y, ast.Name)}:
            def deletes(body):
                return any(isinstance(st_, ast.Delete) and any(isinstance(t_, ast.Subscript) and is_c(t_.value) for t_ in st_.targets)
                           or (isinstance(st_, ast.Expr) and isinstance(st_.value, ast.Call) and isinstance(st_.value.func, ast.Attribute)
                               and st_.value.func.attr == "pop" and is_c(st_.value.func.value)) for st_ in body)
            if deletes(n.body) or deletes(n.orelse):
                split = (n, deletes(n.body))
    if cntn is None or split is None:
        r.exempt(keyD, f.loc, "discard does not separate 'last copy' from 'one of several' by a test on the count: not decided")
    else:
        n, del_in_body = split
        t = n.test
        ok_ = isinstance(t, ast.Compare) and len(t.ops) == 1 and isinstance(t.left, ast.Name) and t.left.id == cntn \
            and isinstance(t.comparators[0], ast.Constant)
        verdicts = {}
        if ok_:
            c0 = t.comparators[0].value
            fn_ = {ast.LtE: lambda a_: a_ <= c0, ast.Lt: lambda a_: a_ < c0, ast.Eq: lambda a_: a_ == c0, ast.Gt: lambda a_: a_ > c0,
                   ast.GtE: lambda a_: a_ >= c0, ast.NotEq: lambda a_: a_ != c0}.get(type(t.ops[0]))
            for cv in (1, 2, 3):
                verdicts[cv] = (fn_(cv) == del_in_body) if fn_ else None
        dec_body = n.orelse if del_in_body else n.body
        dec = [st_ for st_ in dec_body if (isinstance(st_, ast.Assign) and isinstance(st_.targets[0], ast.Subscript) and is_c(st_.targets[0].value)
                                          and C.unparse(st_.value).replace(" ", "") == f"{cntn}-1")
               or (isinstance(st_, ast.AugAssign) and isinstance(st_.target, ast.Subscript) and is_c(st_.target.value)
                   and isinstance(st_.op, ast.Sub) and C.unparse(st_.value) == "1")]
        probs = []
        if not ok_:
            probs.append(f"the test `{C.unparse(t, 40)}` is not a comparison of the count with a constant")
        else:
            if verdicts.get(1) is not True:
                probs.append("the last copy (count 1) does not take the deleting branch: the entry stays with count 0 and the "
                             "maximum is never recomputed")
            if verdicts.get(2) is not False or verdicts.get(3) is not False:
                probs.append("an element held several times takes the deleting branch: all its copies vanish at once")
        if not dec:
            probs.append("the other branch does not decrement the count by one")
        if probs:
            r.violation(keyD, C.loc(f, n), "; ".join(probs))
        else:
            r.ok(keyD, C.loc(f, n), "count 1 -> delete (+ maximum update), count > 1 -> decrement by one")
    return r


def rule_leaf(ctx):
    """Shared with C02-LISTS (leaf branch): a sliced leaf loses its cached size."""
    from .c02 import rule_lists
    src = rule_lists(ctx)
    r = RuleResult("C04-LEAF", "sliced leaves lose every slice-dependent cached figure", 1)
    for i in src.instances:
        if "::leaf" not in i.construct:
            continue
        c = i.construct.replace("C02-LISTS", "C04-LEAF")
        if i.verdict == "violation":
            r.violation(c, i.loc, i.reason, **i.detail)
        else:
            r.ok(c, i.loc, i.reason)
    return r


def rule_rebuild(ctx):
    """A loop that decides from a *child's* cached legs whether to delete and re-add
    the parent (``restore_ind``) is right only bottom-up: the child must already have
    been rebuilt when its parent is examined.  The loop must therefore iterate
    ``traverse()`` (children before parents); the insertion order of the
    ``children`` dict is bottom-up only for a tree fresh from ``from_path``."""
    r = RuleResult("C04-REBUILD", "dependent intermediates are rebuilt bottom-up", 1)
    from .c02 import tree_funcs
    for f in tree_funcs(ctx, ctx.tier == "thorough"):
        for lp in [n for n in walk_local(f.node) if isinstance(n, ast.For)]:
            calls = [x for st in lp.body for x in ast.walk(st) if isinstance(x, ast.Call)
                     and isinstance(x.func, ast.Attribute)]
            names = {c.func.attr for c in calls}
            if not ({"_remove_node", "contract_nodes_pair"} <= names):
                continue
            # does the decision read a cached quantity of a loop-target (child) variable?
            targets = {t.id for t in ast.walk(lp.target) if isinstance(t, ast.Name)}
            reads_child = any(c.func.attr in ("get_legs", "get_involved", "get_size") and c.args
                              and isinstance(c.args[0], ast.Name) and c.args[0].id in targets
                              for c in calls)
            if not reads_child:
                continue
            key = ctx.key(f, "C04-REBUILD")
            it = lp.iter
            la = ctx.r.local_assignments(f)
            for _ in range(4):
                if isinstance(it, ast.Call) and dotted(it.func) in ("tuple", "list", "iter", "reversed") \
                        and it.args:
                    if dotted(it.func) == "reversed":
                        break
                    it = it.args[0]
                elif isinstance(it, ast.Name) and len(la.get(it.id, [])) == 1:
                    it = la[it.id][0]
                else:
                    break
            bottom_up = isinstance(it, ast.Call) and isinstance(it.func, ast.Attribute) and \
                it.func.attr in ("traverse", "_traverse_dfs", "_traverse_ordered")
            if bottom_up:
                r.ok(key, C.loc(f, lp), "iterates traverse(): children are rebuilt before their parents")
            else:
                r.violation(key, C.loc(f, lp), f"the rebuild loop iterates `{C.unparse(lp.iter, 50)}`, "
                            "which is not a children-first order once nodes have been re-inserted "
                            "(reconfigure, anneal, an earlier restore): a parent examined before its "
                            "child reads the child's stale legs and is skipped, leaving its legs, "
                            "size, flops and the running totals un-restored")
    return r


def rule_multpair(ctx):
    """Shared with C06-MULT: the slice count enters every extensive total."""
    from .c06 import rule_multpair as src

    return C.reuse_rule(ctx, src, "C06-MULT", "C04-MULTPAIR",
                        "slice-count factor recorded on removal is the one removed on restore",
                        lambda i: True, 2)


def rule_arith(ctx):
    """'Tracked costs equal a rebuild after any sequence of mutations' needs every in-place delta of
    `remove_ind` to be the difference the definitions give: slicing an index of dimension d that a step
    involves divides the step's flops by d, and divides its size by d iff the index is on the step's result.
    The branch is evaluated symbolically (sa/engine/symbolic.py) for one abstract step (size S, flops F)."""
    from ..engine.symbolic import Interp, Poly

    r = RuleResult("C04-ARITH", "in-place deltas of remove_ind are the definitional differences", 3)
    tc = tree_class(ctx)
    f = tc.lookup("remove_ind")
    C.require(f is not None, "remove_ind not found")
    loops = [n for n in f.node.body if isinstance(n, ast.For) and "info" in C.unparse(n.iter)]
    C.require(len(loops) == 1, "remove_ind: loop over the nodes not found")
    lp = loops[0]
    # the non-leaf branch
    leaf_if = [n for n in lp.body if isinstance(n, ast.If) and "len(" in C.unparse(n.test)]
    C.require(leaf_if, "remove_ind: leaf / intermediate branches not found")
    t = leaf_if[0].test
    leaf_first = isinstance(t, ast.Compare) and isinstance(t.ops[0], ast.Eq)
    body = leaf_if[0].orelse if leaf_first else leaf_if[0].body
    recv = [a.arg for a in f.node.args.args][0]
    tree = "tree"
    for n in f.node.body:
        if isinstance(n, ast.Assign) and isinstance(n.value, ast.IfExp) and isinstance(n.targets[0], ast.Name):
            tree = n.targets[0].id
    ind = f.node.args.args[1].arg
    S, F, d = Poly.sym("S"), Poly.sym("F"), Poly.sym("d")
    env = {f"{tree}.size_dict[{ind}]": d}
    for n in f.node.body:
        if isinstance(n, ast.Assign) and isinstance(n.targets[0], ast.Name) and \
                C.unparse(n.value) == f"{tree}.size_dict[{ind}]":
            env[n.targets[0].id] = d
    nodevar = [x.id for x in ast.walk(lp.target) if isinstance(x, ast.Name)][0]
    env[f"{tree}.get_flops({nodevar})"] = F
    env[f"{tree}.get_size({nodevar})"] = S
    it = Interp(env=env)
    effects = it.run(body)
    involved_name = legs_name = None
    for n in ast.walk(ast.Module(body=body, type_ignores=[])):
        if isinstance(n, ast.Assign) and isinstance(n.targets[0], ast.Name) and isinstance(n.value, ast.Call) \
                and isinstance(n.value.func, ast.Attribute):
            if n.value.func.attr == "get_involved":
                involved_name = n.targets[0].id
            elif n.value.func.attr == "get_legs":
                legs_name = n.targets[0].id
    C.require(involved_name and legs_name, "remove_ind: involved / legs of the node not found")
    skip = (f"{ind} not in {involved_name}", False)
    on_res = (f"{ind} in {legs_name}", True)

    def sel(kind, frag, need=(), forbid=()):
        return [e for e in effects if e.kind == kind and frag in e.target and all(c in e.conds for c in need)
                and not any(c in e.conds for c in forbid)]

    def minus(e, base):
        v = e.expr
        return isinstance(v, ast.Call) and C.call_name(v) == "legs_without" and len(v.args) == 2 and \
            dotted(v.args[0]) == base and dotted(v.args[1]) == ind

    # flops
    key = ctx.key(f, "C04-ARITH", "flops")
    probs = []
    untouched = [e for e in effects if (f"{ind} not in {involved_name}", True) in e.conds]
    if untouched:
        probs.append(f"a step that does not involve the index is changed (`{C.unparse(untouched[0].node, 50)}`)")
    st = sel("store", "['flops']", need=[skip])
    if not st or any(e.value != F.div(d) for e in st):
        probs.append(f"the cached flops of an affected step do not become F/d ({[e.value for e in st][:1]})")
    dl = sel("aug", "._flops", need=[skip])
    if not dl or any(e.delta != F.div(d) - F for e in dl):
        probs.append(f"the running flops total does not move by F/d - F ({[e.delta for e in dl][:1]})")
    inv = sel("store", "['involved']", need=[skip])
    if not inv or not all(minus(e, involved_name) for e in inv):
        probs.append("the cached involved indices do not become the old ones without the index")
    if any(on_res in e.conds for e in st + dl + inv) and not all(on_res in e.conds or (on_res[0], False) in e.conds for e in st + dl + inv):
        probs.append("the flops update depends on whether the index is on the result")
    if probs:
        r.violation(key, C.loc(f, lp), "; ".join(probs))
    else:
        r.ok(key, C.loc(f, lp), "affected step: flops -> F/d, total += F/d - F, involved loses the index; others untouched")
    # size / write
    key = ctx.key(f, "C04-ARITH", "size")
    probs = []
    off = [e for e in effects if (on_res[0], False) in e.conds and
           any(k_ in e.target for k_ in ("['size']", "['legs']", "._write", "._sizes"))]
    if off:
        probs.append("size figures change although the index is summed at this step")
    st = sel("store", "['size']", need=[on_res])
    if len(st) != 1 or st[0].value != S.div(d):
        probs.append(f"the cached size does not become S/d exactly when the index is on the result ({[e.value for e in st][:1]})")
    dl = sel("aug", "._write", need=[on_res])
    if len(dl) != 1 or dl[0].delta != S.div(d) - S:
        probs.append(f"the running write total does not move by S/d - S ({[e.delta for e in dl][:1]})")
    dis = sel("call", "._sizes.discard", need=[on_res])
    add = sel("call", "._sizes.add", need=[on_res])
    if len(dis) != 1 or dis[0].value != (S,):
        probs.append("the old size is not struck off the size multiset")
    if len(add) != 1 or add[0].value != (S.div(d),):
        probs.append("S/d is not entered into the size multiset")
    lg = sel("store", "['legs']", need=[on_res])
    if len(lg) != 1 or not minus(lg[0], legs_name):
        probs.append("the cached legs do not become the old ones without the index")
    if probs:
        r.violation(key, C.loc(f, lp), "; ".join(probs))
    else:
        r.ok(key, C.loc(f, lp), "index on the result: size -> S/d, write += S/d - S, multiset S -> S/d, legs lose the index; otherwise untouched")
    # multiplicity
    key = ctx.key(f, "C04-ARITH", "multiplicity")
    top = Interp(env=dict(env, **{f"{tree}.multiplicity": Poly.sym("M")})).run(
        [n for n in f.node.body if n is not lp and not isinstance(n, ast.For)])
    ms = [e for e in top if (e.kind in ("store", "aug")) and e.target == f"{tree}.multiplicity"]
    M = Poly.sym("M")
    good = [e for e in ms if (e.kind == "store" and e.value == M * d) or (e.kind == "aug" and e.op == "Mult" and e.value == d)]
    slicing = [e for e in good if any(c[0].endswith("is None") and c[1] for c in e.conds)]
    if len(ms) == 1 and slicing:
        r.ok(key, C.loc(f, ms[0].node), "slice count multiplied by d exactly when the index is sliced (not projected)")
    else:
        r.violation(key, f.loc, f"the slice count is not multiplied by the index dimension exactly once, under `project is None` "
                    f"({[(e.kind, e.value, list(e.conds)) for e in ms][:2]})")
    return r


def rule_merge(ctx):
    """Shared with C18-MERGE (seed C01_4): annealing installs the legs, cost and size computed by the move
    evaluator on the new node (`contract_nodes_pair(legs=…, cost=…, size=…)`); they are the tree's own figures
    only if the evaluator merges the two leg tables by the tree's survival rule."""
    from .c18 import rule_merge as src

    return C.reuse_rule(ctx, src, "C18-MERGE", "C04-MERGE",
                        "figures installed by annealing moves follow the tree's survival rule", lambda i: True, 3)


def rule_orient(ctx):
    """(seed C04_13) Which child of a node is 'left' fixes the depth-first execution order, `get_path()` and
    `peak_size()`.  A tree after a history of transformations equals a tree rebuilt from (path, sliced indices)
    only if that choice is a function of the two node sets alone: a tie-break that consults the tree's current
    state (sizes under the current slicing, cached figures) makes the orientation depend on *when* the node was
    (re)created."""
    r = RuleResult("C04-ORIENT", "the left/right orientation of a node depends on the node sets only", 1)
    tc = tree_class(ctx)
    f = tc.lookup("contract_nodes_pair")
    C.require(f is not None, "contract_nodes_pair not found")
    fl = ctx.flow(f)
    # the test that decides the pair stored as children
    link = [n for n in walk_local(f.node) if isinstance(n, ast.Assign) and
            any(isinstance(t, ast.Subscript) and C.unparse(t.value) == "self.children" for t in n.targets)]
    C.require(link, "contract_nodes_pair: children store not found")
    val = link[0].value
    lrn = dotted(val)
    C.require(lrn is not None, "contract_nodes_pair: children are not stored from a local pair")
    tests = []
    for n in walk_local(f.node):
        if isinstance(n, ast.Assign) and any(isinstance(t, ast.Name) and t.id == lrn for t in n.targets):
            for i_, _ in C.enclosing_ifs(f, n):
                if i_ not in tests:
                    tests.append(i_)
    C.require(tests, "contract_nodes_pair: the test that orients the pair was not found")
    key = ctx.key(f, "C04-ORIENT")
    params = set([a.arg for a in f.node.args.args][1:3])
    bad = None
    for t in tests:
        tn = fl.cfg.node_of(t)
        deps = fl.deps(t.test, tn.id, "may")
        for d_ in deps:
            if d_[0] == "param" and d_[1] in params:
                continue
            if d_[0] == "call" and d_[1].split(".")[-1] in ("len", "min", "max", "sorted", "tuple", "hash"):
                continue
            if d_[0] in ("const", "global") :
                continue
            bad = (t, d_)
            break
        if bad:
            break
    if bad:
        t, d_ = bad
        r.violation(key, C.loc(f, t), f"the orientation test `{C.unparse(t.test, 50)}` depends on {d_[0]} `{d_[1]}` — the tree's state "
                    f"at the moment the node is created: a node re-created while an index is sliced (restore_ind, "
                    f"reconfigure, anneal) can be oriented differently from the same node in a tree rebuilt from the path, "
                    f"and execution order, get_path() and peak_size() differ although the structure is the same")
    else:
        r.ok(key, C.loc(f, tests[0]), "left/right is decided from the two node sets alone (extent, smallest leaf)")
    return r


def rule_keys(ctx):
    """Shared with C02-KEYS (seed C04_14): a figure cached in a per-node entry under a key no getter defines (a
    memoised peak, say) is refreshed by none of the incremental updates — the tracked tree keeps reporting it after
    a change that a rebuild would notice."""
    from .c02 import rule_keys as src

    return C.reuse_rule(ctx, src, "C02-KEYS", "C04-KEYS", "no ad-hoc cached figures in per-node entries", lambda i: True, 8)


RULES = [rule_keys, rule_orient, rule_merge, rule_arith, rule_copy, rule_alias, rule_track, rule_staleread, rule_pre, rule_presource, rule_whole,
         rule_presurv, rule_pure, rule_rebuild, rule_multpair, rule_maxcount, rule_leaf]
