"""C03 — reported flops/write/size match definition (narrow structural clauses)."""

from __future__ import annotations

import ast

from ..engine.program import AnalysisError, dotted, walk_local
from ..engine.report import RuleResult
from . import common as C
from .c02 import tree_class, tree_funcs

PID = "C03"
EXPLANATION = (
    "Two structural clauses of the cost definitions, decided by def-use dependence "
    "on the getters' CFGs: (PROV) get_flops is computed from the *involved* indices "
    "and size_dict and not from the surviving legs; get_size from the surviving legs "
    "and size_dict; get_involved is the union of the children's legs; get_legs keeps "
    "an index iff its merged count is below the global appearance table, which counts "
    "inputs and output; (MULT) every reporter of an extensive total (total_flops, "
    "total_write, combo_cost, contract_stats flops/write) must-depends on "
    "self.multiplicity on every path, no reporter of an intensive figure (max_size, "
    "peak_size, contract_stats size) depends on it, and multiplicity is written only "
    "by __init__, set_state_from, remove_ind (slicing branch only) and restore_ind. "
    "The arithmetic and the 'shapes actually produced' clause are runtime facts and "
    "are not decided."
)
ASSUMPTIONS = ("compute_size_by_dict(indices, size_dict) is the product of the sizes of `indices`",)


def _ret_deps(ctx, f, mode="may"):
    fl = ctx.flow(f)
    out = []
    for n in fl.returns():
        if n.ast.value is not None:
            out.append((n, fl.deps(n.ast.value, n.id, mode)))
    return fl, out


def _calls(deps):
    return {d[1].split(".")[-1] for d in deps if d[0] == "call"}


def _attrs(deps):
    return {d[2] for d in deps if d[0] == "attr"} | {d[1] for d in deps if d[0] == "attrname"}


def rule_prov(ctx):
    r = RuleResult("C03-PROV", "provenance of the cost definitions", 5)
    tc = tree_class(ctx)
    # get_flops: involved + size_dict, not legs
    gf = tc.lookup("get_flops")
    gs = tc.lookup("get_size")
    gi = tc.lookup("get_involved")
    gl = tc.lookup("get_legs")
    for f in (gf, gs, gi, gl):
        C.require(f is not None, "cost getter not found")
    spec = [
        (gf, {"get_involved"}, {"get_legs"}, "flops = product over all involved indices"),
        (gs, {"get_legs"}, {"get_involved"}, "size = product over the surviving legs"),
    ]
    for f, need, forbid, what in spec:
        fl, rets = _ret_deps(ctx, f)
        key = ctx.key(f, "C03-PROV")
        bad = None
        nontrivial = 0
        for n, deps in rets:
            if isinstance(n.ast.value, ast.Constant):
                continue  # leaf: return 0
            nontrivial += 1
            calls, attrs = _calls(deps), _attrs(deps)
            if not need <= calls:
                bad = (n, f"return value does not derive from {sorted(need)}")
            elif forbid & calls:
                bad = (n, f"return value derives from {sorted(forbid & calls)}")
            elif "size_dict" not in attrs:
                bad = (n, "return value does not use size_dict")
            elif not ({"compute_size_by_dict", "prod"} & calls):
                bad = (n, "sizes are not combined by a product (compute_size_by_dict/prod)")
        if nontrivial == 0:
            bad = (rets[0][0] if rets else None, "no non-trivial return")
        if bad:
            r.violation(key, C.loc(f, bad[0].ast) if bad[0] else f.loc, f"{what}: {bad[1]}")
        else:
            r.ok(key, f.loc, what)
    # get_involved: union of children's legs
    fl, rets = _ret_deps(ctx, gi)
    key = ctx.key(gi, "C03-PROV")
    good = False
    for n, deps in rets:
        if isinstance(n.ast.value, ast.Dict):
            continue
        calls, attrs = _calls(deps), _attrs(deps)
        txt = " ".join(sorted(str(d) for d in deps))
        if "legs_union" in calls and "children" in attrs and "get_legs" in txt:
            good = True
    if good:
        r.ok(key, gi.loc, "involved = legs_union of the children's legs")
    else:
        r.violation(key, gi.loc, "involved is not the union of the children's legs")
    # get_legs: keep iff merged count < global appearances
    key = ctx.key(gl, "C03-PROV")
    cmp_ok = False
    for n in walk_local(gl.node):
        if isinstance(n, ast.Compare) and len(n.ops) == 1 and \
                "self.appearances[" in ast.unparse(n.comparators[0]):
            if isinstance(n.ops[0], (ast.Lt, ast.NotEq)):
                cmp_ok = True
            else:
                cmp_ok = False
                break
    if cmp_ok:
        r.ok(key, gl.loc, "an index survives iff its merged count is below the global count")
    else:
        r.violation(key, gl.loc, "survival test of get_legs is not `count < appearances[ix]`")
    # appearances counts inputs and output
    init = tc.methods.get("__init__")
    C.require(init is not None, "ContractionTree.__init__ not found")
    srcs = set()
    for n in walk_local(init.node):
        if isinstance(n, ast.For):
            body_txt = " ".join(ast.unparse(b) for b in n.body)
            if "self.appearances[" in body_txt and "+ 1" in body_txt:
                it = ast.unparse(n.iter)
                outer = [l for l in C.enclosing_loops(init, n)]
                if outer:
                    it = ast.unparse(outer[-1].iter)
                srcs.add(it)
    key = ctx.key(init, "C03-PROV", "appearances")
    if {"self.inputs", "self.output"} <= srcs:
        r.ok(key, init.loc, "appearance table counts inputs and output")
    else:
        r.violation(key, init.loc, f"appearance table is built from {sorted(srcs)} only: "
                    "output indices would be contracted away")
    return r


EXTENSIVE = [("total_flops", None), ("total_write", None), ("combo_cost", None),
             ("contract_stats", "flops"), ("contract_stats", "write")]
INTENSIVE = [("max_size", None), ("peak_size", None), ("contract_stats", "size")]


def rule_mult(ctx):
    r = RuleResult("C03-MULT", "slice multiplicity on extensive totals only", 8)
    tc = tree_class(ctx)

    def values(f, dkey):
        fl = ctx.flow(f)
        out = []
        for n in fl.returns():
            v = n.ast.value
            if v is None:
                continue
            if dkey is not None:
                if isinstance(v, ast.Dict):
                    for k, vv in zip(v.keys, v.values):
                        if isinstance(k, ast.Constant) and k.value == dkey:
                            out.append((n, vv))
                else:
                    out.append((n, v))
            else:
                out.append((n, v))
        return fl, out

    for name, dkey in EXTENSIVE:
        f = tc.lookup(name)
        C.require(f is not None, f"{name} not found")
        fl, vals = values(f, dkey)
        key = ctx.key(f, "C03-MULT", dkey or "return")
        bad = None
        for n, v in vals:
            deps = fl.deps(v, n.id, "must")
            if "multiplicity" not in _attrs(deps):
                bad = n
        if not vals:
            raise AnalysisError(f"{name}: no return value found")
        if bad is not None:
            r.violation(key, C.loc(f, bad.ast), "an extensive total is returned that, on some "
                        "path, does not include the number of slices (self.multiplicity)")
        else:
            r.ok(key, f.loc, "every returned value depends on self.multiplicity on every path")
    for name, dkey in INTENSIVE:
        f = tc.lookup(name)
        C.require(f is not None, f"{name} not found")
        fl, vals = values(f, dkey)
        key = ctx.key(f, "C03-MULT", dkey or "return")
        bad = None
        for n, v in vals:
            deps = fl.deps(v, n.id, "may")
            if "multiplicity" in _attrs(deps) or "nslices" in _attrs(deps):
                bad = n
        if bad is not None:
            r.violation(key, C.loc(f, bad.ast), "an intensive figure (per-slice size) depends on "
                        "the number of slices")
        else:
            r.ok(key, f.loc, "independent of the number of slices")
    # writers of multiplicity
    allowed = {"__init__", "set_state_from", "remove_ind", "restore_ind"}
    for f in tree_funcs(ctx, ctx.tier == "thorough"):
        d = ctx.effects.direct(f)
        for a in d["access"]:
            if a.attr != "multiplicity" or a.kind != "write":
                continue
            key = ctx.key(f, "C03-MULT", "write")
            if f.name not in allowed:
                r.violation(key, a.loc, "self.multiplicity is written outside __init__/"
                            "set_state_from/remove_ind/restore_ind")
            elif f.name == "remove_ind":
                g = [(C.unparse(i.test), t) for i, t in C.enclosing_ifs(f, a.node)]
                if any(x == "project is None" and t for x, t in g):
                    r.ok(key, a.loc, "written in the slicing branch only")
                else:
                    r.violation(key, a.loc, "multiplicity is updated outside the slicing branch "
                                "(a projected index must not multiply the totals)")
            else:
                r.ok(key, a.loc, "allowed writer")
    return r


def rule_leafcount(ctx):
    """Shared with C18-SURV: the tree's own survival predicates and leaf counts."""
    from .c18 import rule_surv

    return C.reuse_rule(ctx, rule_surv, "C18-SURV", "C03-SURV",
                        "the tree's survival predicates and leaf counts (what 'indices that "
                        "survive' means)", lambda i: C.CORE in i.construct, 3)


def rule_multpair(ctx):
    """Shared with C06-MULT: the slice count multiplied on removal is the one
    divided on restore."""
    from .c06 import rule_multpair as src

    return C.reuse_rule(ctx, src, "C06-MULT", "C03-MULTPAIR",
                        "slice-count factor recorded on removal is the one divided on restore",
                        lambda i: True, 2)


def rule_exec(ctx):
    """Shared with C02-COREKEY / C02-LISTS(leaf): the steps that are executed are the
    ones reported only if the compiled contractor is looked up with every option
    (the order among them), and the peak only if sliced leaves lose their cached size."""
    from .c02 import rule_corekey, rule_lists

    r = C.reuse_rule(ctx, rule_corekey, "C02-COREKEY", "C03-EXEC",
                     "executed steps are the reported ones: contractor memo keyed by every "
                     "option; sliced leaves lose their cached size", lambda i: True, 2)
    src = rule_lists(ctx)
    for i in src.instances:
        if "::leaf" not in i.construct:
            continue
        c = i.construct.replace("C02-LISTS", "C03-EXEC")
        if i.verdict == "violation":
            r.violation(c, i.loc, i.reason, **i.detail)
        else:
            r.ok(c, i.loc, i.reason)
    return r


RULES = [rule_prov, rule_mult, rule_leafcount, rule_multpair, rule_exec]
