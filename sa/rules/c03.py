"""C03 — reported flops/write/size match definition (narrow structural clauses)."""

from __future__ import annotations

import ast

from ..engine.program import AnalysisError, dotted, walk_local
from ..engine.report import RuleResult
from . import common as C
from .c02 import tree_class, tree_funcs

PID = "C03"
EXPLANATION = (
    "Two structural clauses of the cost definitions, decided by def-use dependence "
    "on the getters' CFGs: (PROV) get_flops is computed from the *involved* indices "
    "and size_dict and not from the surviving legs; get_size from the surviving legs "
    "and size_dict; get_involved is the union of the children's legs; get_legs keeps "
    "an index iff its merged count is below the global appearance table, which counts "
    "inputs and output; (MULT) every reporter of an extensive total (total_flops, "
    "total_write, combo_cost, contract_stats flops/write) must-depends on "
    "self.multiplicity on every path, no reporter of an intensive figure (max_size, "
    "peak_size, contract_stats size) depends on it, and multiplicity is written only "
    "by __init__, set_state_from, remove_ind (slicing branch only) and restore_ind. "
    "The arithmetic and the 'shapes actually produced' clause are runtime facts and "
    "are not decided. "
    "Later rounds added: "
    "(ARITH, shared with C04-ARITH) slicing rescales the per-step and total figures by "
    "the definitional factors (symbolic evaluation of remove_ind); (INTCOST) stored "
    "figures use integer arithmetic; (TOTALSTATE) totals and their flags are transferred "
    "unconditionally. "
    'Round 7: (ORDER) a requested traversal order is handed on to every delegate of the tree that takes one. '
)
ASSUMPTIONS = ("compute_size_by_dict(indices, size_dict) is the product of the sizes of `indices`",)


def _ret_deps(ctx, f, mode="may"):
    fl = ctx.flow(f)
    out = []
    for n in fl.returns():
        if n.ast.value is not None:
            out.append((n, fl.deps(n.ast.value, n.id, mode)))
    return fl, out


def _calls(deps):
    return {d[1].split(".")[-1] for d in deps if d[0] == "call"}


def _attrs(deps):
    return {d[2] for d in deps if d[0] == "attr"} | {d[1] for d in deps if d[0] == "attrname"}


def rule_prov(ctx):
    r = RuleResult("C03-PROV", "provenance of the cost definitions", 5)
    tc = tree_class(ctx)
    # get_flops: involved + size_dict, not legs
    gf = tc.lookup("get_flops")
    gs = tc.lookup("get_size")
    gi = tc.lookup("get_involved")
    gl = tc.lookup("get_legs")
    for f in (gf, gs, gi, gl):
        C.require(f is not None, "cost getter not found")
    spec = [
        (gf, {"get_involved"}, {"get_legs"}, "flops = product over all involved indices"),
        (gs, {"get_legs"}, {"get_involved"}, "size = product over the surviving legs"),
    ]
    for f, need, forbid, what in spec:
        fl, rets = _ret_deps(ctx, f)
        key = ctx.key(f, "C03-PROV")
        bad = None
        nontrivial = 0
        for n, deps in rets:
            if isinstance(n.ast.value, ast.Constant):
                continue  # leaf: return 0
            nontrivial += 1
            calls, attrs = _calls(deps), _attrs(deps)
            if not need <= calls:
                bad = (n, f"return value does not derive from {sorted(need)}")
            elif forbid & calls:
                bad = (n, f"return value derives from {sorted(forbid & calls)}")
            elif "size_dict" not in attrs:
                bad = (n, "return value does not use size_dict")
            elif not ({"compute_size_by_dict", "prod"} & calls):
                bad = (n, "sizes are not combined by a product (compute_size_by_dict/prod)")
        if nontrivial == 0:
            bad = (rets[0][0] if rets else None, "no non-trivial return")
        if bad:
            r.violation(key, C.loc(f, bad[0].ast) if bad[0] else f.loc, f"{what}: {bad[1]}")
        else:
            r.ok(key, f.loc, what)
    # get_involved: union of children's legs
    fl, rets = _ret_deps(ctx, gi)
    key = ctx.key(gi, "C03-PROV")
    good = False
    for n, deps in rets:
        if isinstance(n.ast.value, ast.Dict):
            continue
        calls, attrs = _calls(deps), _attrs(deps)
        txt = " ".join(sorted(str(d) for d in deps))
        if "legs_union" in calls and "children" in attrs and "get_legs" in txt:
            good = True
    if good:
        r.ok(key, gi.loc, "involved = legs_union of the children's legs")
    else:
        r.violation(key, gi.loc, "involved is not the union of the children's legs")
    # get_legs: keep iff merged count < global appearances
    key = ctx.key(gl, "C03-PROV")
    cmp_ok = False
    for n in walk_local(gl.node):
        if isinstance(n, ast.Compare) and len(n.ops) == 1 and \
                "self.appearances[" in ast.unparse(n.comparators[0]):
            if isinstance(n.ops[0], (ast.Lt, ast.NotEq)):
                cmp_ok = True
            else:
                cmp_ok = False
                break
    if cmp_ok:
        r.ok(key, gl.loc, "an index survives iff its merged count is below the global count")
    else:
        r.violation(key, gl.loc, "survival test of get_legs is not `count < appearances[ix]`")
    # appearances counts inputs and output
    init = tc.methods.get("__init__")
    C.require(init is not None, "ContractionTree.__init__ not found")
    srcs = set()
    for n in walk_local(init.node):
        if isinstance(n, ast.For):
            body_txt = " ".join(ast.unparse(b) for b in n.body)
            if "self.appearances[" in body_txt and "+ 1" in body_txt:
                it = ast.unparse(n.iter)
                outer = [l for l in C.enclosing_loops(init, n)]
                if outer:
                    it = ast.unparse(outer[-1].iter)
                srcs.add(it)
    key = ctx.key(init, "C03-PROV", "appearances")
    if {"self.inputs", "self.output"} <= srcs:
        r.ok(key, init.loc, "appearance table counts inputs and output")
    else:
        r.violation(key, init.loc, f"appearance table is built from {sorted(srcs)} only: "
                    "output indices would be contracted away")
    return r


EXTENSIVE = [("total_flops", None), ("total_write", None), ("combo_cost", None),
             ("contract_stats", "flops"), ("contract_stats", "write")]
INTENSIVE = [("max_size", None), ("peak_size", None), ("contract_stats", "size")]


def rule_mult(ctx):
    r = RuleResult("C03-MULT", "slice multiplicity on extensive totals only", 8)
    tc = tree_class(ctx)

    def values(f, dkey):
        fl = ctx.flow(f)
        out = []
        for n in fl.returns():
            v = n.ast.value
            if v is None:
                continue
            if dkey is not None:
                if isinstance(v, ast.Dict):
                    for k, vv in zip(v.keys, v.values):
                        if isinstance(k, ast.Constant) and k.value == dkey:
                            out.append((n, vv))
                else:
                    out.append((n, v))
            else:
                out.append((n, v))
        return fl, out

    for name, dkey in EXTENSIVE:
        f = tc.lookup(name)
        C.require(f is not None, f"{name} not found")
        fl, vals = values(f, dkey)
        key = ctx.key(f, "C03-MULT", dkey or "return")
        bad = None
        for n, v in vals:
            deps = fl.deps(v, n.id, "must")
            if "multiplicity" not in _attrs(deps):
                bad = n
        if not vals:
            raise AnalysisError(f"{name}: no return value found")
        if bad is not None:
            r.violation(key, C.loc(f, bad.ast), "an extensive total is returned that, on some "
                        "path, does not include the number of slices (self.multiplicity)")
        else:
            r.ok(key, f.loc, "every returned value depends on self.multiplicity on every path")
    for name, dkey in INTENSIVE:
        f = tc.lookup(name)
        C.require(f is not None, f"{name} not found")
        fl, vals = values(f, dkey)
        key = ctx.key(f, "C03-MULT", dkey or "return")
        bad = None
        for n, v in vals:
            deps = fl.deps(v, n.id, "may")
            if "multiplicity" in _attrs(deps) or "nslices" in _attrs(deps):
                bad = n
        if bad is not None:
            r.violation(key, C.loc(f, bad.ast), "an intensive figure (per-slice size) depends on "
                        "the number of slices")
        else:
            r.ok(key, f.loc, "independent of the number of slices")
    # writers of multiplicity
    allowed = {"__init__", "set_state_from", "remove_ind", "restore_ind"}
    for f in tree_funcs(ctx, ctx.tier == "thorough"):
        d = ctx.effects.direct(f)
        for a in d["access"]:
            if a.attr != "multiplicity" or a.kind != "write":
                continue
            key = ctx.key(f, "C03-MULT", "write")
            if f.name not in allowed:
                r.violation(key, a.loc, "self.multiplicity is written outside __init__/"
                            "set_state_from/remove_ind/restore_ind")
            elif f.name == "remove_ind":
                g = [(C.unparse(i.test), t) for i, t in C.enclosing_ifs(f, a.node)]
                if any(x == "project is None" and t for x, t in g):
                    r.ok(key, a.loc, "written in the slicing branch only")
                else:
                    r.violation(key, a.loc, "multiplicity is updated outside the slicing branch "
                                "(a projected index must not multiply the totals)")
            else:
                r.ok(key, a.loc, "allowed writer")
    return r


def rule_leafcount(ctx):
    """Shared with C18-SURV: the tree's own survival predicates and leaf counts."""
    from .c18 import rule_surv

    return C.reuse_rule(ctx, rule_surv, "C18-SURV", "C03-SURV",
                        "the tree's survival predicates and leaf counts (what 'indices that "
                        "survive' means)", lambda i: C.CORE in i.construct or C.ANNEAL in i.construct, 3)


def rule_multpair(ctx):
    """Shared with C06-MULT: the slice count multiplied on removal is the one
    divided on restore."""
    from .c06 import rule_multpair as src

    return C.reuse_rule(ctx, src, "C06-MULT", "C03-MULTPAIR",
                        "slice-count factor recorded on removal is the one divided on restore",
                        lambda i: True, 2)


def rule_peak(ctx):
    """The running total of ``peak_size`` is a ledger: what is entered for a tensor when
    it comes into being is what is struck off when it is consumed.  Every amount that
    enters or leaves the total therefore comes from one source, ``get_size`` (the size
    of the tensor *as the tree holds it*, i.e. after single-term preprocessing and
    slicing), including the opening balance over the leaves."""
    r = RuleResult("C03-PEAK", "peak_size enters and removes the same quantity per tensor", 3)
    tc = tree_class(ctx)
    f = tc.lookup("peak_size")
    C.require(f is not None, "peak_size not found")
    fl = ctx.flow(f)
    # the accumulator: the name that is += / -= inside the traversal loop
    accs = {}
    for n in walk_local(f.node):
        if isinstance(n, ast.AugAssign) and isinstance(n.target, ast.Name) and \
                isinstance(n.op, (ast.Add, ast.Sub)) and C.enclosing_loops(f, n):
            accs.setdefault(n.target.id, []).append(n)
    C.require(accs, "peak_size: running total (+=/-= in the traversal loop) not recognised")
    acc = max(accs, key=lambda k: len(accs[k]))

    la = ctx.r.local_assignments(f)

    def expand(e, depth=0):
        """the expression with single-definition locals replaced by their definitions"""
        out = [e]
        if depth < 3:
            for x in ast.walk(e):
                if isinstance(x, ast.Name) and x.id != acc:
                    for d in la.get(x.id, []):
                        if not isinstance(d, ast.Name) or d.id != x.id:
                            out += expand(d, depth + 1)
        return out

    def amounts_ok(e):
        """every call contributing a size is <tree>.get_size; no other size source"""
        calls = [x for sub in expand(e) for x in ast.walk(sub) if isinstance(x, ast.Call)]
        srcs = set()
        for c in calls:
            d = dotted(c.func) or ""
            if isinstance(c.func, ast.Attribute):
                srcs.add(c.func.attr)
            elif d:
                srcs.add(d)
            for a in c.args:
                if isinstance(a, ast.Attribute):
                    srcs.add(a.attr)          # map(self.get_size, ...)
        srcs -= {"sum", "map", "gen_leaves", "range", "len", "tuple", "list", "node_from_single"}
        return srcs == {"get_size"}, sorted(srcs)

    for n in accs[acc]:
        ok, srcs = amounts_ok(n.value)
        key = ctx.key(f, "C03-PEAK", "step")
        if ok:
            r.ok(key, C.loc(f, n), f"{'+' if isinstance(n.op, ast.Add) else '-'}= get_size(node)")
        else:
            r.violation(key, C.loc(f, n), f"the running total is adjusted by {srcs}, not by get_size")
    inits = [st for st in walk_local(f.node) if isinstance(st, ast.Assign)
             and any(isinstance(t, ast.Name) and t.id == acc for t in st.targets)]
    C.require(inits, "peak_size: opening balance not recognised")
    for st in inits:
        ok, srcs = amounts_ok(st.value)
        key = ctx.key(f, "C03-PEAK", "opening")
        if ok or (isinstance(st.value, ast.Constant) and st.value.value == 0):
            r.ok(key, C.loc(f, st), "opening balance = sum of get_size over the leaves")
        else:
            r.violation(key, C.loc(f, st), f"the opening balance comes from {srcs} while the amounts "
                        "struck off later come from get_size: for a leaf whose held size differs from "
                        "its raw shape (single-term preprocessing) the surplus stays in the total "
                        "and the reported peak exceeds the tensors that really coexist")
    # (sensitivity map) the order of the ledger within one step: the result enters, the peak is read while
    # operands and result coexist, then both operands leave — evaluated symbolically for one step
    from ..engine.symbolic import Interp, Poly
    loops = [n for n in f.node.body if isinstance(n, ast.For) and "traverse" in C.unparse(n.iter)]
    key = ctx.key(f, "C03-PEAK", "step-order")
    if not loops or not (isinstance(loops[0].target, ast.Tuple) and len(loops[0].target.elts) == 3):
        raise AnalysisError("peak_size: loop over (parent, left, right) not recognised")
    pn, ln, rn = [dotted(e) for e in loops[0].target.elts]
    recv = [a.arg for a in f.node.args.args][0]
    T, P = Poly.sym("T"), Poly.sym("PEAK")
    sp, sl, sr = Poly.sym("size_p"), Poly.sym("size_l"), Poly.sym("size_r")
    peakn = None
    for n in walk_local(loops[0]):
        if isinstance(n, ast.Assign) and isinstance(n.targets[0], ast.Name) and isinstance(n.value, ast.Call) \
                and dotted(n.value.func) == "max":
            peakn = n.targets[0].id
    C.require(peakn is not None, "peak_size: running maximum not recognised")
    env = {acc: T, peakn: P, f"{recv}.get_size({pn})": sp, f"{recv}.get_size({ln})": sl, f"{recv}.get_size({rn})": sr}
    it = Interp(env=env)
    body = list(loops[0].body)
    final_env = dict(env)
    # straight-line: run statement by statement on one environment
    ok_form = all(isinstance(st, (ast.Assign, ast.AugAssign, ast.Expr)) for st in body)
    if not ok_form:
        r.exempt(key, C.loc(f, loops[0]), "the step is not straight-line: order of the ledger not decided")
    else:
        sets = {}
        for st in body:
            it._stmt(st, final_env, sets, [], [])
        want_peak = Poly.sym("max(" + ", ".join(sorted([repr(P), repr(T + sp)])) + ")")
        probs = []
        if final_env.get(peakn) != want_peak:
            probs.append(f"the peak becomes {final_env.get(peakn)}, expected max(peak, total + size(result)): it must be read "
                         f"while the operands and the result coexist")
        if final_env.get(acc) != T + sp - sl - sr:
            probs.append(f"after a step the running total is {final_env.get(acc)}, expected total + size(result) - size(left) - size(right)")
        if probs:
            r.violation(key, C.loc(f, loops[0]), "; ".join(probs))
        else:
            r.ok(key, C.loc(f, loops[0]), "per step: result enters, peak = max(peak, total), both operands leave")
    return r


def rule_intsize(ctx):
    """Costs are products of sizes that routinely exceed 2**63; they are exact only in
    Python integers.  The tree keeps the caller's size mapping as is only when its
    values are (exactly) ``int``; anything else - numpy integers included - is
    converted with ``int()``."""
    r = RuleResult("C03-INTSIZE", "sizes are normalised to Python integers", 1)
    tc = tree_class(ctx)
    f = tc.methods.get("__init__")
    C.require(f is not None, "ContractionTree.__init__ not found")
    stores = [n for n in walk_local(f.node) if isinstance(n, ast.Assign) and any(
        isinstance(t, ast.Attribute) and t.attr == "size_dict" and isinstance(t.value, ast.Name)
        and t.value.id == "self" for t in n.targets)]
    C.require(stores, "store of self.size_dict in ContractionTree.__init__ not found")
    for st in stores:
        key = ctx.key(f, "C03-INTSIZE")
        v = st.value
        converted = isinstance(v, ast.DictComp) and isinstance(v.value, ast.Call) and \
            dotted(v.value.func) == "int"
        if converted:
            r.ok(key, C.loc(f, st), "values converted with int()")
            continue
        # kept as is: must be under a guard that established isinstance(<value>, int)
        guard = None
        for i, taken in C.enclosing_ifs(f, st):
            t = i.test
            neg = False
            if isinstance(t, ast.UnaryOp) and isinstance(t.op, ast.Not):
                t, neg = t.operand, True
            if isinstance(t, ast.Call) and dotted(t.func) == "isinstance" and len(t.args) == 2:
                # store in the branch where isinstance(...) is true
                if taken != neg:
                    guard = t
        if guard is None:
            r.violation(key, C.loc(f, st), "the caller's size mapping is kept without establishing "
                        "that its values are Python ints")
        else:
            cls = guard.args[1]
            names = [dotted(x) for x in (cls.elts if isinstance(cls, ast.Tuple) else [cls])]
            if set(names) <= {"int", "bool"}:
                r.ok(key, C.loc(f, st), "kept only if the values are exactly int")
            else:
                r.violation(key, C.loc(f, st), f"the caller's size mapping is kept whenever its values "
                            f"are {names}: that admits fixed-width numpy integers, whose products wrap "
                            "silently beyond 2**63 - reported flops/sizes then differ from the definition")
    return r


def rule_exec(ctx):
    """Shared with C02-COREKEY / C02-LISTS(leaf): the steps that are executed are the
    ones reported only if the compiled contractor is looked up with every option
    (the order among them), and the peak only if sliced leaves lose their cached size."""
    from .c02 import rule_corekey, rule_lists

    r = C.reuse_rule(ctx, rule_corekey, "C02-COREKEY", "C03-EXEC",
                     "executed steps are the reported ones: contractor memo keyed by every "
                     "option; sliced leaves lose their cached size", lambda i: True, 2)
    src = rule_lists(ctx)
    for i in src.instances:
        if "::leaf" not in i.construct:
            continue
        c = i.construct.replace("C02-LISTS", "C03-EXEC")
        if i.verdict == "violation":
            r.violation(c, i.loc, i.reason, **i.detail)
        else:
            r.ok(c, i.loc, i.reason)
    return r


def rule_maxcount(ctx):
    """Shared with C04-MAXCOUNT: max_size / contraction_width are read off the counter."""
    from .c04 import rule_maxcount as src

    return C.reuse_rule(ctx, src, "C04-MAXCOUNT", "C03-MAXCOUNT",
                        "the reported largest intermediate is the maximum of what the tracker holds",
                        lambda i: True, 2)


def rule_intcost(ctx):
    """(seed C07_9, written for the slicer's model; the same clause for the tree's own figures)"""
    from .c07 import exact_cost_divisions

    r = RuleResult("C03-INTCOST", "the tree's cost figures are computed with integer arithmetic", 2)
    tc = ctx.p.cls(C.CORE, "ContractionTree")
    exact_cost_divisions(ctx, list(tc.methods.values()), "C03-INTCOST", r)
    return r


def rule_totals_state(ctx):
    """Shared with C04-COPY (tracker attributes only; seed C03_9): the reported totals are read from
    running totals kept on the tree; after a state transfer they describe the new structure only if
    every tracker and every tracking flag is transferred on every path."""
    from .c04 import rule_copy as src

    return C.reuse_rule(ctx, src, "C04-COPY", "C03-TOTALSTATE",
                        "running totals and their flags follow a state transfer",
                        lambda i: any(t in i.construct for t in ("_flops", "_write", "_sizes", "_track_")), 3)


def rule_arith(ctx):
    """Shared with C04-ARITH: after slicing, the reported per-step and total figures are the definitional ones."""
    from .c04 import rule_arith as src

    return C.reuse_rule(ctx, src, "C04-ARITH", "C03-ARITH",
                        "slicing rescales the reported figures by the definitional factors", lambda i: True, 3)


def rule_validate(ctx):
    """(seed C03_11) An in-place transformation that rejects its argument must reject it *before* it has touched
    the tree: `remove_ind_('x')` on an already sliced index raises, and a caller that catches the error goes on
    with a tree whose slice count was multiplied once more — every total reported afterwards is off by that
    factor.  Clause: in the slicing transformations no `raise` is reachable (CFG) from a direct write of tree
    state."""
    r = RuleResult("C03-VALIDATE", "slicing transformations validate before they modify", 2)
    tc = tree_class(ctx)
    for name in ("remove_ind", "restore_ind"):
        f = tc.lookup(name)
        C.require(f is not None, f"{name} not found")
        fl = ctx.flow(f)
        cfg = fl.cfg
        key = ctx.key(f, "C03-VALIDATE")
        tree = "tree"
        for n in f.node.body:
            if isinstance(n, ast.Assign) and isinstance(n.value, ast.IfExp) and isinstance(n.targets[0], ast.Name):
                tree = n.targets[0].id
        writes = []
        for n in walk_local(f.node):
            tg = []
            if isinstance(n, ast.Assign):
                tg = n.targets
            elif isinstance(n, ast.AugAssign):
                tg = [n.target]
            for t in tg:
                b = t
                while isinstance(b, ast.Subscript):
                    b = b.value
                if isinstance(b, ast.Attribute) and dotted(b.value) == tree:
                    writes.append(n)
        raises = [n for n in walk_local(f.node) if isinstance(n, ast.Raise)]
        bad = None
        for rz in raises:
            rn = cfg.containing(rz, f.module.parents)
            for w in writes:
                wn = cfg.containing(w, f.module.parents)
                if rn is not None and wn is not None and rn.id in cfg.reachable_from_succs(wn.id):
                    bad = (rz, w)
                    break
            if bad:
                break
        if bad:
            rz, w = bad
            r.violation(key, C.loc(f, rz), f"`{C.unparse(rz, 50)}` can be reached after `{C.unparse(w, 50)}` has already modified the "
                        f"tree: with inplace=True the rejected call leaves the tree changed (e.g. the slice count multiplied "
                        f"again), and every total reported afterwards is wrong")
        else:
            r.ok(key, f.loc, f"{len(raises)} raise(s), none reachable from one of the {len(writes)} direct writes of tree state")
    return r


def rule_topo(ctx):
    """Shared with C10-TOPO / C02-TOPO (seed C03_12): `peak_size(order=...)` and the shapes actually produced by
    an ordered execution are those of a real execution only if every traversal order lists children before
    parents."""
    from .c10 import rule_topo as src

    return C.reuse_rule(ctx, src, "C10-TOPO", "C03-TOPO",
                        "orders used for the peak and for execution are valid execution orders", lambda i: True, 5)


def _accepts(cls, name, opt, depth=0):
    """Does method ``name`` take option ``opt`` — by name, or through a ``**kw`` it hands to a method that does?"""
    f = None
    for c in cls.mro():
        if name in c.methods:
            f = c.methods[name]
            break
    if f is None or depth > 3:
        return None
    a = f.node.args
    names = [x.arg for x in a.posonlyargs + a.args + a.kwonlyargs]
    if opt in names:
        return ("named", names.index(opt) - 1 if opt in [x.arg for x in a.posonlyargs + a.args] else None)
    if a.kwarg is None:
        return None
    for call in (n for n in walk_local(f.node) if isinstance(n, ast.Call)):
        if not (isinstance(call.func, ast.Attribute) and isinstance(call.func.value, ast.Name) and call.func.value.id == "self"):
            continue
        if any(k.arg is None and isinstance(k.value, ast.Name) and k.value.id == a.kwarg.arg for k in call.keywords):
            if _accepts(cls, call.func.attr, opt, depth + 1):
                return ("kwargs", None)
    return None


def rule_order(ctx):
    """(seed C03_14) The arrays produced at step k are the ones the tree reports for step k of ``traverse(order)``
    only if the order a caller asks for reaches the traversal: every method of the tree that takes ``order`` hands
    it (a value depending on its own parameter) to every method of the tree it calls that takes one too."""
    r = RuleResult("C03-ORDER", "a requested traversal order is handed on to every delegate that takes one", 12)
    tc = ctx.p.cls(C.CORE, "ContractionTree")
    opt = "order"
    for name, f in sorted(tc.methods.items()):
        a = f.node.args
        if opt not in [x.arg for x in a.posonlyargs + a.args + a.kwonlyargs]:
            continue
        fl = ctx.flow(f)
        for n, call in fl.calls():
            fn = call.func
            if not (isinstance(fn, ast.Attribute) and isinstance(fn.value, ast.Name) and fn.value.id == "self"):
                continue
            acc = _accepts(tc, fn.attr, opt)
            if not acc:
                continue
            cons = f"{C.CORE}::ContractionTree.{name}::C03-ORDER::{fn.attr}"
            passed = []
            for k in call.keywords:
                if k.arg == opt:
                    passed.append(k.value)
                elif k.arg is None and isinstance(k.value, ast.Dict):
                    passed += [vv for kk, vv in zip(k.value.keys, k.value.values) if isinstance(kk, ast.Constant) and kk.value == opt]
                elif k.arg is None and isinstance(k.value, ast.Name):
                    for d in fl.defs_reaching(k.value.id, n.id):
                        if isinstance(d.value, ast.Dict):
                            for kk, vv in zip(d.value.keys, d.value.values):
                                if isinstance(kk, ast.Constant) and kk.value == opt:
                                    passed.append((vv, d.node))
                        elif isinstance(d.value, ast.Call) and C.call_name(d.value) == "dict":
                            for kw in d.value.keywords:
                                if kw.arg == opt:
                                    passed.append((kw.value, d.node))
            if acc[0] == "named" and acc[1] is not None and len(call.args) > acc[1] and not any(isinstance(x, ast.Starred) for x in call.args):
                passed.append(call.args[acc[1]])
            ok = False
            for e in passed:
                e, at = e if isinstance(e, tuple) else (e, n.id)
                if ("param", opt) in fl.deps(e, at, "may"):
                    ok = True
            if ok:
                r.ok(cons, C.loc(f, call), f"`{opt}` handed on to {fn.attr}")
            else:
                r.violation(cons, C.loc(f, call),
                            f"{name} takes `{opt}` but calls {fn.attr}, which takes one too, without it: the steps "
                            f"executed (or reported) there follow the default order, not the requested one")
    return r


def _shared_rules():
    """The reported totals are the tree's running totals: they equal the definition only if the incremental bookkeeping of C04 is right."""
    out = []

    def _mk(src_mod="c04", fn="rule_track", old="C04-TRACK", new="C03-TRACK", mn=12):
        def rule(ctx):
            import importlib
            srcf = getattr(importlib.import_module("sa.rules." + src_mod), fn)
            return C.reuse_rule(ctx, srcf, old, new, "shared clause of " + old + " (also a necessary condition here)", lambda i: True, mn)
        rule.__name__ = "shared_" + new.lower().replace("-", "_")
        return rule
    out.append(_mk())

    def _mk(src_mod="c04", fn="rule_staleread", old="C04-STALEREAD", new="C03-STALEREAD", mn=2):
        def rule(ctx):
            import importlib
            srcf = getattr(importlib.import_module("sa.rules." + src_mod), fn)
            return C.reuse_rule(ctx, srcf, old, new, "shared clause of " + old + " (also a necessary condition here)", lambda i: True, mn)
        rule.__name__ = "shared_" + new.lower().replace("-", "_")
        return rule
    out.append(_mk())

    def _mk(src_mod="c04", fn="rule_whole", old="C04-WHOLE", new="C03-WHOLE", mn=1):
        def rule(ctx):
            import importlib
            srcf = getattr(importlib.import_module("sa.rules." + src_mod), fn)
            return C.reuse_rule(ctx, srcf, old, new, "shared clause of " + old + " (also a necessary condition here)", lambda i: True, mn)
        rule.__name__ = "shared_" + new.lower().replace("-", "_")
        return rule
    out.append(_mk())

    def _mk(src_mod="c04", fn="rule_leaf", old="C04-LEAF", new="C03-LEAF", mn=1):
        def rule(ctx):
            import importlib
            srcf = getattr(importlib.import_module("sa.rules." + src_mod), fn)
            return C.reuse_rule(ctx, srcf, old, new, "shared clause of " + old + " (also a necessary condition here)", lambda i: True, mn)
        rule.__name__ = "shared_" + new.lower().replace("-", "_")
        return rule
    out.append(_mk())
    return out


RULES = [rule_order, rule_topo, rule_validate, rule_arith, rule_prov, rule_mult, rule_leafcount, rule_multpair, rule_exec, rule_peak, rule_intsize, rule_maxcount, rule_totals_state, rule_intcost] + _shared_rules()
