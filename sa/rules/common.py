"""Helpers shared by the rule modules."""

from __future__ import annotations

import ast

from ..engine.program import AnalysisError, dotted, walk_local
from ..engine.dataflow import base_name, target_names

CORE = "cotengra/core.py"
ANNEAL = "cotengra/pathfinders/path_simulated_annealing.py"
HYPER = "cotengra/hyperoptimizers/hyper.py"
SCORING = "cotengra/scoring.py"
INTERFACE = "cotengra/interface.py"
CONTRACT = "cotengra/contract.py"
UTILS = "cotengra/utils.py"
REUSABLE = "cotengra/reusable.py"
PRESETS = "cotengra/presets.py"
SLICER = "cotengra/slicer.py"
BASIC = "cotengra/pathfinders/path_basic.py"
HYPERGRAPH = "cotengra/hypergraph.py"
MULTI = "cotengra/core_multi.py"


def loc(func_or_mod, node):
    path = func_or_mod.module.path if hasattr(func_or_mod, "module") else func_or_mod.path
    return f"{path}:{getattr(node, 'lineno', '?')}"


def str_consts(node):
    """String constants of a tuple/list/set literal (or a Name bound to one at
    module level is handled by the caller)."""
    if isinstance(node, (ast.Tuple, ast.List, ast.Set)):
        out = []
        for e in node.elts:
            if isinstance(e, ast.Constant) and isinstance(e.value, str):
                out.append(e.value)
            else:
                return None
        return out
    return None


def resolve_str_tuple(ctx, func, expr):
    """String tuple given literally or through a module-level / class-level
    constant name."""
    s = str_consts(expr)
    if s is not None:
        return s
    if isinstance(expr, ast.Name):
        vals = func.module.assigns.get(expr.id)
        if vals and len(vals) == 1:
            return str_consts(vals[0])
        la = ctx.r.local_assignments(func).get(expr.id)
        if la and len(la) == 1:
            return str_consts(la[0])
    if isinstance(expr, ast.Attribute) and isinstance(expr.value, ast.Name):
        if expr.value.id in ("self", "cls", "tree") and func.cls is not None:
            for c in func.cls.mro():
                if expr.attr in c.class_assigns:
                    return str_consts(c.class_assigns[expr.attr])
    return None


def is_info_entry(expr, aliases=()):
    """``X.info[node]`` or a local alias of such an entry (``node_info``)."""
    if isinstance(expr, ast.Subscript):
        v = expr.value
        if isinstance(v, ast.Attribute) and v.attr == "info":
            return True
    if isinstance(expr, ast.Name) and expr.id in aliases:
        return True
    return False


def info_entry_node_expr(expr):
    """For ``X.info[n]`` return the expression n."""
    if isinstance(expr, ast.Subscript) and isinstance(expr.value, ast.Attribute) \
            and expr.value.attr == "info":
        return expr.slice
    return None


def info_aliases(func):
    """Local names bound to an info entry: ``for node, node_info in X.info.items()``
    or ``ni = X.info[node]``.  name -> expression of the node it belongs to."""
    out = {}
    for n in walk_local(func.node):
        if isinstance(n, (ast.For, ast.comprehension)):
            it = n.iter
            if isinstance(it, ast.Call) and isinstance(it.func, ast.Attribute) \
                    and it.func.attr == "items" and isinstance(it.func.value, ast.Attribute) \
                    and it.func.value.attr == "info":
                t = n.target
                if isinstance(t, ast.Tuple) and len(t.elts) == 2 and \
                        isinstance(t.elts[1], ast.Name):
                    out[t.elts[1].id] = t.elts[0]
        elif isinstance(n, ast.Assign) and len(n.targets) == 1 and \
                isinstance(n.targets[0], ast.Name):
            if info_entry_node_expr(n.value) is not None:
                out[n.targets[0].id] = info_entry_node_expr(n.value)
    return out


def info_key_accesses(func):
    """Every access ``<info entry>[<key>]`` in func:
    (kind, key or None, node-expr, ast node, value expr or None)
    kind in store | load | del | pop | get"""
    aliases = info_aliases(func)
    out = []
    parents = func.module.parents
    for n in walk_local(func.node):
        if isinstance(n, ast.Subscript) and is_info_entry(n.value, aliases):
            key = n.slice.value if isinstance(n.slice, ast.Constant) else None
            keyexpr = n.slice
            nodeexpr = info_entry_node_expr(n.value)
            if nodeexpr is None and isinstance(n.value, ast.Name):
                nodeexpr = aliases.get(n.value.id)
            if isinstance(n.ctx, ast.Store):
                par = parents.get(n)
                val = None
                while par is not None and not isinstance(par, ast.stmt):
                    par = parents.get(par)
                if isinstance(par, ast.Assign):
                    val = par.value
                elif isinstance(par, ast.AugAssign):
                    val = par.value
                out.append(("store", key, nodeexpr, n, val, keyexpr))
            elif isinstance(n.ctx, ast.Del):
                out.append(("del", key, nodeexpr, n, None, keyexpr))
            else:
                out.append(("load", key, nodeexpr, n, None, keyexpr))
        elif isinstance(n, ast.Call) and isinstance(n.func, ast.Attribute) and \
                n.func.attr in ("pop", "get", "setdefault") and \
                is_info_entry(n.func.value, aliases) and n.args:
            k = n.args[0]
            key = k.value if isinstance(k, ast.Constant) else None
            nodeexpr = info_entry_node_expr(n.func.value)
            if nodeexpr is None and isinstance(n.func.value, ast.Name):
                nodeexpr = aliases.get(n.func.value.id)
            kind = "pop" if n.func.attr == "pop" else ("get" if n.func.attr == "get" else "store")
            out.append((kind, key, nodeexpr, n, None, k))
    return out


def enclosing_loops(func, node):
    """For/While/comprehension nodes lexically enclosing ``node`` in func."""
    parents = func.module.parents
    out = []
    cur = parents.get(node)
    while cur is not None and cur is not func.node:
        if isinstance(cur, (ast.For, ast.While)):
            out.append(cur)
        cur = parents.get(cur)
    return out


def enclosing_stmt(func, node):
    parents = func.module.parents
    cur = node
    while cur is not None and not isinstance(cur, ast.stmt):
        cur = parents.get(cur)
    return cur


def enclosing_ifs(func, node):
    """[(If node, in_true_branch)] lexically enclosing node, innermost first."""
    parents = func.module.parents
    out = []
    child = node
    cur = parents.get(node)
    while cur is not None and cur is not func.node:
        if isinstance(cur, ast.If):
            in_body = any(child is s for s in cur.body)
            in_else = any(child is s for s in cur.orelse)
            if in_body or in_else:
                out.append((cur, in_body))
        child = cur
        cur = parents.get(cur)
    return out


def loop_key_values(ctx, func, keyexpr, node):
    """If ``keyexpr`` is a loop variable iterating a literal string tuple, the
    strings; else None."""
    if not isinstance(keyexpr, ast.Name):
        return None
    for lp in enclosing_loops(func, node):
        if isinstance(lp, ast.For) and isinstance(lp.target, ast.Name) and \
                lp.target.id == keyexpr.id:
            return resolve_str_tuple(ctx, func, lp.iter)
    return None


def call_name(call):
    if isinstance(call.func, ast.Attribute):
        return call.func.attr
    if isinstance(call.func, ast.Name):
        return call.func.id
    return None


def calls_named(func, name):
    return [n for n in walk_local(func.node)
            if isinstance(n, ast.Call) and call_name(n) == name]


def method_calls(func, name):
    """Calls ``<recv>.name(...)`` in func."""
    return [n for n in walk_local(func.node)
            if isinstance(n, ast.Call) and isinstance(n.func, ast.Attribute)
            and n.func.attr == name]


def compare_ops(test):
    """All ast.Compare nodes in a test expression."""
    return [n for n in ast.walk(test) if isinstance(n, ast.Compare)]


def unparse(n, limit=120):
    try:
        s = ast.unparse(n)
    except Exception:
        s = repr(n)
    s = " ".join(s.split())
    return s if len(s) <= limit else s[: limit - 3] + "..."


def require(cond, msg):
    if not cond:
        raise AnalysisError(msg)


def reuse_rule(ctx, rule_fn, old_id, new_id, description, keep, min_instances=1):
    """Re-issue (a subset of) another property's rule under this property: the
    same structural clause is a necessary condition of both."""
    from ..engine.report import RuleResult

    src = rule_fn(ctx)
    r = RuleResult(new_id, description, min_instances)
    for i in src.instances:
        if not keep(i):
            continue
        c = i.construct.replace(old_id, new_id)
        if i.verdict == "violation":
            r.violation(c, i.loc, i.reason, **i.detail)
        elif i.verdict == "exempt":
            r.exempt(c, i.loc, i.reason)
        else:
            r.ok(c, i.loc, i.reason)
    return r


def positive_example(ctx, rule_fn, edits, expect_fragment):
    """For rules whose expected violation count on a healthy tree is zero: apply
    a tiny built-in break (text edits / extra files) to the current sources in
    memory and require the rule to flag it — so that the rule cannot silently
    stop matching anything.  ``edits`` is a list of (path, old, new) or
    (path, None, full_source) for an added file."""
    from ..engine.program import AnalysisError, Program
    from ..engine.report import Ctx

    src = dict(ctx.p.sources)
    for path, old, new in edits:
        if old is None:
            src[path] = new
        else:
            if src.get(path, "").count(old) != 1:
                return "skipped (anchor of the built-in positive example not present)"
            src[path] = src[path].replace(old, new)
    c2 = Ctx(Program(src, label="positive-example"), "quick")
    c2._is_positive_example = True
    res = rule_fn(c2)
    hits = [i for i in res.instances if i.verdict == "violation" and expect_fragment in i.construct]
    if not hits:
        raise AnalysisError(f"rule {res.rule} no longer flags its built-in positive example "
                            f"(*{expect_fragment}*)")
    return f"built-in positive example flagged: {hits[0].construct}"
