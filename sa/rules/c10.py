"""C10 — path formats (narrow structural clauses; round-trip equality itself is not decided)."""

from __future__ import annotations

import ast

from ..engine.program import AnalysisError, dotted, walk_local
from ..engine.report import RuleResult
from . import common as C

PID = "C10"
EXPLANATION = (
    "Round-trip equality of paths and trees is arithmetic over runtime lists and is NOT "
    "decided. Decided are three conventions every conversion relies on: (TOPO) 'every "
    "emitted path lists children before parents' — get_path/get_ssa_path iterate "
    "traverse(); in the depth-first traversal a node is yielded only under the test that "
    "both children are ready and `ready` gains a node only at its own yield; the ordered "
    "traversal bounds a child's insertion by its parent's position; (LINEAR) the "
    "recycled-id convention 'remove the operands, append the result': every sibling that "
    "pops positions from a working list and appends the result in the same loop removes "
    "them in descending order, computes all positions before the first removal, and puts "
    "the result at the end; (SSAID) single-assignment ids: a counter used as the id of a "
    "new intermediate starts at the number of inputs and is incremented exactly once per "
    "use on every CFG path of the loop; get_ssa_path's closed form is checked as a linear "
    "expression relative to the append. "
    "Later rounds added: "
    "(EDGE) edge paths are forwarded unfiltered and converted carrier-set by carrier-set; "
    "(COUNT) converters are told the number of inputs wherever the path derives from a "
    "caller's parameter. "
    'Round 7: (INFER) the input count inferred by the converters, evaluated on sample paths, equals sum(len(step)) - steps + 1; (KEYS, shared with C02) no conversion memoised in a per-node entry. '
    'Round 8: (EMPTYOK) a path parameter is never used as a truth value to choose between alternatives; (DISPATCH, shared with C13) edge and linear paths are told apart per call. '
    "Round 8 (engine E9): (CONVERT) the three converters' source is evaluated on every bounded single-assignment path and on every index order of a set of small networks and checked against the id conventions (inverse pair, live carriers). "
    'Round 9: (ONETENSOR) the one-tensor exit dominates the dispatch to the ordered traversal. '
)
ASSUMPTIONS = ("list.pop(i) shifts later positions down by one; bisect arithmetic is not decided",)

SCOPE_QUICK = (C.CORE, C.BASIC)


def _scope(ctx):
    if ctx.tier == "thorough":
        return list(ctx.p.all_funcs())
    out = []
    for path in SCOPE_QUICK:
        out.extend(ctx.p.module(path).all_funcs)
    return out


# ------------------------------------------------------------------ TOPO

def rule_topo(ctx):
    r = RuleResult("C10-TOPO", "emitted paths list children before parents", 5)
    tc = ctx.p.cls(C.CORE, "ContractionTree")
    # (a) emitters iterate traverse()
    for name in ("get_path", "get_ssa_path"):
        f = tc.lookup(name)
        C.require(f is not None, f"{name} not found")
        k = ctx.key(f, "C10-TOPO", "source")
        loops = [n for n in walk_local(f.node) if isinstance(n, ast.For)]
        src = [lp for lp in loops if isinstance(lp.iter, ast.Call) and isinstance(lp.iter.func, ast.Attribute)
               and lp.iter.func.attr == "traverse" and dotted(lp.iter.func.value) == "self"]
        appends = [n for n in walk_local(f.node) if isinstance(n, ast.Call) and isinstance(n.func, ast.Attribute)
                   and n.func.attr == "append"]
        if not src:
            other = [C.unparse(lp.iter, 60) for lp in loops]
            r.violation(k, f.loc, f"{name} does not emit its steps in the order of self.traverse(): "
                        f"iterates {other}")
            continue
        lp = src[0]
        t = lp.target
        if not (isinstance(t, ast.Tuple) and len(t.elts) == 3):
            raise AnalysisError(f"{f.qual}: traverse() target not (parent, left, right)")
        inside = [a for a in appends if any(a is x for x in ast.walk(lp))]
        if not inside:
            r.violation(k, f.loc, f"{name} appends no step inside the traversal loop")
        else:
            r.ok(k, C.loc(f, lp), f"one step per (parent, left, right) of `{C.unparse(lp.iter)}`")
    # (b) dispatch
    f = tc.lookup("traverse")
    C.require(f is not None, "traverse not found")
    k = ctx.key(f, "C10-TOPO", "dispatch")
    targets = set()
    for n in walk_local(f.node):
        if isinstance(n, (ast.YieldFrom,)) or (isinstance(n, ast.Return) and n.value is not None):
            v = n.value
            if isinstance(v, ast.Call) and isinstance(v.func, ast.Attribute) and dotted(v.func.value) == "self":
                targets.add(v.func.attr)
            else:
                targets.add(C.unparse(v, 40))
        if isinstance(n, ast.Yield):
            targets.add("<own yield>")
    if targets <= {"_traverse_dfs", "_traverse_ordered"} and targets:
        r.ok(k, f.loc, f"delegates to {sorted(targets)}")
    else:
        r.violation(k, f.loc, f"traverse() produces steps from {sorted(targets)}: only the two "
                    f"children-first generators are known to be bottom-up")
    # (c) depth-first generator
    f = tc.lookup("_traverse_dfs")
    C.require(f is not None, "_traverse_dfs not found")
    _dfs(ctx, r, f)
    # (d) ordered generator (shared with C02-TOPO)
    from .c02 import rule_topo as src_rule

    for i in src_rule(ctx).instances:
        c = i.construct.replace("C02-TOPO", "C10-TOPO::ordered")
        getattr(r, i.verdict if i.verdict != "violation" else "violation")(c, i.loc, i.reason)
    return r


def _dfs(ctx, r, f):
    parents = f.module.parents
    yields = [n for n in walk_local(f.node) if isinstance(n, ast.Yield)]
    C.require(yields, f"{f.qual}: no yield")
    # name of the ready set: the set all `X in <ready>` tests refer to
    for y in yields:
        k = ctx.key(f, "C10-TOPO", "dfs-yield")
        v = y.value
        if not (isinstance(v, ast.Tuple) and len(v.elts) == 3 and all(isinstance(e, ast.Name) for e in v.elts)):
            raise AnalysisError(f"{f.qual}: yield `{C.unparse(y)}` is not (node, l, r)")
        node, l, rr = (e.id for e in v.elts)
        # l, r are the children of the yielded node
        unpack = [a for a in walk_local(f.node) if isinstance(a, ast.Assign) and isinstance(a.targets[0], ast.Tuple)
                  and [getattr(e, "id", None) for e in a.targets[0].elts] == [l, rr]]
        ch_ok = any(isinstance(a.value, ast.Subscript) and isinstance(a.value.value, ast.Attribute)
                    and a.value.value.attr == "children" and dotted(a.value.slice) == node for a in unpack)
        if not ch_ok:
            r.violation(k, C.loc(f, y), f"the yielded `{l}`, `{rr}` are not unpacked from self.children[{node}]")
            continue
        st = C.enclosing_stmt(f, y)
        tests = []
        for i, in_true in C.enclosing_ifs(f, st):
            if in_true:
                tests.append(i.test)
        ready_sets = {}
        for t in tests:
            conj = t.values if isinstance(t, ast.BoolOp) and isinstance(t.op, ast.And) else [t]
            for c in conj:
                if isinstance(c, ast.Compare) and len(c.ops) == 1 and isinstance(c.ops[0], ast.In) \
                        and isinstance(c.left, ast.Name) and isinstance(c.comparators[0], ast.Name):
                    ready_sets.setdefault(c.comparators[0].id, set()).add(c.left.id)
        ready = [s for s, names in ready_sets.items() if {l, rr} <= names]
        if not ready:
            r.violation(k, C.loc(f, y), f"`{C.unparse(y)}` is not guarded by the test that both "
                        f"`{l}` and `{rr}` are ready: a parent can be emitted before a child",
                        guards=[C.unparse(t, 60) for t in tests])
            continue
        ready = ready[0]
        r.ok(k, C.loc(f, y), f"yield guarded by `{l} in {ready} and {rr} in {ready}`")
        # typestate of the ready set: gains a node only in the block of its own yield
        k2 = ctx.key(f, "C10-TOPO", "dfs-ready")
        bad = []
        n_add = 0
        for c in walk_local(f.node):
            if isinstance(c, ast.Call) and isinstance(c.func, ast.Attribute) and dotted(c.func.value) == ready \
                    and c.func.attr in ("add", "update", "__ior__"):
                n_add += 1
                cst = C.enclosing_stmt(f, c)
                blk = _block(parents, cst)
                if not any(any(x is y for x in ast.walk(s)) for s in blk):
                    bad.append(C.unparse(cst, 60))
            if isinstance(c, ast.AugAssign) and dotted(c.target) == ready:
                bad.append(C.unparse(c, 60))
        inits = [a for a in walk_local(f.node) if isinstance(a, ast.Assign) and dotted(a.targets[0]) == ready]
        init_ok = len(inits) == 1 and "gen_leaves" in C.unparse(inits[0].value)
        if bad:
            r.violation(k2, f.loc, f"`{ready}` gains nodes outside the block that yields them: {bad}")
        elif not init_ok:
            r.violation(k2, f.loc, f"`{ready}` does not start as exactly the leaves")
        elif n_add == 0:
            r.violation(k2, f.loc, f"`{ready}` never gains the yielded node")
        else:
            r.ok(k2, f.loc, f"`{ready}` = leaves + nodes already yielded")


def _block(parents, st):
    p = parents.get(st)
    for fld in ("body", "orelse", "finalbody"):
        blk = getattr(p, fld, None)
        if isinstance(blk, list) and any(s is st for s in blk):
            return blk
    return [st]


# ------------------------------------------------------------------ LINEAR

def _list_names(f):
    """locals with at least one definition `list(...)` / list literal / comprehension"""
    out = set()
    for n in walk_local(f.node):
        if isinstance(n, ast.Assign) and len(n.targets) == 1 and isinstance(n.targets[0], ast.Name):
            v = n.value
            if (isinstance(v, ast.Call) and dotted(v.func) == "list") or isinstance(v, (ast.List, ast.ListComp)):
                out.add(n.targets[0].id)
    return out


def _sorted_names(f, loop):
    """names known to hold an ascending sequence inside ``loop``"""
    asc = set()
    for n in ast.walk(loop):
        if isinstance(n, ast.Assign) and len(n.targets) == 1 and isinstance(n.targets[0], ast.Name):
            v = n.value
            if isinstance(v, ast.Call) and dotted(v.func) == "sorted" and not _kw_true(v, "reverse"):
                asc.add(n.targets[0].id)
        if isinstance(n, ast.Call) and isinstance(n.func, ast.Attribute) and n.func.attr == "sort" \
                and isinstance(n.func.value, ast.Name) and not _kw_true(n, "reverse"):
            asc.add(n.func.value.id)
    return asc


def _kw_true(call, name):
    for k in call.keywords:
        if k.arg == name:
            return not (isinstance(k.value, ast.Constant) and not k.value.value)
    return False


def _iter_order(it, asc):
    """'desc' | 'asc' | 'raw' for an iterable of positions"""
    if isinstance(it, ast.Call) and dotted(it.func) == "sorted":
        return "desc" if _kw_true(it, "reverse") else "asc"
    if isinstance(it, ast.Call) and dotted(it.func) == "reversed" and it.args:
        inner = _iter_order(it.args[0], asc)
        return {"asc": "desc", "desc": "asc"}.get(inner, "raw")
    if isinstance(it, ast.Name) and it.id in asc:
        return "asc"
    if isinstance(it, ast.Subscript) and isinstance(it.slice, ast.Slice) and it.slice.step is not None \
            and C.unparse(it.slice.step) == "-1" and isinstance(it.value, ast.Name) and it.value.id in asc:
        return "desc"
    return "raw"


def rule_linear(ctx):
    r = RuleResult("C10-LINEAR", "recycled ids: operands removed in descending order, result appended", 5)
    for f in _scope(ctx):
        lists = _list_names(f)
        if not lists:
            continue
        parents = f.module.parents
        for lp in walk_local(f.node):
            if not isinstance(lp, (ast.For, ast.While)):
                continue
            # positional pops and appends on the same list directly in this loop (not in a nested loop
            # statement of its own with another list)
            pops, apps, inserts, bis = {}, {}, {}, {}
            for n in ast.walk(lp):
                if isinstance(n, ast.Call) and isinstance(n.func, ast.Attribute) and isinstance(n.func.value, ast.Name):
                    nm = n.func.value.id
                    if nm not in lists:
                        continue
                    if n.func.attr == "pop" and len(n.args) == 1 and not _is_const_end(n.args[0]):
                        pops.setdefault(nm, []).append(n)
                    elif n.func.attr == "append":
                        apps.setdefault(nm, []).append(n)
                    elif n.func.attr == "insert":
                        inserts.setdefault(nm, []).append(n)
                if isinstance(n, ast.Call) and (dotted(n.func) or "").split(".")[-1] in (
                        "bisect", "bisect_left", "bisect_right") and n.args and isinstance(n.args[0], ast.Name):
                    bis.setdefault(n.args[0].id, []).append(n)
                # `del ids[c]` is a positional removal like `ids.pop(c)` (seed C10_5)
                if isinstance(n, ast.Delete):
                    for t in n.targets:
                        if isinstance(t, ast.Subscript) and isinstance(t.value, ast.Name) and t.value.id in lists \
                                and not isinstance(t.slice, ast.Slice) and not _is_const_end(t.slice):
                            shim = ast.Call(func=ast.Attribute(value=t.value, attr="pop", ctx=ast.Load()),
                                            args=[t.slice], keywords=[])
                            ast.copy_location(shim, n)
                            shim.end_lineno, shim.end_col_offset = n.end_lineno, n.end_col_offset
                            parents[shim] = parents.get(n)
                            pops.setdefault(t.value.id, []).append(shim)
            for nm in sorted(pops):
                if nm not in apps and nm not in inserts:
                    continue
                # innermost loop containing both
                if _has_inner_loop_with(lp, nm, f):
                    continue
                k = ctx.key(f, "C10-LINEAR", nm)
                asc = _sorted_names(f, lp)
                verdict, why = _removal_order(f, lp, pops[nm], asc, parents)
                if verdict is None and len(pops[nm]) == 1:
                    continue  # one element per iteration (a work queue), not the two-operand protocol
                if nm in inserts:
                    r.violation(k, C.loc(f, inserts[nm][0]), f"the result is inserted into `{nm}` at a "
                                f"position instead of appended: later positions no longer mean what the "
                                f"linear format says")
                    continue
                inplace = [x for x in ast.walk(lp) if isinstance(x, ast.Subscript) and isinstance(x.ctx, ast.Store)
                           and isinstance(x.value, ast.Name) and x.value.id == nm]
                if inplace:
                    r.violation(k, C.loc(f, inplace[0]), f"`{C.unparse(C.enclosing_stmt(f, inplace[0]), 50)}` "
                                f"replaces an element of `{nm}` in place: in the recycled-id format every "
                                f"step (also a single-tensor step) removes its operands and appends the "
                                f"result at the end, so all later positions shift")
                    continue
                if verdict == "desc":
                    # positions computed before the first removal
                    first_pop = min(p.lineno for p in pops[nm])
                    late = [b for b in bis.get(nm, []) if b.lineno > first_pop or
                            (b.lineno == first_pop and b.col_offset > min(p.col_offset for p in pops[nm]
                                                                           if p.lineno == first_pop))]
                    if late and not _bisect_inside_pop_ok(late, pops[nm]):
                        r.violation(k, C.loc(f, late[0]), f"a position in `{nm}` is looked up after an "
                                    f"operand was already removed from it")
                    else:
                        r.ok(k, C.loc(f, pops[nm][0]), why)
                elif verdict in ("asc", "raw"):
                    r.violation(k, C.loc(f, pops[nm][0]), why)
                else:
                    raise AnalysisError(f"{f.qual}: removal order of positions from `{nm}` not understood: {why}")
    return r


def _is_const_end(a):
    if isinstance(a, ast.Constant) and a.value in (0, -1):
        return True
    if isinstance(a, ast.UnaryOp) and isinstance(a.op, ast.USub) and isinstance(a.operand, ast.Constant):
        return True
    return False


def _has_inner_loop_with(lp, nm, f):
    """an inner *statement* loop that itself holds both the pops and the append"""
    for n in ast.walk(lp):
        if n is lp or not isinstance(n, (ast.For, ast.While)):
            continue
        has_pop = has_app = False
        for c in ast.walk(n):
            if isinstance(c, ast.Call) and isinstance(c.func, ast.Attribute) and dotted(c.func.value) == nm:
                if c.func.attr == "pop" and len(c.args) == 1:
                    has_pop = True
                if c.func.attr in ("append", "insert"):
                    has_app = True
        if has_pop and has_app:
            return True
    return False


def _bisect_inside_pop_ok(late, pops):
    return False


def _removal_order(f, lp, pops, asc, parents):
    """('desc'|'asc'|'raw'|None, explanation)"""
    # group A: a single pop inside a comprehension / generator / inner for over the positions
    if len(pops) == 1:
        p = pops[0]
        arg = p.args[0]
        cur = parents.get(p)
        while cur is not None and cur is not lp:
            if isinstance(cur, (ast.ListComp, ast.GeneratorExp, ast.SetComp)):
                g = cur.generators[0]
                if isinstance(arg, ast.Name) and isinstance(g.target, ast.Name) and g.target.id == arg.id:
                    o = _iter_order(g.iter, asc)
                    return o, _why(o, C.unparse(g.iter, 60))
            if isinstance(cur, ast.For) and isinstance(cur.target, ast.Name) and isinstance(arg, ast.Name) \
                    and cur.target.id == arg.id:
                o = _iter_order(cur.iter, asc)
                return o, _why(o, C.unparse(cur.iter, 60))
            cur = parents.get(cur)
        # a single pop per step: nothing to order (unary protocol) — not a linear two-operand site
        return None, f"single positional pop `{C.unparse(p)}` outside any loop over the step"
    if len(pops) == 2:
        a, b = sorted(pops, key=lambda p: (p.lineno, p.col_offset))
        if isinstance(a.args[0], ast.Name) and isinstance(b.args[0], ast.Name):
            first, second = a.args[0].id, b.args[0].id
            for n in ast.walk(lp):
                if isinstance(n, ast.Assign) and isinstance(n.targets[0], ast.Tuple) and \
                        [getattr(e, "id", None) for e in n.targets[0].elts] in ([first, second], [second, first]):
                    names = [e.id for e in n.targets[0].elts]
                    v = n.value
                    o = None
                    if isinstance(v, ast.Call) and dotted(v.func) == "sorted":
                        o = "desc" if _kw_true(v, "reverse") else "asc"
                    if o is None:
                        return "raw", (f"`{first}` and `{second}` are removed one after the other but are not "
                                       f"ordered (`{C.unparse(n, 60)}`)")
                    larger = names[-1] if o == "asc" else names[0]
                    if first == larger:
                        return "desc", f"`pop({first})` (the larger position) before `pop({second})`"
                    return "asc", (f"`pop({first})` removes the smaller position first: the second "
                                   f"position has shifted down by one when `pop({second})` runs")
            return "raw", f"`pop({first})`, `pop({second})`: the two positions are not ordered before removal"
    return None, f"{len(pops)} positional pops"


def _why(o, it):
    if o == "desc":
        return f"positions removed in descending order (`{it}`)"
    if o == "asc":
        return (f"positions are removed in ascending order (`{it}`): every removal shifts the positions "
                f"still to be removed")
    return (f"positions are removed in the order the step lists them (`{it}`): correct only when "
            f"the step happens to be descending")


# ------------------------------------------------------------------ SSAID

def _counter_sites(ctx, f):
    """(loop, counter name, increment stmt, uses) for loops that use an integer
    counter as the id of something new: the counter is incremented by one in the
    loop and used as a dict key / appended / stored as a value."""
    out = []
    for lp in walk_local(f.node):
        if not isinstance(lp, (ast.For, ast.While)):
            continue
        incs = [n for n in ast.walk(lp) if isinstance(n, ast.AugAssign) and isinstance(n.target, ast.Name)
                and isinstance(n.op, ast.Add)]
        for inc in incs:
            c = inc.target.id
            # innermost loop only
            inner = [x for x in ast.walk(lp) if x is not lp and isinstance(x, (ast.For, ast.While))
                     and any(y is inc for y in ast.walk(x))]
            if inner:
                continue
            uses = []
            for n in ast.walk(lp):
                if isinstance(n, ast.Subscript) and isinstance(n.ctx, ast.Store) and dotted(n.slice) == c:
                    uses.append(("key", n))
                elif isinstance(n, ast.Call) and isinstance(n.func, ast.Attribute) and \
                        n.func.attr in ("append", "add") and len(n.args) == 1 and dotted(n.args[0]) == c:
                    uses.append(("append", n))
                elif isinstance(n, ast.Assign) and dotted(n.value) == c and \
                        isinstance(n.targets[0], ast.Subscript):
                    uses.append(("value", n))
            if uses:
                out.append((lp, c, inc, uses))
    return out


SSA_FUNCS = {
    (C.CORE, "ContractionTree.from_path"),
    (C.CORE, "ContractionTree.get_path"),
    (C.BASIC, "linear_to_ssa"),
    (C.BASIC, "ssa_to_linear"),
    (C.BASIC, "edge_path_to_ssa"),
}


def rule_ssaid(ctx):
    r = RuleResult("C10-SSAID", "the k-th intermediate has id N + k in every producer/consumer", 6)
    found = set()
    for f in _scope(ctx):
        sites = _counter_sites(ctx, f)
        if not sites:
            continue
        is_ssa = (f.module.path, f.qual) in SSA_FUNCS
        fl = ctx.flow(f)
        cfg = fl.cfg
        for lp, c, inc, uses in sites:
            if not is_ssa and not _looks_like_ssa(f, c):
                continue
            found.add((f.module.path, f.qual))
            k = ctx.key(f, "C10-SSAID", c)
            head = cfg.node_of(lp)
            inc_n = cfg.containing(inc, f.module.parents)
            C.require(head is not None and inc_n is not None, f"{f.qual}: CFG nodes of the id loop not found")
            if not (isinstance(inc.value, ast.Constant) and inc.value.value == 1):
                r.violation(k, C.loc(f, inc), f"`{C.unparse(inc)}`: ids do not advance by one")
                continue
            use_nodes = []
            for kind, n in uses:
                un = cfg.containing(n, f.module.parents)
                if un is not None:
                    use_nodes.append(un.id)
            probs = []
            for u in use_nodes:
                if u == inc_n.id:
                    continue
                if not cfg.all_paths_pass(u, [inc_n.id], dst=head.id):
                    p = cfg.path_avoiding(u, [inc_n.id], dst=head.id)
                    probs.append(f"`{c}` is given out as an id and the next step can begin without "
                                 f"`{c} += 1` ({cfg.describe_path(p) if p else ''}): two intermediates share an id")
                    break
            if not probs and not cfg.all_paths_pass(head.id, use_nodes, dst=inc_n.id):
                p = cfg.path_avoiding(head.id, use_nodes, dst=inc_n.id)
                probs.append(f"`{c} += 1` can run in a step that gave out no id "
                             f"({cfg.describe_path(p) if p else ''}): later ids skip a number")
            # the use must come before the increment in the iteration
            if not probs:
                for u in use_nodes:
                    if u != inc_n.id and cfg.all_paths_pass(head.id, [inc_n.id], dst=u):
                        probs.append(f"`{c}` is incremented before it is given out: the first "
                                     f"intermediate gets id N + 1")
                        break
            # start value
            init = _init_of(f, c, lp)
            if not probs:
                if init is None:
                    raise AnalysisError(f"{f.qual}: start value of the id counter `{c}` not found")
                if not _is_count_of_inputs(f, init):
                    probs.append(f"the id counter starts at `{C.unparse(init)}`, which is not the number of inputs")
            if probs:
                r.violation(k, C.loc(f, inc), probs[0])
            else:
                r.ok(k, C.loc(f, inc), f"`{c}` starts at `{C.unparse(init)}`, is given out "
                     f"{len(use_nodes)}x and incremented once per step on every path")
    missing = SSA_FUNCS - found - _closed_form_funcs()
    for path, qual in sorted(missing):
        if ctx.p.try_func(path, qual) is None:
            raise AnalysisError(f"anchor {path}::{qual} vanished")
        f = ctx.p.func(path, qual)
        r.violation(ctx.key(f, "C10-SSAID", "counter"), f.loc,
                    "no id counter that is given out and incremented once per step was found in this "
                    "producer/consumer of single-assignment ids")
    # closed form of get_ssa_path
    tc = ctx.p.cls(C.CORE, "ContractionTree")
    f = tc.lookup("get_ssa_path")
    C.require(f is not None, "get_ssa_path not found")
    _closed_form(ctx, r, f)
    return r


def _closed_form_funcs():
    return set()


def _looks_like_ssa(f, c):
    return "ssa" in c.lower()


def _init_of(f, c, lp):
    defs = [n for n in walk_local(f.node) if isinstance(n, ast.Assign) and len(n.targets) == 1
            and dotted(n.targets[0]) == c and not any(n is x for x in ast.walk(lp))]
    if len(defs) == 1:
        return defs[0].value
    return None


def _is_count_of_inputs(f, e, depth=0):
    if isinstance(e, ast.Call) and dotted(e.func) == "len" and len(e.args) == 1:
        return True
    if isinstance(e, ast.Call) and isinstance(e.func, ast.Attribute) and not e.args and \
            ("num" in e.func.attr or e.func.attr.startswith("get_n")):
        return True  # hg.get_num_nodes()
    if isinstance(e, ast.Attribute) and e.attr == "N":
        return True
    if isinstance(e, ast.Name) and depth < 3:
        if e.id in f.params:
            return True
        defs = [n.value for n in walk_local(f.node) if isinstance(n, ast.Assign) and len(n.targets) == 1
                and dotted(n.targets[0]) == e.id]
        # `N` given or computed from the path (complete-path default) — both branches count inputs
        return bool(defs) and all(_is_count_of_inputs(f, d, depth + 1) or _is_default_n(d) for d in defs)
    return False


def _is_default_n(e):
    """sum(map(len, path)) - len(path) + 1"""
    return isinstance(e, ast.BinOp) and "len" in C.unparse(e) and "sum" in C.unparse(e)


def _lin(e, syms):
    """linear form {sym: coeff, 1: const} of an integer expression over the
    symbols `syms` (mapping unparsed text -> symbol)"""
    txt = C.unparse(e, 200)
    if txt in syms:
        return {syms[txt]: 1}
    if isinstance(e, ast.Constant) and isinstance(e.value, int):
        return {1: e.value}
    if isinstance(e, ast.BinOp) and isinstance(e.op, (ast.Add, ast.Sub)):
        a, b = _lin(e.left, syms), _lin(e.right, syms)
        if a is None or b is None:
            return None
        s = 1 if isinstance(e.op, ast.Add) else -1
        out = dict(a)
        for k, v in b.items():
            out[k] = out.get(k, 0) + s * v
        return out
    if isinstance(e, ast.UnaryOp) and isinstance(e.op, ast.USub):
        a = _lin(e.operand, syms)
        return None if a is None else {k: -v for k, v in a.items()}
    return None


def _closed_form(ctx, r, f):
    k = ctx.key(f, "C10-SSAID", "closed-form")
    lp = [n for n in walk_local(f.node) if isinstance(n, ast.For)]
    C.require(lp, f"{f.qual}: no loop")
    lp = lp[0]
    if _counter_sites(ctx, f):
        return  # a counter form is checked by the generic part
    # the list of steps: the list appended to in the loop and returned
    apps = [n for n in ast.walk(lp) if isinstance(n, ast.Call) and isinstance(n.func, ast.Attribute)
            and n.func.attr == "append" and isinstance(n.func.value, ast.Name)]
    C.require(len(apps) == 1, f"{f.qual}: expected one append of a step")
    steps = apps[0].func.value.id
    parent = lp.target.elts[0].id if isinstance(lp.target, ast.Tuple) else None
    stores = [n for n in ast.walk(lp) if isinstance(n, ast.Assign) and isinstance(n.targets[0], ast.Subscript)
              and dotted(n.targets[0].slice) == parent]
    if len(stores) != 1:
        raise AnalysisError(f"{f.qual}: the id of the new intermediate is not stored under `{parent}` exactly once")
    st = stores[0]
    app_st = C.enclosing_stmt(f, apps[0])
    blk = lp.body
    if not (any(s is st for s in blk) and any(s is app_st for s in blk)):
        raise AnalysisError(f"{f.qual}: id store and step append are not both at the top of the loop body")
    after = [i for i, s in enumerate(blk) if s is st][0] > [i for i, s in enumerate(blk) if s is app_st][0]
    syms = {f"len({steps})": "L", "self.N": "N"}
    # a local bound to the number of leaves counts as N
    for n in walk_local(f.node):
        if isinstance(n, ast.Assign) and len(n.targets) == 1 and isinstance(n.targets[0], ast.Name) \
                and C.unparse(n.value) == "self.N":
            syms[n.targets[0].id] = "N"
    form = _lin(st.value, syms)
    if form is None:
        raise AnalysisError(f"{f.qual}: id expression `{C.unparse(st.value)}` is not linear in "
                            f"len({steps}) and self.N")
    form = {a: b for a, b in form.items() if b != 0}
    want = {"L": 1, "N": 1}
    if after:
        want[1] = -1
    if form == want:
        r.ok(k, C.loc(f, st), f"id of the k-th step = `{C.unparse(st.value)}` "
             f"({'after' if after else 'before'} the append) = N + k")
    else:
        r.violation(k, C.loc(f, st), f"the id `{C.unparse(st.value)}` stored "
                    f"{'after' if after else 'before'} the step is appended is not N + k "
                    f"(k = index of the step): later steps refer to the wrong intermediate")


# ------------------------------------------------------------------ EDGE

CONVERTERS = ("edge_path_to_ssa", "edge_path_to_linear", "linear_to_ssa", "ssa_to_linear")


def rule_edge(ctx):
    r = RuleResult("C10-EDGE", "edge paths contract exactly the tensors that carry each index", 4)
    # (a) callers hand the caller's path to the converters unfiltered
    for f in _scope(ctx) if ctx.tier == "thorough" else \
            list(ctx.p.module(C.CORE).all_funcs) + list(ctx.p.module(C.BASIC).all_funcs) + \
            list(ctx.p.module(C.INTERFACE).all_funcs):
        fl = None
        for n in walk_local(f.node):
            if not (isinstance(n, ast.Call) and (dotted(n.func) or "").split(".")[-1] in CONVERTERS and n.args):
                continue
            a = n.args[0]
            if not (isinstance(a, ast.Name) and a.id in f.params):
                continue
            fl = fl or ctx.flow(f)
            at = fl.cfg.containing(n, f.module.parents)
            k = ctx.key(f, "C10-EDGE", f"forward::{(dotted(n.func) or '').split('.')[-1]}")
            bad = None
            for d in fl.defs_reaching(a.id, at.id):
                if d.kind == "param":
                    continue
                v = d.value
                if v is None:
                    continue
                if _is_rewrap(v, a.id):
                    continue
                bad = v
            if bad is None:
                r.ok(k, C.loc(f, n), f"`{a.id}` reaches the converter as given by the caller")
            else:
                filt = isinstance(bad, (ast.ListComp, ast.GeneratorExp)) and any(g.ifs for g in bad.generators) \
                    or (isinstance(bad, ast.Call) and (dotted(bad.func) or "") in ("filter", "sorted", "set", "frozenset")) \
                    or isinstance(bad, ast.Subscript)
                inner = bad.args[0] if isinstance(bad, ast.Call) and dotted(bad.func) in ("tuple", "list") and bad.args else bad
                filt = filt or (isinstance(inner, (ast.ListComp, ast.GeneratorExp)) and any(g.ifs for g in inner.generators))
                if filt:
                    r.violation(k, C.loc(f, n), f"the path handed to the converter is `{C.unparse(bad, 70)}`, a "
                                f"filtered/reordered copy of the caller's `{a.id}`: steps the caller asked for "
                                f"are dropped before conversion")
                else:
                    raise AnalysisError(f"{f.qual}: `{a.id}` is re-bound to `{C.unparse(bad, 60)}` before the "
                                        f"conversion; cannot tell whether the path is preserved")
    # (b) the converter itself
    f = ctx.p.func(C.BASIC, "edge_path_to_ssa")
    loops = [n for n in f.node.body if isinstance(n, ast.For)]
    main = [lp for lp in loops if isinstance(lp.iter, ast.Name) and lp.iter.id in f.params]
    C.require(len(main) == 1, "edge_path_to_ssa: loop over the edge path not found")
    lp = main[0]
    ixname = lp.target.id if isinstance(lp.target, ast.Name) else None
    C.require(ixname is not None, "edge_path_to_ssa: loop target not a name")
    pops = [n for n in ast.walk(lp) if isinstance(n, ast.Assign) and isinstance(n.value, ast.Call)
            and isinstance(n.value.func, ast.Attribute) and n.value.func.attr in ("pop", "get")
            and n.value.args and dotted(n.value.args[0]) == ixname]
    k = ctx.key(f, "C10-EDGE", "carriers")
    if len(pops) != 1 or not isinstance(pops[0].targets[0], ast.Name):
        raise AnalysisError("edge_path_to_ssa: the set of tensors carrying the index is not looked up once")
    scon = pops[0].targets[0].id
    apps = [n for n in ast.walk(lp) if isinstance(n, ast.Call) and isinstance(n.func, ast.Attribute)
            and n.func.attr == "append" and n.args]
    step_ok = False
    for a in apps:
        v = a.args[0]
        inner = v
        while isinstance(inner, ast.Call) and dotted(inner.func) in ("tuple", "sorted", "list") and inner.args:
            inner = inner.args[0]
        if isinstance(inner, ast.Name) and inner.id == scon:
            step_ok = True
            step = a
    if not step_ok:
        r.violation(k, C.loc(f, lp), f"the step recorded for an index is not the whole set `{scon}` of tensors "
                    f"carrying it at that moment")
    else:
        r.ok(k, C.loc(f, step), f"step = every tensor in `{scon}` (looked up with `{C.unparse(pops[0].value, 40)}`)")
    # the only skip: fewer than two carriers
    k = ctx.key(f, "C10-EDGE", "skip")
    conts = [n for n in ast.walk(lp) if isinstance(n, ast.Continue)]
    bad = []
    for c in conts:
        ifs = C.enclosing_ifs(f, c)
        t = ifs[0][0].test if ifs else None
        ok = isinstance(t, ast.Compare) and isinstance(t.left, ast.Call) and dotted(t.left.func) == "len" \
            and dotted(t.left.args[0]) == scon and isinstance(t.comparators[0], ast.Constant) and (
                (isinstance(t.ops[0], ast.Lt) and t.comparators[0].value == 2)
                or (isinstance(t.ops[0], ast.LtE) and t.comparators[0].value == 1))
        if not ok:
            bad.append(C.unparse(t, 60) if t is not None else "unconditional")
    if bad:
        r.violation(k, C.loc(f, conts[0]), f"an index of the edge path is skipped under `{bad[0]}`; only an index "
                    f"carried by fewer than two tensors has nothing to contract")
    else:
        r.ok(k, C.loc(f, lp), f"{len(conts)} skip(s), only for fewer than two carriers")
    # bookkeeping: every remaining index of a consumed tensor moves to the new id
    k = ctx.key(f, "C10-EDGE", "rehome")
    removes = [n for n in ast.walk(lp) if isinstance(n, ast.Call) and isinstance(n.func, ast.Attribute)
               and n.func.attr in ("remove", "discard")]
    adds = [n for n in ast.walk(lp) if isinstance(n, ast.Call) and isinstance(n.func, ast.Attribute)
            and n.func.attr == "add" and n.args and isinstance(n.args[0], ast.Name)]
    same_block = False
    for rm in removes:
        for ad in adds:
            if dotted(rm.func.value) == dotted(ad.func.value) and \
                    _block(f.module.parents, C.enclosing_stmt(f, rm)) is _block(f.module.parents, C.enclosing_stmt(f, ad)):
                same_block = True
    if same_block:
        r.ok(k, C.loc(f, removes[0]), "a consumed tensor is replaced by the new id on each of its remaining indices")
    else:
        r.violation(k, C.loc(f, lp), "the index → tensors map is not updated symmetrically (consumed tensor "
                    "removed, new tensor added) for the remaining indices: later indices contract stale ids")
    # (seed C05_5) the re-homing visits each remaining index of a consumed tensor *once*: the per-tensor index
    # collections it iterates are sets — a raw input term lists a repeated (trace / diagonal) index twice, and
    # the second `remove` of the consumed id from that index's carrier set fails
    k = ctx.key(f, "C10-EDGE", "index-sets")
    inner = [n for n in ast.walk(lp) if isinstance(n, ast.For) and n is not lp and isinstance(n.iter, ast.Call)
             and isinstance(n.iter.func, ast.Attribute) and n.iter.func.attr in ("pop", "get", "__getitem__")]
    inner += [n for n in ast.walk(lp) if isinstance(n, ast.For) and n is not lp and isinstance(n.iter, ast.Subscript)]
    tables = {dotted(n.iter.func.value) if isinstance(n.iter, ast.Call) else dotted(n.iter.value) for n in inner}
    tables.discard(None)
    probs = []
    n_tab = 0
    for tb in sorted(tables):
        # every value stored into the table (and every whole-table construction) is a set
        vals = []
        for n in walk_local(f.node):
            if isinstance(n, ast.Assign):
                for t in n.targets:
                    if isinstance(t, ast.Subscript) and dotted(t.value) == tb:
                        vals.append((n, n.value))
                    if isinstance(t, ast.Name) and t.id == tb:
                        vals.append((n, n.value))
        if not vals:
            continue
        n_tab += 1
        la = ctx.r.local_assignments(f)
        for st, v in vals:
            vv = v
            if isinstance(vv, ast.Name) and len(la.get(vv.id, [])) >= 1:
                vv = la[vv.id][0]
            is_set = (isinstance(vv, ast.Call) and dotted(vv.func) in ("set", "frozenset")) or isinstance(vv, (ast.Set, ast.SetComp)) \
                or (isinstance(vv, ast.Dict) and not vv.keys) \
                or (isinstance(vv, ast.BinOp) and isinstance(vv.op, (ast.BitOr, ast.BitAnd, ast.Sub)))
            is_map_of_sets = isinstance(vv, ast.DictComp) and isinstance(vv.value, ast.Call) and dotted(vv.value.func) in ("set", "frozenset")
            if not (is_set or is_map_of_sets):
                probs.append(f"`{C.unparse(st, 60)}`: the indices of a tensor are kept as given, not as a set")
    if probs:
        r.violation(k, C.loc(f, lp), probs[0] + " — a tensor with a repeated index is re-homed twice for that index "
                    "(KeyError on the second removal, or a doubled carrier)")
    elif n_tab:
        r.ok(k, C.loc(f, lp), f"the per-tensor index collections iterated while re-homing ({sorted(tables)}) hold sets")
    else:
        r.exempt(k, C.loc(f, lp), "re-homing loop over a per-tensor table not recognised: not decided")
    return r


def _is_rewrap(v, name):
    if isinstance(v, ast.Name) and v.id == name:
        return True
    if isinstance(v, ast.Call) and dotted(v.func) in ("tuple", "list") and len(v.args) == 1 and \
            isinstance(v.args[0], ast.Name) and v.args[0].id == name:
        return True
    if isinstance(v, ast.IfExp):
        return _is_rewrap(v.body, name) and _is_rewrap(v.orelse, name)
    return False


def rule_count(ctx):
    """(seed C10_4; F22) The converters between the recycled-id and the single-assignment format need the
    number of inputs: it is the id of the first intermediate.  Left out, they infer it from the path as
    (total ids used) - (steps) + 1, which is the number of inputs only for a *complete* path.  A path handed in
    by the caller (a `path=` / edge path parameter) need not be complete — partial paths are accepted and
    auto-completed — so wherever the converted path derives from a parameter, the count is passed
    explicitly.  Paths produced by a finder of the library are complete ([C05-REMAIN]) and exempt."""
    r = RuleResult("C10-COUNT", "converters are told the number of inputs for caller-supplied paths", 3)
    for f in ctx.p.all_funcs(None):
        calls = [n for n in walk_local(f.node) if isinstance(n, ast.Call)
                 and (dotted(n.func) or "").split(".")[-1] in ("ssa_to_linear", "linear_to_ssa") and n.args]
        if not calls:
            continue
        fl = ctx.flow(f)
        for c in calls:
            name = (dotted(c.func) or "").split(".")[-1]
            k = ctx.key(f, "C10-COUNT", f"{name}:{len([i for i in r.instances if f.qual in i.construct])}")
            has_n = len(c.args) >= 2 or any(kw.arg == "N" for kw in c.keywords)
            if has_n:
                r.ok(k, C.loc(f, c), "the number of inputs is passed explicitly")
                continue
            st = C.enclosing_stmt(f, c)
            node = fl.cfg.containing(st, f.module.parents)
            deps = fl.deps(c.args[0], node.id, "may") if node is not None else set()
            from_param = sorted({d_[1] for d_ in deps if d_[0] == "param" and d_[1] not in ("self", "cls")})
            from_finder = sorted({d_[1] for d_ in deps if d_[0] == "call" or d_[0] == "attr"})
            path_params = [p_ for p_ in from_param if "path" in p_ or p_ in ("order", "optimize")]
            if path_params:
                r.violation(k, C.loc(f, c), f"`{C.unparse(c, 60)}` converts a path that derives from the caller's `{path_params[0]}` "
                            f"without the number of inputs: the converter then infers it from the path, which is too small "
                            f"for an incomplete path (disconnected network, partial order) — new ids collide with inputs, "
                            f"positions are out of range")
            else:
                r.exempt(k, C.loc(f, c), f"the converted path is produced inside the library ({from_finder[:2]}), complete by "
                         f"[C05-REMAIN]: the inferred count is the number of inputs")
    return r


class _NoVal(Exception):
    pass


def _sval(e, env):
    """evaluation of a pure expression over sample values (len / sum / map / max / min / range, arithmetic,
    generator expressions) — used to compare the inferred input count with its definition"""
    if isinstance(e, ast.Constant):
        return e.value
    if isinstance(e, ast.Name):
        if e.id in env:
            return env[e.id]
        raise _NoVal(e.id)
    if isinstance(e, ast.BinOp):
        a, b = _sval(e.left, env), _sval(e.right, env)
        ops = {ast.Add: lambda: a + b, ast.Sub: lambda: a - b, ast.Mult: lambda: a * b, ast.FloorDiv: lambda: a // b}
        if type(e.op) in ops:
            return ops[type(e.op)]()
        raise _NoVal("op")
    if isinstance(e, ast.UnaryOp) and isinstance(e.op, ast.USub):
        return -_sval(e.operand, env)
    if isinstance(e, (ast.Tuple, ast.List)):
        return [_sval(x, env) for x in e.elts]
    if isinstance(e, (ast.GeneratorExp, ast.ListComp)) and len(e.generators) == 1 and not e.generators[0].ifs \
            and isinstance(e.generators[0].target, ast.Name):
        g = e.generators[0]
        return [_sval(e.elt, dict(env, **{g.target.id: v})) for v in _sval(g.iter, env)]
    if isinstance(e, ast.Call) and isinstance(e.func, ast.Name) and not e.keywords:
        fn = e.func.id
        if fn == "map" and len(e.args) == 2 and isinstance(e.args[0], ast.Name) and e.args[0].id in ("len", "sum", "max", "min"):
            f_ = {"len": len, "sum": sum, "max": max, "min": min}[e.args[0].id]
            return [f_(v) for v in _sval(e.args[1], env)]
        if fn in ("len", "sum", "max", "min", "list", "tuple", "sorted") and len(e.args) == 1:
            v = _sval(e.args[0], env)
            return {"len": len, "sum": sum, "max": max, "min": min, "list": list, "tuple": list, "sorted": sorted}[fn](v)
        if fn == "range":
            return list(range(*[_sval(a, env) for a in e.args]))
    raise _NoVal(C.unparse(e, 40))


def rule_infer(ctx):
    """(seed C10_6) 'Linear <-> SSA conversion is an exact inverse pair' also for the paths the edge-path converter and
    opt_einsum emit: a step may take k >= 3 (or one) tensors and then consumes k - 1 ids.  The count the converters
    infer when none is given is evaluated on sample paths (pairwise, three-tensor step, single-tensor step, empty)
    and compared with its definition, sum(len(step)) - steps + 1."""
    r = RuleResult("C10-INFER", "the inferred number of inputs counts k - 1 consumed ids per step", 2)
    samples = [[[0, 1], [2, 3]], [[0, 1, 2], [3, 4]], [[0], [1, 2]], [[0, 1, 2, 3]], [], [[0, 1], [0, 1], [0, 1]]]
    for name in ("linear_to_ssa", "ssa_to_linear"):
        f = ctx.p.func(C.BASIC, name)
        C.require(f is not None, f"{name} not found")
        params = [a.arg for a in f.node.args.args]
        C.require(len(params) >= 2, f"{name}(path, N) expected")
        pth, nn = params[0], params[1]
        k = ctx.key(f, "C10-INFER")
        defs = [n for n in walk_local(f.node) if isinstance(n, ast.Assign) and any(isinstance(t, ast.Name) and t.id == nn for t in n.targets)
                and any(i_.test is not None and nn in C.unparse(i_.test) and "None" in C.unparse(i_.test) for i_, t in C.enclosing_ifs(f, n))]
        if not defs:
            r.exempt(k, f.loc, f"`{nn}` is not inferred in {name}")
            continue
        bad = None
        try:
            for smp in samples:
                got = _sval(defs[0].value, {pth: smp})
                want = sum(len(x) for x in smp) - len(smp) + 1
                if got != want and bad is None:
                    bad = (smp, got, want)
        except _NoVal as e:
            raise AnalysisError(f"{name}: inferred count `{C.unparse(defs[0].value, 60)}` not evaluable ({e})")
        if bad:
            r.violation(k, C.loc(f, defs[0]), f"`{C.unparse(defs[0], 60)}` gives {bad[1]} inputs for the path {bad[0]} (it has {bad[2]}): a step of k tensors "
                        "consumes k - 1 ids; with the count too small, new ids collide with inputs and positions run out of range — "
                        "the two converters are no longer inverse to each other for such paths")
        else:
            r.ok(k, C.loc(f, defs[0]), f"inferred count = sum(len(step)) - steps + 1 on {len(samples)} sample paths")
    return r


def rule_keys(ctx):
    """Shared with C02-KEYS (seed C10_7): 'a tree converted to a path and back yields the same tree' for the tree as it
    is *now* — a path memoised in a per-node entry under a key no getter defines survives every restructuring below
    that node."""
    from .c02 import rule_keys as src

    return C.reuse_rule(ctx, src, "C02-KEYS", "C10-KEYS", "no ad-hoc cached conversions in per-node entries", lambda i: True, 8)


_PATHISH = ("path", "ssa_path", "edge_path", "linear_path")


def rule_emptyok(ctx):
    """(seed C10_9) The empty sequence is a valid path (the path of a one-tensor tree, of an edge order that joins
    nothing): 'not given' is `None`, never falsiness.  In every function taking a path parameter, that parameter is not
    used as a truth value to *choose* between alternatives — `a or b`, `a if a else b`, `if not a: a = ...` — which
    would treat the empty path as missing."""
    r = RuleResult("C10-EMPTYOK", "an empty path is a path: presence is tested with `is None`", 3)
    n_f = 0
    for f in ctx.p.all_funcs(None):
        if f.module.path.startswith(("cotengra/experimental", "cotengra/plot", "cotengra/schematic")):
            continue
        params = [a.arg for a in f.node.args.posonlyargs + f.node.args.args + f.node.args.kwonlyargs]
        mine = [p_ for p_ in params if p_ in _PATHISH]
        if not mine:
            continue
        n_f += 1
        bad = None

        def is_p(e):
            return isinstance(e, ast.Name) and e.id in mine

        def is_np(e):
            return isinstance(e, ast.UnaryOp) and isinstance(e.op, ast.Not) and is_p(e.operand)
        for n in walk_local(f.node):
            if isinstance(n, ast.BoolOp) and isinstance(n.op, ast.Or) and any(is_p(v) for v in n.values[:-1]):
                par = f.module.parents.get(n)
                if not isinstance(par, (ast.If, ast.While, ast.Assert)) or getattr(par, "test", None) is not n:
                    bad = bad or (n, f"`{C.unparse(n, 50)}` takes the alternative whenever the first is empty")
            if isinstance(n, ast.IfExp) and (is_p(n.test) or is_np(n.test)):
                bad = bad or (n, f"`{C.unparse(n, 50)}` chooses by truth value")
            if isinstance(n, ast.If) and (is_p(n.test) or is_np(n.test)):
                assigned = {t.id for b in n.body + n.orelse for x in ast.walk(b) if isinstance(x, ast.Assign)
                            for t in x.targets if isinstance(t, ast.Name)}
                if assigned & set(_PATHISH):
                    bad = bad or (n, f"`if {C.unparse(n.test, 40)}:` re-binds {sorted(assigned & set(_PATHISH))} depending on emptiness")
        k = ctx.key(f, "C10-EMPTYOK")
        if bad:
            r.violation(k, C.loc(f, bad[0]), bad[1] + ": an empty path (one-tensor tree, an edge order that joins nothing) is treated as "
                        "'not given' — the conversion then raises or silently uses the other format's path")
        else:
            r.ok(k, f.loc, f"path parameters {mine} are never used as truth values to choose an alternative")
    C.require(n_f >= 3, "functions taking a path parameter not found")
    return r


def rule_dispatch(ctx):
    """Shared with C13-DISPATCH (seed C10_8; same construct as C13_6): whether an explicit path is an edge path or a
    linear path is a property of the value, so it cannot be decided once per container type and memoised."""
    from .c13 import rule_dispatch as src

    return C.reuse_rule(ctx, src, "C13-DISPATCH", "C10-DISPATCH", "edge paths and linear paths are told apart per call",
                        lambda i: True, 2)


def rule_convert(ctx):
    """(engine E9) The three converters are pure functions on tuples of ids.  Their source is evaluated by the engine's
    mini-evaluator on **every** single-assignment path of up to four steps over up to four inputs (two steps over
    five) whose steps take one, two or three tensors (complete and partial paths) and on every order of the indices of a set of small networks, and the
    results are checked against the definitions: positions of a recycled-id step are distinct, in range and denote
    exactly the ids of the single-assignment step; converting back gives the same steps (as sets); an edge order
    yields steps that take exactly the live tensors carrying the index at that moment."""
    import itertools

    from ..engine.minieval import Mini, NoEval, Raised

    r = RuleResult("C10-CONVERT", "the converters are inverse to each other and follow the id conventions on a bounded family", 2)
    m = ctx.p.modules[C.BASIC]
    fs = {g.name: g.node for g in m.all_funcs if g.cls is None and g.name in ("linear_to_ssa", "ssa_to_linear", "edge_path_to_ssa")}
    C.require(len(fs) == 3, "converters not found")

    def ssa_paths(N, maxlen=4):
        out = []

        def rec(live, nxt, path):
            out.append(tuple(path))
            if len(live) <= 1 or len(path) >= maxlen:
                return
            for k_ in (1, 2, 3):
                if k_ > len(live):
                    continue
                for comb in itertools.combinations(live, k_):
                    rest = [x for x in live if x not in comb]
                    rec(rest + [nxt], nxt + 1, path + [comb])
        rec(list(range(N)), N, [])
        return out

    def call(name, args):
        return Mini(fs, budget=40000).call(fs[name], args)

    step = 1 if ctx.tier == "thorough" else 5
    bad = None
    n_paths = 0
    k1 = ctx.key(ctx.p.func(C.BASIC, "ssa_to_linear"), "C10-CONVERT", "inverse-pair")
    try:
        idx = 0
        for N in (1, 2, 3, 4, 5):
            for P in ssa_paths(N, 4 if N <= 4 else 2):
                idx += 1
                if idx % step:
                    continue
                n_paths += 1
                try:
                    L = call("ssa_to_linear", [P, N])
                    # reference meaning of the recycled ids
                    ids = list(range(N))
                    nxt = N
                    for stp, want in zip(L, P):
                        stp = list(stp)
                        if len(set(stp)) != len(stp) or any(not (0 <= c < len(ids)) for c in stp):
                            raise _NoVal(f"step {tuple(stp)} is not a set of existing positions (of {len(ids)})")
                        got = sorted(ids[c] for c in stp)
                        if got != sorted(want):
                            raise _NoVal(f"positions {tuple(stp)} denote the ids {got}, the step is {tuple(sorted(want))}")
                        for c in sorted(stp, reverse=True):
                            ids.pop(c)
                        ids.append(nxt)
                        nxt += 1
                    if len(L) != len(P):
                        raise _NoVal("the number of steps changes")
                    back = call("linear_to_ssa", [L, N])
                    if [sorted(x) for x in back] != [sorted(x) for x in P]:
                        raise _NoVal(f"converting back gives {[tuple(sorted(x)) for x in back]}")
                    complete = (N - sum(len(x) - 1 for x in P)) == 1
                    if complete:
                        L2 = call("ssa_to_linear", [P])
                        if [sorted(x) for x in L2] != [sorted(x) for x in L]:
                            raise _NoVal("without the number of inputs the result differs for a complete path")
                        if [sorted(x) for x in call("linear_to_ssa", [L])] != [sorted(x) for x in P]:
                            raise _NoVal("linear_to_ssa without the number of inputs differs for a complete path")
                except _NoVal as e:
                    bad = bad or (P, N, str(e))
                except Raised as e:
                    bad = bad or (P, N, f"raises ({e.text})")
                except NoEval:
                    raise
                except Exception as e:
                    bad = bad or (P, N, f"raises ({type(e).__name__}: {e})")
    except NoEval as e:
        raise AnalysisError(f"converters not evaluable by the mini-evaluator ({e})")
    if bad:
        r.violation(k1, ctx.p.func(C.BASIC, "ssa_to_linear").loc, f"for the single-assignment path {bad[0]} over {bad[1]} inputs: {bad[2]}")
    else:
        r.ok(k1, ctx.p.func(C.BASIC, "ssa_to_linear").loc, f"{n_paths} paths over up to 5 inputs (steps of 1-3 tensors, complete and partial): exact inverse pair")
    # edge orders
    k2 = ctx.key(ctx.p.func(C.BASIC, "edge_path_to_ssa"), "C10-CONVERT", "edge-order")
    nets = [(("a", "b"), ("b", "c"), ("c", "a")), (("a", "b"), ("b", "c"), ("c",)), (("a", "b", "c"), ("a",), ("b",), ("c",)),
            (("a", "h"), ("b", "h"), ("c", "h")), (("a",), ("b",), ("a", "b")), (("a", "a"), ("a", "b")), (("a", "b"), ("c", "d")),
            (("a", "b", "c"), ("c", "d"), ("d", "a"), ("b",)), ((), ("a",), ("a",))]
    bad = None
    n_orders = 0
    try:
        for inputs in nets:
            inds = sorted({ix for t in inputs for ix in t})
            for order in itertools.permutations(inds):
                n_orders += 1
                try:
                    P = call("edge_path_to_ssa", [tuple(order), inputs])
                    live = {i: set(t) for i, t in enumerate(inputs)}
                    nxt = len(inputs)
                    steps = list(P)
                    for ix in order:
                        carriers = sorted(i for i, t in live.items() if ix in t)
                        if len(carriers) < 2:
                            continue
                        if not steps:
                            raise _NoVal(f"no step for index `{ix}` although the tensors {carriers} carry it")
                        stp = steps.pop(0)
                        if sorted(stp) != carriers:
                            raise _NoVal(f"the step for `{ix}` takes {tuple(stp)}, the live tensors carrying it are {tuple(carriers)}")
                        new = set()
                        for c in carriers:
                            new |= live.pop(c)
                        live[nxt] = new
                        nxt += 1
                    if steps:
                        raise _NoVal(f"{len(steps)} step(s) more than indices that join tensors")
                except _NoVal as e:
                    bad = bad or (inputs, order, str(e))
                except Raised as e:
                    bad = bad or (inputs, order, f"raises ({e.text})")
                except NoEval:
                    raise
                except Exception as e:
                    bad = bad or (inputs, order, f"raises ({type(e).__name__}: {e})")
    except NoEval as e:
        raise AnalysisError(f"edge_path_to_ssa not evaluable by the mini-evaluator ({e})")
    if bad:
        r.violation(k2, ctx.p.func(C.BASIC, "edge_path_to_ssa").loc, f"for the network {bad[0]} and the index order {bad[1]}: {bad[2]}")
    else:
        r.ok(k2, ctx.p.func(C.BASIC, "edge_path_to_ssa").loc, f"{n_orders} index orders over {len(nets)} networks: each step takes exactly the live carriers of its index")
    return r


def rule_onetensor(ctx):
    """(seed C10_11) A one-tensor tree has an empty path under *every* traversal order.  Its root is a leaf without a
    `children` entry, which the ordered traversal reads for every node it yields: in `traverse`, an exit taken for
    `N == 1` dominates the dispatch to the ordered traversal (a guard inside the depth-first traversal alone covers
    only the default order of the plain tree — the compressed tree's default order, and every callable order, are
    not depth-first)."""
    r = RuleResult("C10-ONETENSOR", "every traversal order yields nothing for a one-tensor tree", 1)
    tc = ctx.p.cls(C.CORE, "ContractionTree")
    f = tc.lookup("traverse")
    C.require(f is not None, "traverse not found")
    fl = ctx.flow(f)
    cfg = fl.cfg
    k = ctx.key(f, "C10-ONETENSOR")
    disp = [n for n, c in fl.calls() if isinstance(c.func, ast.Attribute) and c.func.attr == "_traverse_ordered"]
    C.require(disp, "traverse: dispatch to _traverse_ordered not found")
    guards = []
    for n in cfg.nodes:
        if n.kind == "test" and isinstance(n.ast, ast.If):
            t = n.ast.test
            txt = C.unparse(t).replace(" ", "")
            if any(p_ in txt for p_ in ("self.N==1", "self.N<=1", "self.N<2", "1==self.N")) and n.ast.body and \
                    isinstance(n.ast.body[-1], ast.Return):
                guards.append(n)
    callee = tc.lookup("_traverse_ordered")
    own = False
    if callee is not None:
        first = callee.node.body[1] if (callee.node.body and isinstance(callee.node.body[0], ast.Expr) and
                                         isinstance(callee.node.body[0].value, ast.Constant) and len(callee.node.body) > 1) else callee.node.body[0]
        own = isinstance(first, ast.If) and "self.N" in C.unparse(first.test) and first.body and isinstance(first.body[-1], ast.Return)
    if own or (guards and all(any(cfg.dominates(g.id, d.id) for g in guards) for d in disp)):
        r.ok(k, C.loc(f, (guards[0].ast if guards else callee.node)), "the one-tensor exit is taken before any ordered traversal")
    else:
        r.violation(k, f.loc, "no exit for `N == 1` dominates the dispatch to `_traverse_ordered`: for a one-tensor tree every order other than "
                    "'dfs' reads `children[root]` of a leaf and raises KeyError — get_path / get_ssa_path under a callable order, and the "
                    "compressed tree's default order")
    return r


RULES = [rule_onetensor, rule_convert, rule_emptyok, rule_dispatch, rule_keys, rule_infer, rule_topo, rule_linear, rule_ssaid, rule_edge, rule_count]
