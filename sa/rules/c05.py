"""C05 — every pathfinder returns a complete contraction (narrow structural clauses)."""

from __future__ import annotations

import ast

from ..engine.program import AnalysisError, dotted, walk_local
from ..engine.report import RuleResult
from . import common as C

PID = "C05"
EXPLANATION = (
    "Which contraction a finder picks is data-dependent and NOT decided, nor that "
    "third-party partitioners label every node. Decided are the protocol facts every "
    "network relies on for 'each input consumed exactly once, ends in one tensor': "
    "(CONSUME) in the simulator behind greedy/optimal/random-greedy/simplify every step "
    "appended to ssa_path has each of its ids removed with the removing accessor and "
    "exactly one new node created, ids come from a counter incremented on every path "
    "that only add_node writes, nodes are removed only by pop_node; (REMAIN) every CFG "
    "path from a main optimisation phase to a statement handing out the path passes "
    "optimize_remaining_by_size() (disconnected networks), a failed (flops-limited) "
    "greedy run is never handed out; optimize_remaining_by_size stops only at one node; "
    "(COMPLETE) from_path joins leftover nodes under autocomplete on every path to its "
    "return and not only in the warning branch; the partition builders' loops contract "
    "on every iteration path, the community join is guarded against the one-community "
    "result, build_agglom's tail join is on every path; (LINEARIDS, STEPS) shared "
    "clauses on position validity and unary steps. "
    "Later rounds added: "
    "(REMAIN all-nodes) the leftover heap covers every remaining node; (COMPLETE "
    "returns-behind-loop) a builder hands its tree out only behind its completing loop; "
    "(CHILDLESS) the set of nodes still to divide is maintained exactly by "
    "contract_nodes_pair. "
    "Round 7 (the corner cases the property names; defects F24-F29): (CPSTATE) a copied processor takes every attribute, the id counter included, from the same attribute of its source; (EMPTYPATH) functions handed the caller's `optimize` read `optimize[k]` only when the path has an element; (ZEROSTEP) logarithms of an operation count that is 0 for a no-step contraction are floored - the hyper-optimizer's exact objectives are not (known finding F29); (CHILDLESS initial) the root starts in the set of nodes still to divide only when it is not a leaf; (PROGRESS) every partition-driven loop escapes when the partition did nothing; (NONEMPTY) a tally that is picked from has an entry on every CFG path, extremes over per-edge collections have a default. "
    'Round 8: (LOGDOMAIN) sign-domain analysis of the logarithms in the greedy score; (FRESHOPT, shared with C16-MEMOFACTORY) no preset is served by a memoised result-carrying optimizer. '
    'Round 9 (engine E9): (PROCEVAL) optimize_greedy and optimize_optimal, with the ContractionProcessor class they drive, are evaluated end to end on every network of one to three tensors (and a sample of four-tensor ones) over a small alphabet of terms; the returned paths are replayed and must consume every input exactly once. '
    '(RGEVAL) the random-greedy finder is evaluated end to end on every small network: complete paths, reported cost = cost of the returned path. '
)
ASSUMPTIONS = ("partition functions return one label per node; kahypar corner-case guards are not decided",)

CP = "ContractionProcessor"


def _cp(ctx):
    c = ctx.p.cls(C.BASIC, CP)
    C.require(c is not None, f"{CP} not found")
    return c


# ------------------------------------------------------------------ CONSUME

def rule_consume(ctx):
    r = RuleResult("C05-CONSUME", "single-use ids in the path simulator", 8)
    cp = _cp(ctx)
    methods = list(cp.methods.values())
    # (1) every append to ssa_path is paired with pops of its ids and one add_node
    n_app = 0
    for f in methods:
        fl = None
        for n in walk_local(f.node):
            if not (isinstance(n, ast.Call) and isinstance(n.func, ast.Attribute) and n.func.attr == "append"
                    and dotted(n.func.value) == "self.ssa_path"):
                continue
            n_app += 1
            k = ctx.key(f, "C05-CONSUME", "step")
            step = n.args[0] if n.args else None
            if not isinstance(step, ast.Tuple) or not all(isinstance(e, ast.Name) for e in step.elts):
                raise AnalysisError(f"{f.qual}: appended step `{C.unparse(n)}` is not a tuple of names")
            fl = fl or ctx.flow(f)
            cfg = fl.cfg
            an = cfg.containing(n, f.module.parents)
            ids = [e.id for e in step.elts]
            probs = []
            for x in ids:
                pops = [c for c in walk_local(f.node) if isinstance(c, ast.Call)
                        and isinstance(c.func, ast.Attribute) and c.func.attr == "pop_node"
                        and dotted(c.func.value) == "self" and c.args and dotted(c.args[0]) == x]
                pn = [cfg.containing(c, f.module.parents) for c in pops]
                pn = [p for p in pn if p is not None]
                if not pn:
                    probs.append(f"`{x}` is recorded as consumed but is not removed with pop_node: the "
                                 f"node stays available and can be contracted again")
                elif not any(cfg.dominates(p.id, an.id) or p.id == an.id for p in pn):
                    probs.append(f"`{x}` is not removed on every path that records the step")
                elif len(pops) > 1 and len({p.id for p in pn}) != len(pops) and False:
                    pass
            adds = [c for c in walk_local(f.node) if isinstance(c, ast.Call) and isinstance(c.func, ast.Attribute)
                    and c.func.attr == "add_node" and dotted(c.func.value) == "self"]
            addn = [cfg.containing(c, f.module.parents) for c in adds]
            if len(adds) != 1:
                probs.append(f"{len(adds)} add_node calls for one recorded step")
            elif not (cfg.dominates(addn[0].id, an.id) or addn[0].id == an.id
                      or cfg.postdominates(addn[0].id, an.id)):
                probs.append("the result node is not created on every path that records the step")
            if probs:
                r.violation(k, C.loc(f, n), "; ".join(probs))
            else:
                r.ok(k, C.loc(f, n), f"step {C.unparse(step)}: every id removed with pop_node, one add_node")
    C.require(n_app >= 2, f"{CP}: fewer than two step-recording sites found")
    # (2) add_node: id from the counter, counter incremented on every path
    f = cp.lookup("add_node")
    C.require(f is not None, "add_node not found")
    k = ctx.key(f, "C05-CONSUME", "fresh-id")
    fl = ctx.flow(f)
    cfg = fl.cfg
    incs = [n for n in walk_local(f.node) if isinstance(n, ast.AugAssign) and dotted(n.target) == "self.ssa"
            and isinstance(n.op, ast.Add) and isinstance(n.value, ast.Constant) and n.value.value == 1]
    incs += [n for n in walk_local(f.node) if isinstance(n, ast.Assign) and dotted(n.targets[0]) == "self.ssa"
             and isinstance(n.value, ast.BinOp) and isinstance(n.value.op, ast.Add)
             and dotted(n.value.left) == "self.ssa" and isinstance(n.value.right, ast.Constant)
             and n.value.right.value == 1]
    stores = [n for n in walk_local(f.node) if isinstance(n, ast.Subscript) and isinstance(n.ctx, ast.Store)
              and dotted(n.value) == "self.nodes"]
    probs = []
    if len(incs) != 1:
        probs.append(f"the id counter is advanced by one {len(incs)} times")
    else:
        inode = cfg.node_of(incs[0])
        if not cfg.postdominates(inode.id, cfg.entry.id):
            probs.append("a path through add_node does not advance the id counter: the next node reuses the id")
    if len(stores) != 1:
        probs.append(f"{len(stores)} stores into self.nodes")
    else:
        keyexpr = stores[0].slice
        deps = fl.deps(keyexpr, cfg.containing(stores[0], f.module.parents).id, "must")
        if not any(d[0] == "attr" and d[1:] == ("self", "ssa") or (len(d) > 2 and d[-1] == "ssa") for d in deps) \
                and "self.ssa" not in C.unparse(keyexpr) and not _name_from_ssa(f, keyexpr):
            probs.append(f"the new node is stored under `{C.unparse(keyexpr)}`, which is not the id counter's value")
        rets = [n for n in walk_local(f.node) if isinstance(n, ast.Return)]
        if not rets or any(n.value is None or C.unparse(n.value) != C.unparse(keyexpr) for n in rets):
            probs.append("add_node does not return the id it stored the node under")
        # the id is read before the increment
        if isinstance(keyexpr, ast.Name) and len(incs) == 1:
            d = [a for a in walk_local(f.node) if isinstance(a, ast.Assign) and dotted(a.targets[0]) == keyexpr.id]
            if len(d) == 1 and d[0].lineno > incs[0].lineno:
                probs.append("the id is read after the counter was advanced: the first new node gets N + 1")
    if probs:
        r.violation(k, f.loc, "; ".join(probs))
    else:
        r.ok(k, f.loc, "id = self.ssa, advanced by one on every path, node stored and returned under it")
    # (3) who may write the counter / the node table
    allowed_ssa = {"__init__", "add_node"}
    allowed_nodes_store = {"__init__", "add_node", "remove_ix"}
    allowed_nodes_del = {"pop_node"}
    for f in methods:
        for n in walk_local(f.node):
            tgt = None
            if isinstance(n, (ast.Assign, ast.AugAssign)):
                for t in (n.targets if isinstance(n, ast.Assign) else [n.target]):
                    if dotted(t) == "self.ssa":
                        tgt = "ssa"
                    elif isinstance(t, ast.Subscript) and dotted(t.value) == "self.nodes":
                        tgt = "nodes-store"
                    elif dotted(t) == "self.nodes":
                        tgt = "nodes-rebind"
            elif isinstance(n, ast.Delete):
                for t in n.targets:
                    if isinstance(t, ast.Subscript) and dotted(t.value) == "self.nodes":
                        tgt = "nodes-del"
            elif isinstance(n, ast.Call) and isinstance(n.func, ast.Attribute) and dotted(n.func.value) == "self.nodes" \
                    and n.func.attr in ("pop", "popitem", "clear", "update", "setdefault"):
                tgt = "nodes-del" if n.func.attr in ("pop", "popitem", "clear") else "nodes-store"
            if tgt is None:
                continue
            k = ctx.key(f, "C05-CONSUME", tgt)
            if tgt == "ssa" and f.name not in allowed_ssa:
                r.violation(k, C.loc(f, n), f"`{C.unparse(n, 60)}`: the id counter is written outside add_node")
            elif tgt in ("nodes-store", "nodes-rebind") and f.name not in allowed_nodes_store:
                r.violation(k, C.loc(f, n), f"`{C.unparse(n, 60)}`: a node is (re)inserted outside add_node; "
                            f"it bypasses the id counter")
            elif tgt == "nodes-del" and f.name not in allowed_nodes_del:
                r.violation(k, C.loc(f, n), f"`{C.unparse(n, 60)}`: a node is removed outside pop_node "
                            f"(the edge map keeps pointing at it)")
            else:
                r.ok(k, C.loc(f, n), f"{tgt} by its owner")
    # (4) pop_node removes
    f = cp.lookup("pop_node")
    C.require(f is not None, "pop_node not found")
    k = ctx.key(f, "C05-CONSUME", "removes")
    pops = [n for n in walk_local(f.node) if isinstance(n, ast.Call) and isinstance(n.func, ast.Attribute)
            and n.func.attr == "pop" and dotted(n.func.value) == "self.nodes"]
    dels = [n for n in walk_local(f.node) if isinstance(n, ast.Delete)
            and any(isinstance(t, ast.Subscript) and dotted(t.value) == "self.nodes" for t in n.targets)]
    if pops or dels:
        fl = ctx.flow(f)
        nn = fl.cfg.containing((pops or dels)[0], f.module.parents)
        if fl.cfg.postdominates(nn.id, fl.cfg.entry.id):
            r.ok(k, f.loc, "the node leaves self.nodes on every path")
        else:
            r.violation(k, f.loc, "a path through pop_node leaves the node in self.nodes")
    else:
        r.violation(k, f.loc, "pop_node reads the node's legs without removing the node: a consumed id "
                    "can be picked again by a later step")
    return r


def _name_from_ssa(f, keyexpr):
    if not isinstance(keyexpr, ast.Name):
        return False
    d = [a for a in walk_local(f.node) if isinstance(a, ast.Assign)
         and any(dotted(t) == keyexpr.id for t in a.targets)]
    return len(d) == 1 and dotted(d[0].value) == "self.ssa" or \
        (len(d) == 1 and isinstance(d[0].targets[0], ast.Name) and len(d[0].targets) == 2)


# ------------------------------------------------------------------ REMAIN

def _cp_locals(ctx, f):
    """locals bound to a ContractionProcessor (constructor or .copy() of one)"""
    names = set()
    changed = True
    while changed:
        changed = False
        for n in walk_local(f.node):
            if isinstance(n, ast.Assign) and len(n.targets) == 1 and isinstance(n.targets[0], ast.Name):
                v = n.value
                t = n.targets[0].id
                if t in names:
                    continue
                if isinstance(v, ast.Call) and dotted(v.func) == CP:
                    names.add(t)
                    changed = True
                elif isinstance(v, ast.Call) and isinstance(v.func, ast.Attribute) and v.func.attr == "copy" \
                        and isinstance(v.func.value, ast.Name) and v.func.value.id in names:
                    names.add(t)
                    changed = True
    return names


def rule_remain(ctx):
    r = RuleResult("C05-REMAIN", "leftover (disconnected) parts are joined before the path is handed out", 5)
    m = ctx.p.module(C.BASIC)
    scope = list(m.all_funcs)
    if ctx.tier == "thorough":
        scope = list(ctx.p.all_funcs())
    for f in scope:
        if f.cls is not None and f.cls.name == CP:
            continue
        cps = _cp_locals(ctx, f)
        if not cps:
            continue
        fl = ctx.flow(f)
        cfg = fl.cfg
        parents = f.module.parents
        hand, main, rem = [], [], []
        for n in walk_local(f.node):
            if isinstance(n, ast.Attribute) and n.attr == "ssa_path" and isinstance(n.value, ast.Name) \
                    and n.value.id in cps and isinstance(n.ctx, ast.Load):
                hand.append(n)
            if isinstance(n, ast.Call) and isinstance(n.func, ast.Attribute) and isinstance(n.func.value, ast.Name) \
                    and n.func.value.id in cps:
                if n.func.attr == "optimize_remaining_by_size":
                    rem.append(n)
                elif n.func.attr.startswith("optimize_"):
                    main.append(n)
        if not hand:
            continue
        if not main:
            r.exempt(ctx.key(f, "C05-REMAIN", "partial"), f.loc,
                     "hands out the simplifications only (documented as a partial path)")
            continue
        rem_nodes = [cfg.containing(x, parents).id for x in rem]
        for h in hand:
            hn = cfg.containing(h, parents)
            k = ctx.key(f, "C05-REMAIN", "handout")
            bad = None
            for mc in main:
                mn = cfg.containing(mc, parents)
                if hn.id not in cfg.reachable_from_succs(mn.id):
                    continue
                if not cfg.all_paths_pass(mn.id, rem_nodes, dst=hn.id):
                    p = cfg.path_avoiding(mn.id, rem_nodes, dst=hn.id)
                    bad = (mc, p)
                    break
            if bad:
                r.violation(k, C.loc(f, h), f"the path is handed out after `{C.unparse(bad[0], 50)}` without "
                            f"optimize_remaining_by_size(): for a network that is disconnected after "
                            f"simplification the path ends in several tensors",
                            path=cfg.describe_path(bad[1]) if bad[1] else "")
            else:
                r.ok(k, C.loc(f, h), "every path from the main phase passes optimize_remaining_by_size()")
        # a failed (flops-limited) run is not handed out
        for mc in main:
            st = C.enclosing_stmt(f, mc)
            tracked = any(isinstance(n, ast.Call) and dotted(n.func) == CP and
                          any(kw.arg == "track_flops" and isinstance(kw.value, ast.Constant) and kw.value.value
                              for kw in n.keywords) for n in walk_local(f.node))
            if not tracked or mc.func.attr != "optimize_greedy":
                continue
            k = ctx.key(f, "C05-REMAIN", "failed-run")
            if not (isinstance(st, ast.Assign) and isinstance(st.targets[0], ast.Name)):
                r.violation(k, C.loc(f, mc), "the outcome of a flops-limited greedy run is discarded: a run "
                            "that stopped early is completed by size and handed out as a finished path")
                continue
            flag = st.targets[0].id
            an = cfg.containing(st, parents)
            tests = []
            for tn in cfg.nodes:
                if tn.kind != "test" or not isinstance(tn.ast, (ast.If, ast.While)):
                    continue
                t = tn.ast.test
                if dotted(t) == flag:
                    pol = True
                elif isinstance(t, ast.UnaryOp) and isinstance(t.op, ast.Not) and dotted(t.operand) == flag:
                    pol = False
                else:
                    continue
                body_succ = [s for s in cfg.succ[tn.id] if cfg.branch.get((tn.id, s)) is True]
                other = [s for s in cfg.succ[tn.id] if s not in body_succ]
                falsy = other if pol else body_succ
                tests.append((tn, falsy))
            guarded = bool(tests)
            for h in hand:
                hn = cfg.containing(h, parents)
                if hn.id not in cfg.reachable_from_succs(an.id):
                    continue
                if not cfg.all_paths_pass(an.id, [t.id for t, _ in tests], dst=hn.id):
                    guarded = False
                for tn, falsy in tests:
                    for s0 in falsy:
                        if hn.id in cfg.reachable(s0, avoid=[an.id]):
                            guarded = False
            if guarded:
                r.ok(k, C.loc(f, mc), f"`{flag}` is tested before the path is kept")
            else:
                r.violation(k, C.loc(f, mc), f"`{flag}` (False when the flops limit stopped the run) is not "
                            f"tested before the path is kept")
    # optimize_remaining_by_size itself
    cp = _cp(ctx)
    f = cp.lookup("optimize_remaining_by_size")
    C.require(f is not None, "optimize_remaining_by_size not found")
    k = ctx.key(f, "C05-REMAIN", "until-one")
    loops = [n for n in walk_local(f.node) if isinstance(n, ast.While)]
    C.require(len(loops) == 1, f"{f.qual}: expected one loop")
    w = loops[0]
    t = w.test
    heap = None
    ok_test = False
    if isinstance(t, ast.Compare) and isinstance(t.left, ast.Call) and dotted(t.left.func) == "len" \
            and isinstance(t.comparators[0], ast.Constant):
        heap = dotted(t.left.args[0])
        c, op = t.comparators[0].value, t.ops[0]
        ok_test = (isinstance(op, ast.Gt) and c == 1) or (isinstance(op, ast.GtE) and c == 2) or \
            (isinstance(op, ast.NotEq) and c == 1)
    pops = [n for n in ast.walk(w) if isinstance(n, ast.Call) and (dotted(n.func) or "").endswith("heappop")]
    pushes = [n for n in ast.walk(w) if isinstance(n, ast.Call) and (dotted(n.func) or "").endswith("heappush")]
    contracts = [n for n in ast.walk(w) if isinstance(n, ast.Call) and isinstance(n.func, ast.Attribute)
                 and n.func.attr == "contract_nodes"]
    if not ok_test:
        r.violation(k, C.loc(f, w), f"the joining loop `{C.unparse(t)}` does not run until one node is left")
    elif len(pops) != 2 or len(pushes) != 1 or len(contracts) != 1:
        r.violation(k, C.loc(f, w), f"a round of the joining loop takes {len(pops)} nodes and puts back "
                    f"{len(pushes)} (expected 2 and 1, one contraction)")
    else:
        r.ok(k, C.loc(f, w), "loops while more than one node; each round pops two, contracts, pushes one")
    # (seed C05_3) the collection the loop drains holds *every* remaining node
    k = ctx.key(f, "C05-REMAIN", "all-nodes")
    defs = ctx.r.local_assignments(f).get(heap, []) if heap else []
    if heap is None or len(defs) != 1:
        r.exempt(k, C.loc(f, w), f"the collection drained by the joining loop (`{heap}`) is not a single local "
                 f"definition: coverage of all nodes not decided")
    else:
        d = defs[0]
        if isinstance(d, ast.Call) and dotted(d.func) in ("list", "sorted") and d.args:
            d = d.args[0]
        src = None
        filt = None
        if isinstance(d, (ast.ListComp, ast.GeneratorExp)):
            g = d.generators[0]
            src = C.unparse(g.iter)
            filt = [C.unparse(c, 40) for gg in d.generators for c in gg.ifs]
        else:
            src = C.unparse(d)
            filt = []
        if not src.startswith("self.nodes"):
            r.violation(k, C.loc(f, defs[0]), f"`{heap}` is built from `{src}`, not from the simulator's remaining "
                        f"nodes: nodes outside it are never joined")
        elif filt:
            r.violation(k, C.loc(f, defs[0]), f"`{heap}` leaves out the nodes failing `{filt[0]}`: they are never "
                        f"joined, so the path ends with several tensors whenever the main phase leaves such nodes "
                        f"(e.g. a closed disconnected component, which is a scalar only *after* it was contracted)")
        else:
            r.ok(k, C.loc(f, defs[0]), f"`{heap}` is built from all of `{src}`")
    # early exits of optimize_remaining_by_size: only when nothing is left to join
    k = ctx.key(f, "C05-REMAIN", "early-return")
    bad = []
    for n in walk_local(f.node):
        if isinstance(n, ast.Return):
            ifs = C.enclosing_ifs(f, n)
            if not ifs:
                continue
            test = ifs[0][0].test
            val = None
            if isinstance(test, ast.Compare) and isinstance(test.left, ast.Call) and dotted(test.left.func) == "len" \
                    and dotted(test.left.args[0]) == "self.nodes" and isinstance(test.comparators[0], ast.Constant) \
                    and isinstance(test.ops[0], ast.Eq):
                val = test.comparators[0].value
            blk = ifs[0][0].body
            has_contract = any(isinstance(c, ast.Call) and isinstance(c.func, ast.Attribute)
                               and c.func.attr == "contract_nodes" for s in blk for c in ast.walk(s))
            if val == 1 and not has_contract:
                continue
            if val == 2 and has_contract:
                continue
            bad.append(C.unparse(test, 60))
    if bad:
        r.violation(k, f.loc, f"returns early under {bad} with nodes still to join")
    else:
        r.ok(k, f.loc, "early returns only with one node left, or two nodes after joining them")
    return r


def _block(parents, st):
    p = parents.get(st)
    for fld in ("body", "orelse", "finalbody"):
        blk = getattr(p, fld, None)
        if isinstance(blk, list) and any(s is st for s in blk):
            return blk
    return [st]


# ------------------------------------------------------------------ COMPLETE

def rule_complete(ctx):
    r = RuleResult("C05-COMPLETE", "tree builders join whatever is left", 6)
    tc = ctx.p.cls(C.CORE, "ContractionTree")
    builders = [tc.lookup("from_path")]
    for c in tc.all_subclasses():
        f = c.methods.get("from_path")
        if f is not None and (ctx.tier == "thorough" or c.module.path == C.CORE):
            builders.append(f)
    for f in builders:
        C.require(f is not None, "from_path not found")
        k = ctx.key(f, "C05-COMPLETE", "autocomplete")
        fl = ctx.flow(f)
        cfg = fl.cfg
        cands = [n for n in f.node.body if isinstance(n, ast.If) and
                 any(isinstance(x, ast.Name) and x.id == "autocomplete" for x in ast.walk(n.test))]
        nested = [n for n in walk_local(f.node) if isinstance(n, ast.If) and n not in cands and
                  any(isinstance(x, ast.Name) and x.id == "autocomplete" for x in ast.walk(n.test))
                  and not isinstance(n.test, ast.Compare)]
        if not cands:
            if nested:
                r.violation(k, C.loc(f, nested[0]), "the completion of an incomplete path is nested in "
                            "another branch: it does not run for every kind of path")
            else:
                r.violation(k, f.loc, "no completion step under `autocomplete` on the way to the return")
            continue
        st = cands[0]
        conj = st.test.values if isinstance(st.test, ast.BoolOp) and isinstance(st.test.op, ast.And) else [st.test]
        if not any(isinstance(c, ast.Name) and c.id == "autocomplete" for c in conj):
            r.violation(k, C.loc(f, st), f"`{C.unparse(st.test, 80)}`: completion is not controlled by the "
                        f"truth of `autocomplete` (True and 'auto' must both complete)")
            continue
        # the completing call sits directly in the body (not only in the 'auto' warning branch)
        direct = [s for s in st.body if isinstance(s, ast.Expr) and isinstance(s.value, ast.Call)
                  and isinstance(s.value.func, ast.Attribute)
                  and s.value.func.attr in ("contract_nodes", "autocomplete")]
        if not direct:
            r.violation(k, C.loc(f, st), "the completing call is not at the top of the `autocomplete` "
                        "branch: with autocomplete=True (no warning) the tree stays incomplete")
            continue
        # the size test lets through every incomplete state
        sizeok = None
        for c in conj:
            if isinstance(c, ast.Compare) and isinstance(c.left, ast.Call) and dotted(c.left.func) == "len":
                op, rhs = c.ops[0], c.comparators[0]
                if isinstance(rhs, ast.Constant):
                    sizeok = (isinstance(op, ast.Gt) and rhs.value == 1) or \
                        (isinstance(op, ast.GtE) and rhs.value == 2) or (isinstance(op, ast.NotEq) and rhs.value == 1)
                else:
                    # len(tree.children) < tree.N - 1
                    sizeok = isinstance(op, ast.Lt) and C.unparse(rhs).replace(" ", "").endswith("N-1")
        if sizeok is False:
            r.violation(k, C.loc(f, st), f"`{C.unparse(st.test, 80)}` does not hold for every incomplete "
                        f"tree (two leftover nodes are still two tensors)")
            continue
        r.ok(k, C.loc(f, st), f"`{C.unparse(st.test, 70)}` → `{C.unparse(direct[0], 60)}` on every path to the return")
        # ssa ids are consumed (dict pop), not looked up
        if f.cls is tc:
            k2 = ctx.key(f, "C05-COMPLETE", "ssa-consume")
            pools = {dotted(a.targets[0]) for a in walk_local(f.node) if isinstance(a, ast.Assign)
                     and isinstance(a.targets[0], ast.Name) and "gen_leaves" in C.unparse(a.value)}
            gets = []
            for n in walk_local(f.node):
                if isinstance(n, ast.ListComp) and isinstance(n.elt, ast.Subscript) and \
                        dotted(n.elt.value) in pools:
                    gets.append(n)
            pops = [n for n in walk_local(f.node) if isinstance(n, ast.Call) and isinstance(n.func, ast.Attribute)
                    and n.func.attr == "pop" and dotted(n.func.value) in pools]
            if gets:
                r.violation(k2, C.loc(f, gets[0]), "operands of a step are looked up, not removed: they are "
                            "joined again by the completion (an input consumed twice)")
            elif len(pops) >= 2:
                r.ok(k2, C.loc(f, pops[0]), "operands are removed from the pool in both id formats")
            else:
                raise AnalysisError(f"{f.qual}: operand consumption idiom not recognised")
    # partition builders
    b = ctx.p.cls(C.CORE, "PartitionTreeBuilder")
    C.require(b is not None, "PartitionTreeBuilder not found")
    f = b.lookup("build_divide")
    C.require(f is not None, "build_divide not found")
    fl = ctx.flow(f)
    cfg = fl.cfg
    parents = f.module.parents
    loops = [n for n in f.node.body if isinstance(n, ast.While)]
    C.require(len(loops) == 1, "build_divide: expected one top-level loop")
    w = loops[0]
    k = ctx.key(f, "C05-COMPLETE", "loop")
    if "childless" not in C.unparse(w.test):
        r.violation(k, C.loc(f, w), f"the dividing loop `{C.unparse(w.test)}` does not run until no "
                    f"childless node remains")
    else:
        head = cfg.node_of(w)
        cn = [n for n in ast.walk(w) if isinstance(n, ast.Call) and isinstance(n.func, ast.Attribute)
              and n.func.attr == "contract_nodes"]
        nodes = [cfg.containing(n, parents).id for n in cn]
        if cfg.all_paths_pass(head.id, nodes, dst=head.id):
            r.ok(k, C.loc(f, w), f"every round contracts ({len(cn)} contract_nodes sites)")
        else:
            p = cfg.path_avoiding(head.id, nodes, dst=head.id)
            r.violation(k, C.loc(f, w), "a round of the dividing loop can finish without contracting anything",
                        path=cfg.describe_path(p) if p else "")
        # the community join is guarded against a single community
        k2 = ctx.key(f, "C05-COMPLETE", "one-community")
        joins = []
        for n in cn:
            if n.args and isinstance(n.args[0], ast.Name):
                deps = fl.deps(n.args[0], cfg.containing(n, parents).id, "may")
                if any(d[0] == "call" and d[1].split(".")[-1] in ("partition_fn", "separate") for d in deps):
                    joins.append(n)
        if not joins:
            raise AnalysisError("build_divide: the call joining the communities was not found")
        for j in joins:
            nm = j.args[0].id
            jn = cfg.containing(j, parents)
            guards = []
            for s in ast.walk(w):
                if isinstance(s, ast.If) and isinstance(s.test, ast.Compare) and isinstance(s.test.left, ast.Call) \
                        and dotted(s.test.left.func) == "len" and dotted(s.test.left.args[0]) == nm \
                        and isinstance(s.test.comparators[0], ast.Constant) and s.test.comparators[0].value == 1 \
                        and isinstance(s.test.ops[0], (ast.Eq, ast.LtE)):
                    if s.body and isinstance(s.body[-1], (ast.Continue, ast.Break, ast.Return)):
                        tn = cfg.node_of(s)
                        if tn is not None and cfg.dominates(tn.id, jn.id):
                            guards.append(s)
            for i, in_true in C.enclosing_ifs(f, C.enclosing_stmt(f, j)):
                t = i.test
                if in_true and isinstance(t, ast.Compare) and "len" in C.unparse(t) and nm in C.unparse(t):
                    guards.append(i)
            if guards:
                r.ok(k2, C.loc(f, j), f"`len({nm}) == 1` leaves the round before the communities are joined")
            else:
                r.violation(k2, C.loc(f, j), f"the communities `{nm}` are joined without a guard for a single "
                            f"community: contract_nodes returns the node itself, it stays childless and the "
                            f"loop never ends (or the subgraph is never contracted)")
    _returns_behind_loop(ctx, r, f, cfg, parents, w, "dividing loop `while tree.childless`", breaks_count=True)
    f = b.lookup("build_agglom")
    C.require(f is not None, "build_agglom not found")
    fl = ctx.flow(f)
    cfg = fl.cfg
    parents = f.module.parents
    loops = [n for n in f.node.body if isinstance(n, ast.While)]
    C.require(len(loops) == 1, "build_agglom: expected one top-level loop")
    w = loops[0]
    k = ctx.key(f, "C05-COMPLETE", "tail")
    head = cfg.node_of(w)
    pool = None
    if isinstance(w.test, ast.Compare) and isinstance(w.test.left, ast.Call) and dotted(w.test.left.func) == "len":
        pool = dotted(w.test.left.args[0])
    C.require(pool is not None, "build_agglom: loop test not understood")
    tails = []
    for s in f.node.body:
        if isinstance(s, ast.If) and isinstance(s.test, ast.Compare) and isinstance(s.test.left, ast.Call) \
                and dotted(s.test.left.func) == "len" and dotted(s.test.left.args[0]) == pool:
            op, rhs = s.test.ops[0], s.test.comparators[0]
            good = isinstance(rhs, ast.Constant) and (
                (isinstance(op, ast.Gt) and rhs.value == 1) or (isinstance(op, ast.GtE) and rhs.value == 2)
                or (isinstance(op, ast.NotEq) and rhs.value == 1))
            has = any(isinstance(c, ast.Call) and isinstance(c.func, ast.Attribute) and c.func.attr == "contract_nodes"
                      and c.args and dotted(c.args[0]) == pool for x in s.body for c in ast.walk(x))
            if good and has:
                tails.append(s)
    if not tails:
        r.violation(k, f.loc, f"after the grouping loop the remaining `{pool}` are not joined under "
                    f"`len({pool}) > 1`: up to `groupsize` subtrees stay unconnected")
    else:
        tn = cfg.node_of(tails[0])
        if cfg.all_paths_pass(head.id, [tn.id]):
            r.ok(k, C.loc(f, tails[0]), f"`{C.unparse(tails[0].test)}` → join, on every path from the loop to the return")
        else:
            r.violation(k, C.loc(f, tails[0]), "the tail join can be bypassed")
    _returns_behind_loop(ctx, r, f, cfg, parents, w, "grouping loop and its tail join")
    return r


def _only_single_input(t):
    """`X.N == 1`, `X.N <= 1`, `len(inputs) < 2` ...: satisfied by no count above one."""
    if not (isinstance(t, ast.Compare) and len(t.ops) == 1 and isinstance(t.comparators[0], ast.Constant)
            and isinstance(t.comparators[0].value, int)):
        return False
    l = t.left
    is_count = (isinstance(l, ast.Attribute) and l.attr == "N") or \
        (isinstance(l, ast.Call) and dotted(l.func) == "len" and l.args and (dotted(l.args[0]) or "").split(".")[-1] == "inputs")
    if not is_count:
        return False
    c = t.comparators[0].value
    fn = {ast.Eq: lambda a: a == c, ast.LtE: lambda a: a <= c, ast.Lt: lambda a: a < c}.get(type(t.ops[0]))
    return fn is not None and not any(fn(n_) for n_ in range(2, 8))


def _returns_behind_loop(ctx, r, f, cfg, parents, w, what, breaks_count=False):
    """(seed C05_2) a builder hands its tree out only behind its completing loop: every `return` is
    dominated by the loop's test and lies outside its body."""
    k = ctx.key(f, "C05-COMPLETE", "returns-behind-loop")
    head = cfg.node_of(w)
    inside = {id(x) for x in ast.walk(w)}
    bad = []
    n_ret = 0
    for n in walk_local(f.node):
        if not isinstance(n, ast.Return):
            continue
        n_ret += 1
        rn = cfg.containing(n, parents)
        if id(n) in inside or not cfg.dominates(head.id, rn.id):
            # a single input needs no contraction: an exit taken only for N <= 1 is complete
            ifs = C.enclosing_ifs(f, n)
            if ifs and ifs[0][1] and _only_single_input(ifs[0][0].test):
                continue
            bad.append(n)
    if breaks_count:
        # (sensitivity map) leaving the loop with `break` reaches the return although its test still holds
        for n in walk_local(f.node):
            if isinstance(n, ast.Break) and id(n) in inside:
                lp = C.enclosing_loops(f, n)
                if lp and lp[0] is w:
                    bad.append(n)
    if bad:
        ifs = C.enclosing_ifs(f, bad[0])
        cond = f" under `{C.unparse(ifs[0][0].test, 50)}`" if ifs else ""
        r.violation(k, C.loc(f, bad[0]), f"`{C.unparse(bad[0], 40)}`{cond} hands the tree out without passing "
                    f"the {what}: for the inputs that take this exit the tree has nodes that were never "
                    f"contracted (incomplete tree; its path raises or omits inputs)")
    else:
        r.ok(k, f.loc, f"all {n_ret} return(s) lie behind the {what}")


# ------------------------------------------------------------------ shared

def rule_linearids(ctx):
    from .c10 import rule_linear as src

    return C.reuse_rule(ctx, src, "C10-LINEAR", "C05-LINEARIDS",
                        "returned linear paths reference positions that exist at that step",
                        lambda i: "ssa_to_linear" in i.construct or "get_path" in i.construct, 2)


def rule_steps(ctx):
    from .c20 import rule_steps as src

    return C.reuse_rule(ctx, src, "C20-STEPS", "C05-STEPS",
                        "consumers of paths accept unary (single-term) steps", lambda i: True, 1)


def rule_childless(ctx):
    """(sensitivity map) `build_divide` runs `while tree.childless` and partitions whatever node that set hands it;
    the set is a typestate kept by `contract_nodes_pair`: a node is in it iff it has more than one leaf and no
    children yet.  Linking a parent removes the parent and adds each child exactly when the child is such a
    node — a leaf in the set is 'partitioned' for ever, a missing intermediate is never divided."""
    r = RuleResult("C05-CHILDLESS", "the set of nodes still to divide is maintained exactly", 4)
    tc = ctx.p.cls(C.CORE, "ContractionTree")
    f = tc.lookup("contract_nodes_pair")
    C.require(f is not None, "contract_nodes_pair not found")
    blk = [n for n in walk_local(f.node) if isinstance(n, ast.If) and C.unparse(n.test) == "self.track_childless"]
    C.require(len(blk) == 1, "contract_nodes_pair: `if self.track_childless:` block not found")
    b = blk[0]
    params = [a.arg for a in f.node.args.args][1:3]
    parent = None
    for n in walk_local(f.node):
        if isinstance(n, ast.Assign) and isinstance(n.targets[0], ast.Name) and isinstance(n.value, ast.Call) \
                and isinstance(n.value.func, ast.Attribute) and n.value.func.attr == "union":
            parent = n.targets[0].id
    la = ctx.r.local_assignments(f)
    k = ctx.key(f, "C05-CHILDLESS", "parent")
    dis = [st for st in b.body if isinstance(st, ast.Expr) and isinstance(st.value, ast.Call)
           and C.unparse(st.value.func) == "self.childless.discard" and dotted(st.value.args[0]) == parent]
    fl = ctx.flow(f)
    link = [n for n in walk_local(f.node) if isinstance(n, ast.Assign) and
            any(isinstance(t, ast.Subscript) and C.unparse(t.value) == "self.children" for t in n.targets)]
    if dis and link:
        r.ok(k, C.loc(f, dis[0]), "the linked parent leaves the set unconditionally")
    else:
        r.violation(k, C.loc(f, b), "the linked parent is not removed from the set of childless nodes: the dividing loop "
                    "picks it again although it already has children")
    for c in params:
        k = ctx.key(f, "C05-CHILDLESS", f"child:{c}")
        adds = [st for st in ast.walk(b) if isinstance(st, ast.Call) and C.unparse(st.func) == "self.childless.add"
                and dotted(st.args[0]) == c]
        if len(adds) != 1:
            r.violation(k, C.loc(f, b), f"child `{c}` is added to the set {len(adds)} times (expected once, guarded)")
            continue
        g = [i_ for i_, t in C.enclosing_ifs(f, C.enclosing_stmt(f, adds[0])) if t and i_ is not b]
        t = g[0].test if g else None
        conj = t.values if isinstance(t, ast.BoolOp) and isinstance(t.op, ast.And) else ([] if t is None else [t])
        no_children = any(isinstance(x, ast.Compare) and isinstance(x.ops[0], ast.NotIn) and dotted(x.left) == c
                          and C.unparse(x.comparators[0]) == "self.children" for x in conj)
        big = False
        for x in conj:
            if isinstance(x, ast.Compare) and len(x.ops) == 1 and isinstance(x.comparators[0], ast.Constant):
                left = x.left
                if isinstance(left, ast.Name):
                    defs = la.get(left.id, [])
                    # nx, ny = len(x), len(y)
                    is_len = any(C.unparse(v) == f"len({c})" for v in defs) or any(
                        isinstance(v, ast.Tuple) for v in defs)
                    tup = [n for n in walk_local(f.node) if isinstance(n, ast.Assign) and isinstance(n.targets[0], ast.Tuple)
                           and isinstance(n.value, ast.Tuple)]
                    for tp in tup:
                        for te, ve in zip(tp.targets[0].elts, tp.value.elts):
                            if dotted(te) == left.id:
                                is_len = C.unparse(ve) == f"len({c})"
                elif isinstance(left, ast.Call):
                    is_len = C.unparse(left) == f"len({c})"
                else:
                    is_len = False
                v, op = x.comparators[0].value, x.ops[0]
                if is_len and ((isinstance(op, ast.Gt) and v == 1) or (isinstance(op, ast.GtE) and v == 2)
                               or (isinstance(op, ast.NotEq) and v == 1)):
                    big = True
        if isinstance(t, ast.BoolOp) and isinstance(t.op, ast.Or):
            no_children = big = False
        if no_children and big:
            r.ok(k, C.loc(f, adds[0]), f"`{c}` joins the set iff it has no children yet and more than one leaf")
        else:
            r.violation(k, C.loc(f, adds[0]), f"`{c}` joins the set under `{C.unparse(t, 60) if t is not None else 'no test'}`, expected "
                        f"`{c} not in self.children and len({c}) > 1`: a leaf (or an already divided node) in the set is handed "
                        f"to the partitioner again and again, a missing intermediate is never divided")
    # (defect F26) the initial state: the root is "still to divide" only if it is not itself a leaf
    init = tc.lookup("__init__")
    k = ctx.key(init, "C05-CHILDLESS", "initial")
    sts = [n for n in walk_local(init.node) if isinstance(n, ast.Assign) and any(C.unparse(t) == "self.childless" for t in n.targets)]
    C.require(len(sts) >= 1, "__init__: initial `self.childless` not found")

    def _is_n(y):
        return C.unparse(y) in ("self.N", "N") or (isinstance(y, ast.Call) and dotted(y.func) == "len")

    def _cmp(x, want_many):
        """Is Compare ``x`` true exactly for 'more than one leaf' (want_many) / 'a single leaf' (not want_many)?"""
        if not (isinstance(x, ast.Compare) and len(x.ops) == 1):
            return False
        l, op, rr = x.left, x.ops[0], x.comparators[0]
        if _is_n(rr) and isinstance(l, ast.Constant):
            flip = {ast.Lt: ast.Gt, ast.LtE: ast.GtE, ast.Gt: ast.Lt, ast.GtE: ast.LtE}
            l, rr, op = rr, l, flip.get(type(op), type(op))()
        if not (_is_n(l) and isinstance(rr, ast.Constant) and isinstance(rr.value, int)):
            return False
        v = rr.value
        many = (isinstance(op, ast.Gt) and v == 1) or (isinstance(op, ast.GtE) and v == 2) or (isinstance(op, ast.NotEq) and v == 1)
        single = (isinstance(op, ast.Eq) and v == 1) or (isinstance(op, ast.LtE) and v == 1) or (isinstance(op, ast.Lt) and v == 2)
        return many if want_many else single

    def _sized(e, in_true=True):
        if isinstance(e, ast.BoolOp) and isinstance(e.op, ast.And) and in_true:
            return any(_sized(v_, True) for v_ in e.values)
        if isinstance(e, ast.UnaryOp) and isinstance(e.op, ast.Not):
            return _sized(e.operand, not in_true)
        return _cmp(e, in_true)

    def _value_sized(e):
        for x in ast.walk(e):
            if isinstance(x, ast.IfExp):
                body_root = any(isinstance(y, ast.Attribute) and y.attr == "root" for y in ast.walk(x.body))
                if _sized(x.test, body_root):
                    return True
            if isinstance(x, (ast.ListComp, ast.GeneratorExp, ast.SetComp)) and any(_sized(c_, True) for g in x.generators for c_ in g.ifs):
                return True
        return False

    ins = []
    for st in sts:
        nonempty = any(isinstance(x, (ast.List, ast.Tuple, ast.Set)) and x.elts for x in ast.walk(st.value)) or \
            any(isinstance(x, ast.Name) and x.id == "root" or isinstance(x, ast.Attribute) and x.attr == "root" for x in ast.walk(st.value))
        if nonempty:
            ins.append(st)
    for n in walk_local(init.node):
        if isinstance(n, ast.Expr) and isinstance(n.value, ast.Call) and C.unparse(n.value.func) in ("self.childless.add", "self.childless.update"):
            ins.append(n)
    if not ins:
        r.violation(k, C.loc(init, sts[0]), "the root never enters the set of nodes still to divide: build_divide returns an undivided tree")
    for st in ins:
        if _value_sized(getattr(st, "value", st)) or any(_sized(i_.test, t) for i_, t in C.enclosing_ifs(init, st)):
            r.ok(k, C.loc(init, st), "the root starts in the set only when it has more than one leaf")
        else:
            r.violation(k, C.loc(init, st), f"`{C.unparse(st)}`: for a one-tensor network the root is a leaf, yet it starts in the set of "
                        "nodes still to divide — contract_nodes_pair keeps leaves out (`len > 1`), nothing ever removes it, and "
                        "`while tree.childless` in build_divide never terminates")
    return r


class _NoLen(Exception):
    pass


def _pev(e, env):
    """partial evaluation of pure integer / tuple expressions (used for lengths only)"""
    if isinstance(e, ast.Constant) and isinstance(e.value, (int, bool)):
        return e.value
    if isinstance(e, ast.Name):
        if e.id in env:
            return env[e.id]
        defs = env.get("__locals__", {}).get(e.id, [])
        if len(defs) == 1:
            return _pev(defs[0], env)     # a single-definition local: its (pure) definition
        raise _NoLen(f"unbound `{e.id}`")
    if isinstance(e, ast.Tuple):
        return tuple(_pev(x, env) for x in e.elts)
    if isinstance(e, ast.BinOp):
        l, r_ = _pev(e.left, env), _pev(e.right, env)
        ops = {ast.Add: lambda a, b: a + b, ast.Sub: lambda a, b: a - b, ast.Mult: lambda a, b: a * b,
               ast.FloorDiv: lambda a, b: a // b, ast.Mod: lambda a, b: a % b}
        if type(e.op) in ops:
            try:
                return ops[type(e.op)](l, r_)
            except Exception as ex:  # noqa
                raise _NoLen(str(ex))
    if isinstance(e, ast.Compare) and len(e.ops) == 1:
        l, r_ = _pev(e.left, env), _pev(e.comparators[0], env)
        ops = {ast.Lt: l < r_, ast.LtE: l <= r_, ast.Gt: l > r_, ast.GtE: l >= r_, ast.Eq: l == r_, ast.NotEq: l != r_} \
            if type(e.ops[0]) in (ast.Lt, ast.LtE, ast.Gt, ast.GtE, ast.Eq, ast.NotEq) else {}
        if type(e.ops[0]) in ops:
            return ops[type(e.ops[0])]
    if isinstance(e, ast.Call) and dotted(e.func) == "range" and not e.keywords:
        return tuple(range(*[_pev(a, env) for a in e.args]))
    if isinstance(e, ast.Call) and dotted(e.func) in ("list", "tuple") and len(e.args) == 1:
        return tuple(_pev(e.args[0], env))
    raise _NoLen(f"`{C.unparse(e, 40)}`")


def _plen(e, env):
    """number of elements of a list-valued expression under env (elements themselves need not be evaluable)"""
    if isinstance(e, (ast.ListComp, ast.GeneratorExp)):
        def rec(gens, env_):
            if not gens:
                return 1
            g = gens[0]
            if g.ifs:
                raise _NoLen("filtered comprehension")
            it = _pev(g.iter, env_)
            tot = 0
            for v in it:
                e2 = dict(env_)
                if isinstance(g.target, ast.Name):
                    e2[g.target.id] = v
                tot += rec(gens[1:], e2)
            return tot
        return rec(list(e.generators), env)
    if isinstance(e, ast.Call) and dotted(e.func) in ("list", "tuple") and len(e.args) == 1:
        a = e.args[0]
        if isinstance(a, (ast.ListComp, ast.GeneratorExp)):
            return _plen(a, env)
        return len(_pev(a, env))
    if isinstance(e, (ast.List, ast.Tuple)):
        return len(e.elts)
    raise _NoLen(f"`{C.unparse(e, 40)}`")


def rule_labels(ctx):
    """(seed C05_4) The tree builders pair nodes with the partitioner's labels positionally (`zip`, which
    truncates silently): a membership list shorter than the number of nodes loses leaves (agglomerative) or
    never resolves the sub-graph (divisive).  The partitioners' *hand-written* fallbacks — taken exactly in the
    corner cases no test reaches — are lists whose length is partially evaluated for sample (nodes, parts)."""
    r = RuleResult("C05-LABELS", "hand-written partition fallbacks label every node", 2)
    samples = [(nv, pt) for nv in (3, 4, 5, 7, 8, 9) for pt in (2, 3, 4) if pt < nv]
    n_dec = 0
    for path in ("cotengra/pathfinders/path_kahypar.py", "cotengra/pathfinders/path_labels.py",
                 "cotengra/pathfinders/path_igraph.py", "cotengra/pathfinders/path_kahypar_gen.py"):
        m = ctx.p.modules.get(path)
        if m is None:
            continue
        for f in m.all_funcs:
            params = [a.arg for a in f.node.args.args]
            if "inputs" not in params or "parts" not in params:
                continue
            la = ctx.r.local_assignments(f)
            nvn = [nm for nm, vs in la.items() if any(C.unparse(v) == "len(inputs)" for v in vs)]
            for n in walk_local(f.node):
                if not (isinstance(n, ast.Return) and n.value is not None):
                    continue
                v = n.value
                if not (isinstance(v, (ast.ListComp, ast.List)) or
                        (isinstance(v, ast.Call) and dotted(v.func) in ("list", "tuple"))):
                    continue
                k = ctx.key(f, "C05-LABELS", f"return@{len([i for i in r.instances if f.qual in i.construct])}")
                bad = None
                try:
                    for nv, pt in samples:
                        env = {"parts": pt, "__locals__": la}
                        for nm in nvn:
                            env[nm] = nv
                        ln = _plen(v, env)
                        if ln != nv and bad is None:
                            bad = (nv, pt, ln)
                except _NoLen as e:
                    r.exempt(k, C.loc(f, n), f"length of `{C.unparse(v, 50)}` not evaluable ({e}): not decided")
                    continue
                n_dec += 1
                if bad:
                    r.violation(k, C.loc(f, n), f"`{C.unparse(v, 70)}` has {bad[2]} labels for {bad[0]} nodes (parts = {bad[1]}): the "
                                f"builders zip nodes with labels, so the unlabelled nodes are dropped from the tree (or the "
                                f"sub-graph is never divided)")
                else:
                    r.ok(k, C.loc(f, n), f"`{C.unparse(v, 50)}` has one label per node (evaluated for {len(samples)} (nodes, parts) samples)")
    C.require(n_dec >= 2, "fewer than two hand-written partition fallbacks were decided")
    return r


def rule_edgepath(ctx):
    """Shared with C10-EDGE (seed C05_5): a path given as a sequence of indices is turned into steps by
    `edge_path_to_ssa`; its carrier bookkeeping decides whether every tensor is consumed exactly once."""
    from .c10 import rule_edge as src

    return C.reuse_rule(ctx, src, "C10-EDGE", "C05-EDGE",
                        "explicit index orders are converted into complete, well-formed steps", lambda i: True, 4)


def rule_cpstate(ctx):
    """(seed C05_6) random-greedy simplifies once and copies the processor per trial; the copy contracts on with the
    ids the source would have used.  Ids stay fresh only if every piece of state — the id counter among them — is
    taken over from the *same* attribute of the source: a counter recomputed from something else (the number of
    live nodes, say) reissues ids that are still in use after a simplification."""
    r = RuleResult("C05-CPSTATE", "a copied processor takes every attribute, the id counter included, from its source", 10)
    cp = _cp(ctx)
    f = cp.lookup("copy")
    C.require(f is not None, "ContractionProcessor.copy not found")
    slots = None
    for st in cp.node.body:
        if isinstance(st, ast.Assign) and any(isinstance(t, ast.Name) and t.id == "__slots__" for t in st.targets):
            slots = C.str_consts(st.value)
    if slots is None:
        init = cp.lookup("__init__")
        slots = sorted({t.attr for n in walk_local(init.node) if isinstance(n, (ast.Assign, ast.AugAssign))
                        for t in (n.targets if isinstance(n, ast.Assign) else [n.target])
                        if isinstance(t, ast.Attribute) and isinstance(t.value, ast.Name) and t.value.id == "self"})
    C.require(len(slots) >= 8, "ContractionProcessor state attributes not found")
    fl = ctx.flow(f)
    rets = [n for n in fl.returns() if n.ast.value is not None]
    C.require(len(rets) == 1 and isinstance(rets[0].ast.value, ast.Name), "copy(): single `return new` expected")
    new = rets[0].ast.value.id
    stores = {}
    for n in fl.cfg.nodes:
        st = n.ast
        if n.kind == "stmt" and isinstance(st, (ast.Assign, ast.AugAssign, ast.AnnAssign)):
            tg = st.targets if isinstance(st, ast.Assign) else [st.target]
            for t in tg:
                if isinstance(t, ast.Attribute) and isinstance(t.value, ast.Name) and t.value.id == new:
                    stores.setdefault(t.attr, []).append((n, st))
    for a in slots:
        cons = f"{C.BASIC}::{CP}.copy::C05-CPSTATE::{a}"
        if a not in stores:
            r.violation(cons, C.loc(f, f.node), f"copy() never sets `{a}` on the new processor")
            continue
        bad = None
        for n, st in stores[a]:
            if isinstance(st, ast.AugAssign) or st.value is None:
                bad = (st, "is not a plain transfer")
                break
            d = fl.deps(st.value, n.id, "may")
            attrs = {(x[1], x[2]) for x in d if x[0] == "attr"}
            if ("self", a) not in attrs:
                bad = (st, f"does not come from self.{a}")
                break
        if bad:
            r.violation(cons, C.loc(f, bad[0]),
                        f"`{C.unparse(bad[0])}`: the copy's `{a}` {bad[1]} — state the trials continue from "
                        f"(for `ssa`: the next unused id) no longer matches the source's")
        else:
            r.ok(cons, C.loc(f, stores[a][0][1]), f"{a} taken from self.{a}")
    return r


def _guards_nonempty(test, name):
    """Does ``test`` (taken as true) establish that sequence ``name`` has an element?"""
    if isinstance(test, ast.Name) and test.id == name:
        return True
    if isinstance(test, ast.BoolOp) and isinstance(test.op, ast.And):
        return any(_guards_nonempty(v, name) for v in test.values)
    if isinstance(test, ast.Call) and dotted(test.func) == "len" and test.args and isinstance(test.args[0], ast.Name) and test.args[0].id == name:
        return True
    if isinstance(test, ast.Compare) and len(test.ops) == 1:
        l, op, rgt = test.left, test.ops[0], test.comparators[0]
        is_len = lambda e: isinstance(e, ast.Call) and dotted(e.func) == "len" and e.args and isinstance(e.args[0], ast.Name) and e.args[0].id == name
        num = lambda e: e.value if isinstance(e, ast.Constant) and isinstance(e.value, int) else None
        if is_len(l) and num(rgt) is not None:
            return (isinstance(op, ast.Gt) and num(rgt) >= 0) or (isinstance(op, ast.GtE) and num(rgt) >= 1) or \
                   (isinstance(op, ast.NotEq) and num(rgt) == 0)
        if is_len(rgt) and num(l) is not None:
            return (isinstance(op, ast.Lt) and num(l) >= 0) or (isinstance(op, ast.LtE) and num(l) >= 1)
    return False


def rule_emptypath(ctx):
    """(defect F24) The explicit path of a one-tensor network is the empty sequence — `array_contract_tree` builds
    exactly that (`optimize = ()`) — so the handlers the dispatchers register for tuples and lists must not look at
    `optimize[0]` before knowing there is one."""
    r = RuleResult("C05-EMPTYPATH", "explicit-path handlers accept the empty path of a one-tensor network", 3)
    m = ctx.p.modules[C.INTERFACE]
    handlers = {}
    for f in m.all_funcs:
        if f.name not in ("find_path", "find_tree"):
            continue
        for st in walk_local(f.node):
            if not isinstance(st, ast.If):
                continue
            t = st.test
            if not (isinstance(t, ast.Call) and dotted(t.func) == "isinstance" and len(t.args) == 2):
                continue
            names = {dotted(e) for e in (t.args[1].elts if isinstance(t.args[1], ast.Tuple) else [t.args[1]])}
            if not names & {"tuple", "list"}:
                continue
            for a in st.body:
                if isinstance(a, ast.Assign) and isinstance(a.value, ast.Name):
                    handlers[a.value.id] = f.name
    C.require(len(handlers) >= 2, "handlers registered for tuple/list paths not found in find_path/find_tree")
    todo = []
    for hn, via in sorted(handlers.items()):
        h = next((f for f in m.all_funcs if f.name == hn and f.cls is None), None)
        C.require(h is not None, f"handler {hn} not found")
        params = [a.arg for a in h.node.args.args]
        C.require(len(params) >= 4, f"{hn}: (inputs, output, size_dict, optimize) expected")
        todo.append((h, params[3], f"registered by {via} for tuple/list paths"))
    # every other function of the interface layer that is handed the caller's `optimize`
    for path in (C.INTERFACE, C.UTILS):
        for f in ctx.p.modules[path].all_funcs:
            if f.name in handlers:
                continue
            if "optimize" in [a.arg for a in f.node.args.posonlyargs + f.node.args.args + f.node.args.kwonlyargs]:
                todo.append((f, "optimize", "handed the caller's `optimize`"))
    for h, pname, via in todo:
        hn = h.qual if hasattr(h, "qual") else h.name
        path = h.module.path
        parents = {}
        for n in ast.walk(h.node):
            for c in ast.iter_child_nodes(n):
                parents[c] = n
        k = 0
        for n in walk_local(h.node):
            if not (isinstance(n, ast.Subscript) and isinstance(n.ctx, ast.Load) and isinstance(n.value, ast.Name) and n.value.id == pname
                    and isinstance(n.slice, (ast.Constant, ast.UnaryOp))):
                continue
            cons = f"{path}::{hn}::C05-EMPTYPATH::{pname}[{C.unparse(n.slice)}]#{k}"
            k += 1
            guarded = False
            c = n
            while c in parents and not guarded:
                par = parents[c]
                if isinstance(par, ast.BoolOp) and isinstance(par.op, ast.And):
                    i = par.values.index(c) if c in par.values else 0
                    guarded = any(_guards_nonempty(v, pname) for v in par.values[:i])
                elif isinstance(par, (ast.If, ast.IfExp, ast.While)):
                    body = par.body if isinstance(par.body, list) else [par.body]
                    if any(c is b for b in body) and _guards_nonempty(par.test, pname):
                        guarded = True
                    if isinstance(par, ast.If) and any(c is b for b in par.orelse) and isinstance(par.test, ast.UnaryOp) and \
                            isinstance(par.test.op, ast.Not) and _guards_nonempty(par.test.operand, pname):
                        guarded = True
                elif isinstance(par, ast.Try) and any(c is b for b in par.body):
                    for hd in par.handlers:
                        tn = {dotted(e) for e in (hd.type.elts if isinstance(hd.type, ast.Tuple) else [hd.type])} if hd.type is not None else {"*"}
                        if tn & {"IndexError", "LookupError", "Exception", "*"}:
                            guarded = True
                c = par
            if guarded:
                r.ok(cons, C.loc(h, n), "element looked at only when the path has one")
            else:
                r.violation(cons, C.loc(h, n),
                            f"{hn} ({via}) reads `{C.unparse(n)}` unconditionally: the empty "
                            f"path — the complete explicit path of a one-tensor network, which array_contract_tree passes "
                            f"itself — raises IndexError instead of giving the single-leaf contraction")
    return r


def _positive_floor(e):
    """`max(c, ...)` / `... + c` with a positive constant: never zero for a non-negative counter."""
    pos = lambda x: isinstance(x, ast.Constant) and isinstance(x.value, (int, float)) and not isinstance(x.value, bool) and x.value > 0
    if isinstance(e, ast.Call) and dotted(e.func) == "max" and any(pos(a) for a in e.args):
        return True
    if isinstance(e, ast.BinOp) and isinstance(e.op, ast.Add) and (pos(e.left) or pos(e.right) or _positive_floor(e.left) or _positive_floor(e.right)):
        return True
    return False


def rule_zerostep(ctx):
    """(defect F25) A network of one tensor is contracted in no steps, so a pathfinder's running operation count
    ends at the 0 it started from; a finder that reports the logarithm of that count must floor it (`max(1, .)`,
    `. + 1`) or test it, otherwise it raises ValueError instead of returning the empty path."""
    r = RuleResult("C05-ZEROSTEP", "a finder's operation count is floored before its logarithm is taken", 5)
    cp = _cp(ctx)
    m = ctx.p.modules[C.BASIC]
    for f in m.all_funcs:
        fl = None
        k = 0
        for call in (n for n in walk_local(f.node) if isinstance(n, ast.Call)):
            if dotted(call.func) not in ("math.log", "math.log2", "math.log10", "log", "log2", "log10") or not call.args:
                continue
            fl = fl or ctx.flow(f)
            nid = fl.node_of_expr(call)
            d = fl.deps(call.args[0], nid, "may")
            if not any((x[0] == "attr" and x[2] == "flops") or (x[0] == "attrname" and x[1] == "flops") for x in d):
                continue
            cons = f"{C.BASIC}::{f.qual}::C05-ZEROSTEP::log#{k}"
            k += 1
            arg = call.args[0]
            ok = _positive_floor(arg)
            if not ok and isinstance(arg, ast.Name):
                defs = fl.defs_reaching(arg.id, nid)
                ok = bool(defs) and all(d_.value is not None and _positive_floor(d_.value) for d_ in defs)
            if not ok:
                names = {n.id for n in ast.walk(arg) if isinstance(n, ast.Name)}
                for i_, t in C.enclosing_ifs(f, C.enclosing_stmt(f, call)):
                    if t and any(isinstance(x, ast.Name) and x.id in names for x in ast.walk(i_.test)) and \
                            any(isinstance(x, (ast.Gt, ast.GtE, ast.NotEq)) for x in ast.walk(i_.test)) or \
                            (t and isinstance(i_.test, ast.Name) and i_.test.id in names):
                        ok = True
            if ok:
                r.ok(cons, C.loc(f, call), "count floored or tested before the logarithm")
            else:
                r.violation(cons, C.loc(f, call), f"`{C.unparse(call)}`: the argument comes from a processor's `.flops`, which is still 0 when "
                            "the network has a single tensor (no step was taken) — math domain error instead of the empty path")
    # (finding F29) the exact objectives of the hyper-optimizer: a trial's flops / write are 0 and its size -inf
    # when the tree has no step
    sm = ctx.p.modules[C.SCORING]
    n_obj = 0
    for cls in sm.classes.values() if isinstance(sm.classes, dict) else sm.classes:
        if not any(b_.name == "ExactObjective" for b_ in cls.mro()[1:]):
            continue
        f = cls.methods.get("__call__")
        if f is None:
            continue
        n_obj += 1
        cons = f"{C.SCORING}::{cls.name}.__call__::C05-ZEROSTEP::score"
        bad = []
        for call in (n for n in walk_local(f.node) if isinstance(n, ast.Call)):
            if dotted(call.func) not in ("math.log", "math.log2", "math.log10") or not call.args:
                continue
            if not _positive_floor(call.args[0]):
                bad.append(call)
        if bad:
            bad.sort(key=lambda c_: (c_.lineno, c_.col_offset))
            r.violation(cons, C.loc(f, bad[0]), f"`{C.unparse(bad[0])}` (and {len(bad) - 1} more): a one-tensor network gives a tree without steps — "
                        "flops 0, write 0, size -inf — and the objective raises ValueError for every trial, so a HyperOptimizer handed "
                        "such a network returns no contraction")
        else:
            r.ok(cons, C.loc(f, f.node), "figures floored before the logarithm")
    C.require(n_obj >= 4, "exact objectives not found in scoring.py")
    return r


def rule_nonempty(ctx):
    """(seed C05_7) The label-propagation partitioner picks `scores.most_common(1)[0]`; a tensor that shares no
    index with the rest of its sub-graph has no neighbour to score, so the tally has an entry only if one is
    written on *every* path from its creation to the pick (the 'memory' bias on the current label is that entry).
    Statement CFG: every path from the empty tally's creation to the subscripted pick passes a keyed store that is
    not inside a loop or branch of its own."""
    r = RuleResult("C05-NONEMPTY", "a tally that is picked from has an entry on every path; extremes over edges have a default", 3)
    for path in ("cotengra/pathfinders/path_labels.py",):
        m = ctx.p.modules.get(path)
        C.require(m is not None, f"{path} not found")
        for f in m.all_funcs:
            fl = None
            k = 0
            for sub in (n for n in walk_local(f.node) if isinstance(n, ast.Subscript)):
                v = sub.value
                if not (isinstance(v, ast.Call) and isinstance(v.func, ast.Attribute) and v.func.attr == "most_common"
                        and isinstance(v.func.value, ast.Name) and isinstance(sub.slice, ast.Constant)):
                    continue
                name = v.func.value.id
                fl = fl or ctx.flow(f)
                use = fl.node_of_expr(sub)
                cons = f"{path}::{f.qual}::C05-NONEMPTY::{name}#{k}"
                k += 1
                defs = [d for d in fl.defs_reaching(name, use) if d.kind == "assign"]
                stores = set()
                for n in fl.cfg.nodes:
                    st = n.ast
                    if n.kind == "stmt" and isinstance(st, (ast.Assign, ast.AugAssign)):
                        tg = st.targets if isinstance(st, ast.Assign) else [st.target]
                        if any(isinstance(t, ast.Subscript) and isinstance(t.value, ast.Name) and t.value.id == name for t in tg):
                            stores.add(n.id)
                bad = None
                undecided = False
                for d in defs:
                    val = d.value
                    if not (isinstance(val, ast.Call) and dotted(val.func) in ("collections.Counter", "Counter", "dict", "collections.defaultdict", "defaultdict")
                            and not (val.args and dotted(val.func) in ("collections.Counter", "Counter", "dict"))):
                        undecided = True
                        continue
                    if not fl.cfg.all_paths_pass(d.node, stores, use):
                        bad = d
                if bad is not None:
                    r.violation(cons, C.loc(f, sub), f"`{C.unparse(sub)}`: `{name}` is created empty at line {bad.value.lineno} and a path reaches the "
                                "pick without writing an entry — a tensor without neighbours (disconnected network, scalar) then raises "
                                "IndexError instead of keeping its label, and no contraction is returned")
                elif undecided or not defs:
                    r.exempt(cons, C.loc(f, sub), f"`{name}` is not created empty here: not decided")
                else:
                    r.ok(cons, C.loc(f, sub), f"every path from the empty `{name}` to the pick writes an entry")
    # (defect F28) extremes over per-edge collections: a network of scalars has no edge at all
    for path in ("cotengra/pathfinders/path_labels.py", "cotengra/pathfinders/path_kahypar.py", "cotengra/pathfinders/path_igraph.py"):
        m = ctx.p.modules.get(path)
        if m is None:
            continue
        for f in m.all_funcs:
            params = [a.arg for a in f.node.args.args]
            if "inputs" not in params or "parts" not in params:
                continue
            k = 0
            for call in (n for n in walk_local(f.node) if isinstance(n, ast.Call)):
                if dotted(call.func) not in ("max", "min") or len(call.args) != 1:
                    continue
                arg = call.args[0]
                fl = ctx.flow(f)
                txt = C.unparse(arg, 200) + " ".join(map(str, fl.deps(arg, fl.node_of_expr(call), "may")))
                if "edge" not in txt:
                    continue
                cons = f"{path}::{f.qual}::C05-NONEMPTY::{dotted(call.func)}-over-edges#{k}"
                k += 1
                guarded = any(kw.arg == "default" for kw in call.keywords) or any(
                    C.unparse(arg, 200) in C.unparse(i_.test, 400) or "num_edges" in C.unparse(i_.test, 400)
                    for i_, t in C.enclosing_ifs(f, C.enclosing_stmt(f, call)))
                if guarded:
                    r.ok(cons, C.loc(f, call), "extreme over the edges has a default (or is taken only when there are edges)")
                else:
                    r.violation(cons, C.loc(f, call), f"`{C.unparse(call)}`: a network of scalars has no edges, the collection is empty and "
                                "the partitioner raises ValueError — no contraction is returned")
    return r


def rule_progress(ctx):
    """(defect F27; sibling agreement) Both builders of PartitionTreeBuilder loop on what an arbitrary partitioner
    returns.  A partitioner may find nothing to do — one community for everything (divisive), or every node a
    community of its own (agglomerative: label propagation on a network without shared indices) — and then the
    loop's own state does not change.  Each such loop needs an escape that looks at the number of groups the
    partition produced and leaves the iteration without relying on it."""
    r = RuleResult("C05-PROGRESS", "partition-driven loops escape when the partition makes no progress", 2)
    ptb = ctx.p.cls(C.CORE, "PartitionTreeBuilder")
    C.require(ptb is not None, "PartitionTreeBuilder not found")
    for name, f in sorted(ptb.methods.items()):
        for loop in (n for n in walk_local(f.node) if isinstance(n, ast.While)):
            if not any(isinstance(c, ast.Call) and C.unparse(c.func) == "self.partition_fn" for c in ast.walk(loop)):
                continue
            cons = f"{C.CORE}::PartitionTreeBuilder.{name}::C05-PROGRESS::while@{C.unparse(loop.test, 40)}"
            groups = set()
            for n in ast.walk(loop):
                if isinstance(n, ast.Assign) and any(isinstance(c, ast.Call) and dotted(c.func) == "separate" for c in ast.walk(n.value)):
                    groups |= {t.id for t in n.targets if isinstance(t, ast.Name)}
            esc = None
            for n in ast.walk(loop):
                if not isinstance(n, ast.If):
                    continue
                lens = {c.args[0].id for c in ast.walk(n.test) if isinstance(c, ast.Call) and dotted(c.func) == "len" and c.args
                        and isinstance(c.args[0], ast.Name)}
                if not (lens & groups and any(isinstance(c, ast.Compare) for c in ast.walk(n.test))):
                    continue
                # taken when nothing happened: `len(groups) == len(before)`, `len(groups) == 1`, `<=`, `>=` — not `!=`
                ops = [type(o) for c in ast.walk(n.test) if isinstance(c, ast.Compare) for o in c.ops]
                if not ops or any(o in (ast.NotEq, ast.Lt, ast.Gt) for o in ops):
                    continue
                last = n.body[-1] if n.body else None
                if isinstance(last, (ast.Break, ast.Return, ast.Raise)):
                    esc = n
                elif isinstance(last, ast.Continue) and any(
                        isinstance(c, ast.Call) and isinstance(c.func, ast.Attribute) and c.func.attr.startswith("contract_nodes")
                        for st in n.body for c in ast.walk(st)):
                    # going round again is an escape only if the branch itself changed the loop's state
                    esc = n
            if esc is not None:
                r.ok(cons, C.loc(f, esc), f"`if {C.unparse(esc.test, 50)}` leaves the iteration when the partition did nothing")
            else:
                r.violation(cons, C.loc(f, loop), f"{name}: the loop `while {C.unparse(loop.test, 50)}` re-partitions what the partitioner returned "
                            "without ever looking at how many groups came back: a partition that merges (divides) nothing — label "
                            "propagation on tensors without shared indices — leaves the loop state unchanged and it never terminates")
    return r


def rule_freshopt(ctx):
    """Shared with C16-MEMOFACTORY / C16-FRESH preset instances (seed C05_8): a preset answers with a contraction of
    *its* network only if the optimizer object behind it carries nothing over from earlier networks — a memoised
    RandomGreedyOptimizer returns the earlier network's path whenever that was cheaper (repeated positions, tensors
    left over)."""
    from .c16 import rule_memofactory as src

    return C.reuse_rule(ctx, src, "C16-MEMOFACTORY", "C05-FRESHOPT", "presets are served by optimizer objects without history",
                        lambda i: True, 1)


def rule_logdomain(ctx):
    """(seed C05_9) The greedy finder's sampled score is sign(s)·log|s|; s is exactly 0 for ties the generic case never
    shows (a contraction whose result is as large as its operands weigh).  Every `math.log(X)` of a bare local in the
    path simulator's scoring closures sits on the true branch of `X > 0` (or `math.log(-X)` of `X < 0`): a branch that
    only excludes the other sign lets 0 through and the finder raises ValueError instead of returning a path."""
    r = RuleResult("C05-LOGDOMAIN", "logarithms in the greedy score are taken of strictly positive values", 2)
    m = ctx.p.modules[C.BASIC]
    for f in m.all_funcs:
        k = 0
        for call in (n for n in walk_local(f.node) if isinstance(n, ast.Call)):
            if dotted(call.func) not in ("math.log", "math.log2", "math.log10") or len(call.args) != 1:
                continue
            a = call.args[0]
            neg = isinstance(a, ast.UnaryOp) and isinstance(a.op, ast.USub) and isinstance(a.operand, ast.Name)
            if not (isinstance(a, ast.Name) or neg):
                continue
            nm = a.operand.id if neg else a.id
            # only values computed in this function by arithmetic (a score), not parameters such as a temperature
            fl = ctx.flow(f)
            defs = fl.defs_reaching(nm, fl.node_of_expr(call))
            if not defs or any(d_.kind == "param" for d_ in defs) or not any(isinstance(d_.value, ast.BinOp) for d_ in defs if d_.value is not None):
                continue
            cons = f"{C.BASIC}::{f.qual}::C05-LOGDOMAIN::log({'-' if neg else ''}{nm})#{k}"
            k += 1
            ALL = {"neg", "zero", "pos"}

            def region(t):
                """sign region of `nm` in which test t is true, or None if t says nothing about it"""
                if not (isinstance(t, ast.Compare) and len(t.ops) == 1):
                    return None
                l, op, rr = t.left, t.ops[0], t.comparators[0]
                zero = lambda e: isinstance(e, ast.Constant) and e.value == 0
                is_nm = lambda e: isinstance(e, ast.Name) and e.id == nm
                tab = {ast.Gt: {"pos"}, ast.GtE: {"zero", "pos"}, ast.Lt: {"neg"}, ast.LtE: {"neg", "zero"}, ast.Eq: {"zero"}, ast.NotEq: {"neg", "pos"}}
                flip = {ast.Gt: ast.Lt, ast.GtE: ast.LtE, ast.Lt: ast.Gt, ast.LtE: ast.GtE, ast.Eq: ast.Eq, ast.NotEq: ast.NotEq}
                if is_nm(l) and zero(rr) and type(op) in tab:
                    return tab[type(op)]
                if zero(l) and is_nm(rr) and type(op) in tab:
                    return tab[flip[type(op)]]
                return None
            dom = set(ALL)
            st0 = C.enclosing_stmt(f, call)
            # tests of the enclosing ifs
            for i_, in_true in C.enclosing_ifs(f, st0):
                rg = region(i_.test)
                if rg is not None:
                    dom &= rg if in_true else (ALL - rg)
            # earlier statements of the enclosing blocks that leave the function when their test holds
            cur = st0
            parents_ = f.module.parents
            while cur is not None and cur is not f.node:
                par = parents_.get(cur)
                for fld in ("body", "orelse"):
                    blk = getattr(par, fld, None)
                    if isinstance(blk, list) and any(cur is x for x in blk):
                        for prev in blk[:[i for i, x in enumerate(blk) if x is cur][0]]:
                            if isinstance(prev, ast.If) and prev.body and isinstance(prev.body[-1], (ast.Return, ast.Raise, ast.Continue, ast.Break)) \
                                    and not prev.orelse:
                                rg = region(prev.test)
                                if rg is not None:
                                    dom -= rg
                cur = par
            ok = dom <= ({"neg"} if neg else {"pos"})
            if ok:
                r.ok(cons, C.loc(f, call), "argument strictly positive on this branch")
            else:
                r.violation(cons, C.loc(f, call), f"`{C.unparse(call)}` is reached without a test that makes its argument strictly positive: a score of "
                            "exactly 0 (a tie between what a contraction creates and what it removes) raises ValueError('math domain error') and "
                            "the finder returns no path")
    return r


def rule_proceval(ctx):
    """(engine E9) The processor-based finders end to end.  `optimize_greedy` and `optimize_optimal` — with the
    `ContractionProcessor` class they drive (construction, the simplifications, the greedy loop, the dynamic programme,
    the joining of leftovers) and the converter to recycled ids — are evaluated by the engine's mini-evaluator on
    **every** network of one to three tensors (and a sample of four-tensor ones) whose terms are drawn from
    '', a, b, aa, ab, ba, bb, c, with two outputs each: scalars, repeated indices, hyper indices, disconnected parts and
    the 1- and 2-tensor cases all occur.  The returned path is replayed: every step names distinct positions that
    exist at that moment, and exactly one tensor is left — in the recycled-id and in the single-assignment form."""
    import itertools

    from ..engine.minieval import Mini, NoEval, Raised

    r = RuleResult("C05-PROCEVAL", "greedy and optimal return complete, well-formed paths on every small network", 2)
    m = ctx.p.modules[C.BASIC]
    fs = {g.name: g.node for g in m.all_funcs if g.cls is None}
    cpc = _cp(ctx)
    classes = {CP: {n_: f_.node for n_, f_ in cpc.methods.items()}}
    costfns = {"flops": "compute_con_cost_flops", "size": "compute_con_cost_size"}
    terms = ["", "a", "b", "aa", "ab", "ba", "bb", "c"]
    nets = []
    for N in (1, 2, 3):
        nets += list(itertools.product(terms, repeat=N))
    four = list(itertools.product(terms, repeat=4))
    nets += four[::37]
    sd = {"a": 2, "b": 3, "c": 2}
    for fname in ("optimize_greedy", "optimize_optimal"):
        f = ctx.p.func(C.BASIC, fname)
        C.require(f is not None, f"{fname} not found")
        k = ctx.key(f, "C05-PROCEVAL")
        bad = None
        n = 0
        try:
            for net in nets:
                flat = "".join(net)
                once = "".join(c for c in "abc" if flat.count(c) == 1)
                for out in {"", once}:
                    for use_ssa in ((False, True) if fname == "optimize_greedy" else (False,)):
                        for extra in ([{}] if fname == "optimize_greedy" else [{"minimize": "flops"}, {"minimize": "size", "search_outer": True}]):
                            n += 1
                            ext = {"parse_minimize_for_optimal": lambda mn: ("minifn", costfns[mn], {})}
                            kw = dict(extra, use_ssa=use_ssa)
                            try:
                                path = Mini(fs, budget=400000, classes=classes, externals=ext).call(
                                    f.node, [tuple(tuple(t) for t in net), tuple(out), sd], kw)
                            except Raised as e:
                                bad = bad or (net, out, kw, f"raises ({e.text})")
                                continue
                            except NoEval:
                                raise
                            except Exception as e:
                                bad = bad or (net, out, kw, f"raises ({type(e).__name__}: {e})")
                                continue
                            why = None
                            if use_ssa:
                                live = set(range(len(net)))
                                nxt = len(net)
                                for stp in path:
                                    stp = list(stp)
                                    if len(set(stp)) != len(stp) or not set(stp) <= live or not stp:
                                        why = f"step {tuple(stp)} of {[tuple(x) for x in path]} does not name distinct live tensors"
                                        break
                                    live -= set(stp)
                                    live.add(nxt)
                                    nxt += 1
                                left = len(live)
                            else:
                                cnt = len(net)
                                for stp in path:
                                    stp = list(stp)
                                    if len(set(stp)) != len(stp) or any(not (0 <= c < cnt) for c in stp) or not stp:
                                        why = f"step {tuple(stp)} of {[tuple(x) for x in path]} does not name distinct existing positions (of {cnt})"
                                        break
                                    cnt -= len(stp) - 1
                                left = cnt
                            if why is None and left != 1:
                                why = f"the path {[tuple(x) for x in path]} leaves {left} tensors"
                            if why and bad is None:
                                bad = (net, out, kw, why)
        except NoEval as e:
            raise AnalysisError(f"{fname}: not evaluable by the mini-evaluator ({e})")
        if bad:
            r.violation(k, f.loc, f"{fname}(`{','.join(bad[0])}->{bad[1]}`, {bad[2]}): {bad[3]}")
        else:
            r.ok(k, f.loc, f"{n} (network, output, options) cases: every input consumed once, one tensor left")
    return r


def rule_rgeval(ctx):
    """(engine E9) The random-greedy finder end to end: `optimize_random_greedy_track_flops` simplifies once, *copies*
    the processor for every trial and keeps the cheapest trial.  Evaluated (constant cost modifier, temperature 0, a
    stub generator, three trials) on the networks of [C05-PROCEVAL] plus chains whose tensors carry traces — the
    networks on which the simplification does something, so that a copied processor must carry on with the ids the
    source would have used.  The returned path is replayed as in PROCEVAL; the reported log10 of the operation count is
    compared with the count of the returned path by the definitions, for every network without an index on all
    tensors (for those the difference is the known finding F8a, reported by [C18-DROP])."""
    import itertools
    import math
    import random as _random
    import types

    from ..engine.minieval import Mini, NoEval, Raised

    r = RuleResult("C05-RGEVAL", "random-greedy returns complete paths and reports their cost on every small network", 2)
    m = ctx.p.modules[C.BASIC]
    fs = {g.name: g.node for g in m.all_funcs if g.cls is None}
    cpc = _cp(ctx)
    classes = {CP: {n_: f_.node for n_, f_ in cpc.methods.items()}}
    f = ctx.p.func(C.BASIC, "optimize_random_greedy_track_flops")
    C.require(f is not None, "optimize_random_greedy_track_flops not found")
    terms = ["", "a", "b", "aa", "ab", "ba", "bb", "c"]
    nets = []
    for N in (1, 2, 3):
        nets += list(itertools.product(terms, repeat=N))
    nets += [("aab", "bcc", "cd", "de"), ("aab", "bc", "cdd", "d"), ("ab", "ab", "bc", "c"), ("a", "ab", "bcc", "cd", "dee"), ("aa", "b", "bc", "c")]
    sd = {"a": 2, "b": 3, "c": 2, "d": 2, "e": 3}

    def stub_rng(seed=None):
        g_ = _random.Random(1)
        return types.SimpleNamespace(uniform=g_.uniform, random=g_.random)
    k1 = ctx.key(f, "C05-RGEVAL", "complete")
    k2 = ctx.key(f, "C05-RGEVAL", "reported-cost")
    bad1 = bad2 = None
    n = n2 = 0
    try:
        for net in nets:
            flat = "".join(net)
            once = "".join(c for c in "abcde" if flat.count(c) == 1)
            for out in {"", once}:
                n += 1
                try:
                    path, lf = Mini(fs, budget=600000, classes=classes, externals={"get_rng": stub_rng}).call(
                        f.node, [tuple(tuple(t) for t in net), tuple(out), sd], {"ntrials": 3, "temperature": 0.0, "costmod": 1.0})
                except Raised as e:
                    bad1 = bad1 or (net, out, f"raises ({e.text})")
                    continue
                except NoEval:
                    raise
                except Exception as e:
                    bad1 = bad1 or (net, out, f"raises ({type(e).__name__}: {e})")
                    continue
                app = {}
                for c in flat + out:
                    app[c] = app.get(c, 0) + 1
                live = []
                for t in net:
                    d = {}
                    for c in t:
                        d[c] = d.get(c, 0) + 1
                    live.append({c: v for c, v in d.items() if v < app[c]})
                cnt = len(net)
                why = None
                flops = 0
                for stp in path:
                    stp = list(stp)
                    if len(set(stp)) != len(stp) or any(not (0 <= c < cnt) for c in stp) or not stp:
                        why = f"step {tuple(stp)} of {[tuple(x) for x in path]} does not name distinct existing positions (of {cnt})"
                        break
                    parts = [live[c] for c in stp]
                    for c in sorted(stp, reverse=True):
                        live.pop(c)
                    merged = {}
                    for p_ in parts:
                        for c, v in p_.items():
                            merged[c] = merged.get(c, 0) + v
                    if len(stp) > 1:
                        fl_ = 1
                        for c in merged:
                            fl_ *= sd[c]
                        flops += fl_
                    live.append({c: v for c, v in merged.items() if v < app[c]})
                    cnt -= len(stp) - 1
                if why is None and cnt != 1:
                    why = f"the path {[tuple(x) for x in path]} leaves {cnt} tensors"
                if why:
                    bad1 = bad1 or (net, out, why)
                    continue
                if any(all(c in t for t in net) for c in set(flat)):
                    continue  # an index on every tensor: known finding F8a ([C18-DROP])
                n2 += 1
                if not math.isclose(10 ** lf, max(1, flops), rel_tol=1e-9) and bad2 is None:
                    bad2 = (net, out, f"reports 10**{lf:.4f} = {10 ** lf:.6g} operations, the returned path {[tuple(x) for x in path]} costs {flops}")
    except NoEval as e:
        raise AnalysisError(f"optimize_random_greedy_track_flops: not evaluable by the mini-evaluator ({e})")
    if bad1:
        r.violation(k1, f.loc, f"random-greedy on `{','.join(bad1[0])}->{bad1[1]}`: {bad1[2]}")
    else:
        r.ok(k1, f.loc, f"{n} networks: every input consumed once, one tensor left")
    if bad2:
        r.violation(k2, f.loc, f"random-greedy on `{','.join(bad2[0])}->{bad2[1]}` {bad2[2]}")
    else:
        r.ok(k2, f.loc, f"{n2} networks without an index on all tensors: the reported count is the cost of the returned path")
    return r


def _shared_rules():
    """Completion of partial caller-supplied paths needs the converters to know the number of inputs (F22)."""
    out = []

    def _mk(src_mod="c10", fn="rule_count", old="C10-COUNT", new="C05-COUNT", mn=3):
        def rule(ctx):
            import importlib
            srcf = getattr(importlib.import_module("sa.rules." + src_mod), fn)
            return C.reuse_rule(ctx, srcf, old, new, "shared clause of " + old + " (also a necessary condition here)", lambda i: True, mn)
        rule.__name__ = "shared_" + new.lower().replace("-", "_")
        return rule
    out.append(_mk())
    return out


RULES = [rule_rgeval, rule_proceval, rule_logdomain, rule_freshopt, rule_progress, rule_nonempty, rule_zerostep, rule_emptypath, rule_cpstate, rule_consume, rule_remain, rule_complete, rule_linearids, rule_steps, rule_childless, rule_labels, rule_edgepath] + _shared_rules()
