"""C18 — internal cost simulators agree (sibling cross-check)."""

from __future__ import annotations

import ast

from ..engine.program import AnalysisError, dotted, walk_local
from ..engine.report import RuleResult
from . import common as C

PID = "C18"
EXPLANATION = (
    "Sibling cross-check of the separate contraction simulators (tree, lightweight "
    "processor, local move evaluator, hypergraph): (SURV) every comparison against "
    "the global appearance table is normalised to 'keep iff merged count REL global "
    "count' with REL in {<, !=} (equivalent under count <= appearances) or its "
    "negation 'remove iff ==/>='; the compared quantity must be a count, and in the "
    "two-operand simulators the merged count of a shared index must be the SUM of "
    "both sides' counts; the hypergraph uses the structural equivalent (index still "
    "on another node or in the output); (APPEAR) every simulator's appearance table "
    "(or structural equivalent) counts the output indices; (DROP) in the count-based "
    "processor the leg set may shrink only through the survival rule — a method that "
    "drops an index otherwise must not be reachable from an entry that reports a "
    "cost, or must compensate the reported figure; (PRE) figures pre-supplied to "
    "contract_nodes_pair come from one call of a simulator covered by SURV. "
    "Step-by-step numerical equality is not decided. "
    "Later rounds added: "
    "(MERGE) the annealing move evaluator, by symbolic case analysis (index on the left / "
    "right / both operands): merged count, survival test, stored count, cost once, size "
    "iff kept. "
    'Round 7: (FRESHSUB, shared with C16-FRESH) a reported score comes from a sub-optimizer without history. '
    "Round 8 (engine E9): (PUREFNS) the processor's pure leg-arithmetic functions are evaluated on every pair of simplified terms over three indices and compared with the tree's survival rule and cost definitions. "
    '(RGCOST, shared with C05-RGEVAL) random-greedy reports the cost of the path it returns on a bounded family. '
)
ASSUMPTIONS = ("merged appearance count never exceeds the global count",)

TWO_OPERAND = {
    (C.BASIC, "compute_contracted"): "sorted merge of two leg lists",
    (C.ANNEAL, "compute_contracted_info"): "local move evaluator",
    (C.BASIC, "ContractionProcessor.optimize_optimal_connected"): "inline merge in the DP",
}


def _scope(ctx):
    fs = []
    tc = ctx.p.cls(C.CORE, "ContractionTree")
    for n in ("get_legs", "compute_leaf_legs"):
        f = tc.lookup(n)
        C.require(f is not None, f"ContractionTree.{n} not found")
        fs.append(f)
    for f in ctx.p.module(C.BASIC).all_funcs:
        fs.append(f)
    for f in ctx.p.module(C.ANNEAL).all_funcs:
        fs.append(f)
    if ctx.tier == "thorough":
        for f in ctx.p.all_funcs():
            if f not in fs:
                fs.append(f)
    return fs


def _is_app(e):
    return isinstance(e, ast.Subscript) and "appearances" in ast.unparse(e.value)


def _body_kind(func, cmp):
    """what the comparison guards: 'keep' | 'remove' | 'unknown'"""
    parents = func.module.parents
    par = parents.get(cmp)
    child = cmp
    neg = False
    while isinstance(par, (ast.BoolOp, ast.UnaryOp)):
        if isinstance(par, ast.UnaryOp) and isinstance(par.op, ast.Not):
            neg = not neg
        child, par = par, parents.get(par)
    if isinstance(par, ast.comprehension):
        # filter of a comprehension: elements passing are kept — unless the
        # comprehension feeds any()/all() (a test, e.g. is-simplifiable)
        comp = parents.get(par)
        user = parents.get(comp)
        if isinstance(user, ast.Call) and dotted(user.func) in ("any", "all"):
            return "test", neg
        return "keep", neg
    if isinstance(par, (ast.GeneratorExp, ast.ListComp)):
        user = parents.get(par)
        if isinstance(user, ast.Call) and dotted(user.func) in ("any", "all"):
            return "test", neg
        return "keep", neg
    if isinstance(par, ast.If):
        txt = " ".join(ast.unparse(s) for s in par.body)
        if any(isinstance(s, ast.Delete) for s in par.body) or "return True" in txt:
            return "remove", neg
        if ".append(" in txt or "] = " in txt or "*=" in txt:
            return "keep", neg
        return "unknown", neg
    if isinstance(par, ast.Return):
        return "test", neg
    if isinstance(par, ast.IfExp):
        return "unknown", neg
    return "unknown", neg


def _stored_count_one_sided(ctx, f):
    """In a two-operand simulator written as 'loop over the first operand's legs':
    the count stored for a leg that may be shared must depend on the second
    operand too.  Returns the offending store node or None."""
    ps = [p for p in f.positional if p not in ("self",)]
    if len(ps) < 2 or not (ps[0].startswith("legs") and ps[1].startswith("legs")):
        return None
    a, b = ps[0], ps[1]
    fl = ctx.flow(f)
    for n in walk_local(f.node):
        if isinstance(n, ast.For) and a in ast.unparse(n.iter):
            for st in ast.walk(n):
                if isinstance(st, ast.Assign) and isinstance(st.targets[0], ast.Subscript) and \
                        not isinstance(st.value, ast.Constant):
                    tgt = ast.unparse(st.targets[0].value)
                    if "legs" not in tgt:
                        continue
                    deps = fl.deps(st.value, fl.node_of_expr(st))
                    if not any(d[0] == "param" and d[1] == b for d in deps):
                        return st
            break
    return None


def rule_surv(ctx):
    r = RuleResult("C18-SURV", "index-survival predicates agree", 14)
    for f in _scope(ctx):
        fl = None
        for cmp in walk_local(f.node):
            if not (isinstance(cmp, ast.Compare) and len(cmp.ops) == 1):
                continue
            l, rr = cmp.left, cmp.comparators[0]
            if not (_is_app(l) or _is_app(rr)):
                continue
            op = type(cmp.ops[0])
            cnt = rr if _is_app(l) else l
            flipped = _is_app(l)
            if flipped:
                op = {ast.Lt: ast.Gt, ast.Gt: ast.Lt, ast.LtE: ast.GtE, ast.GtE: ast.LtE}.get(op, op)
            key = ctx.key(f, "C18-SURV", C.unparse(cmp, 50))
            where = C.loc(f, cmp)
            if isinstance(cnt, ast.Constant):
                r.violation(key, where, "the global appearance count is compared with a "
                            "constant instead of the merged count of the index: hyper-indices "
                            "(appearing more than twice) are treated differently from the other "
                            "simulators", cmp=C.unparse(cmp))
                continue
            kind, neg = _body_kind(f, cmp)
            keep_ops, remove_ops = (ast.Lt, ast.NotEq), (ast.Eq, ast.GtE)
            if neg:
                keep_ops, remove_ops = remove_ops, keep_ops
            if kind == "keep" and op in keep_ops:
                r.ok(key, where, "keep iff merged count < (!=) global count")
            elif kind in ("remove", "test") and op in remove_ops:
                r.ok(key, where, "remove iff merged count == (>=) global count")
            elif kind == "test" and op in keep_ops:
                r.ok(key, where, "test: count differs from global count")
            elif kind == "unknown" and op in keep_ops + remove_ops:
                r.ok(key, where, "relation consistent with siblings (context not classified)")
            else:
                r.violation(key, where, f"survival relation `{C.unparse(cmp)}` guarding a "
                            f"{kind} action disagrees with the sibling simulators "
                            "(keep iff count < appearances / remove iff count == appearances)")
    # merged count is the sum of both sides
    for (path, qual), what in TWO_OPERAND.items():
        f = ctx.p.func(path, qual)
        key = ctx.key(f, "C18-SURV", "merged-sum")
        sums = []
        for n in walk_local(f.node):
            if isinstance(n, ast.BinOp) and isinstance(n.op, ast.Add):
                if not isinstance(n.left, ast.Constant) and not isinstance(n.right, ast.Constant):
                    names = {x.id for x in ast.walk(n) if isinstance(x, ast.Name)}
                    txt = ast.unparse(n)
                    if any(k in txt for k in ("ic", "jc", "count", "cnt")):
                        sums.append(n)
            if isinstance(n, ast.AugAssign) and isinstance(n.op, ast.Add) and \
                    not isinstance(n.value, ast.Constant):
                if any(k in ast.unparse(n.target) for k in ("count", "cnt", "ic", "jc")):
                    sums.append(n)
        stale = _stored_count_one_sided(ctx, f)
        if sums and stale is None:
            r.ok(key, C.loc(f, sums[0]), f"{what}: counts of a shared index are added and the "
                 "merged count is what is stored", expr=C.unparse(sums[0]))
        elif sums:
            r.violation(key, C.loc(f, stale), f"{what}: the survival test uses the merged count "
                        "but the count stored on the surviving leg is one operand's own count, so "
                        "a later step never sees the index complete", stored=C.unparse(stale))
        else:
            r.violation(key, f.loc, f"{what}: the count of an index shared by both operands is "
                        "not the sum of both sides' counts, so an index on three or more tensors "
                        "(or also in the output) is dropped too early or kept forever")
    # the move evaluator returns (legs, cost, size) that the tree caches verbatim: an
    # index kept in the returned legs is an axis of the new tensor, so the same block
    # that keeps it multiplies the returned size by its dimension
    ev = ctx.p.try_func(C.ANNEAL, "compute_contracted_info")
    if ev is not None:
        rets = [n for n in walk_local(ev.node) if isinstance(n, ast.Return)
                and isinstance(n.value, ast.Tuple) and len(n.value.elts) == 3
                and all(isinstance(x, ast.Name) for x in n.value.elts)]
        C.require(rets, "compute_contracted_info: return (legs, cost, size) not recognised")
        L, Cst, S = (x.id for x in rets[0].value.elts)
        key = ctx.key(ev, "C18-SURV", "kept-is-sized")
        bad = None
        n_keep = 0
        for st in walk_local(ev.node):
            if isinstance(st, ast.Assign) and any(isinstance(t, ast.Subscript) and isinstance(t.value, ast.Name)
                                                  and t.value.id == L for t in st.targets):
                n_keep += 1
                par = ev.module.parents.get(st)
                block = None
                for fld in ("body", "orelse", "finalbody"):
                    b = getattr(par, fld, None)
                    if isinstance(b, list) and st in b:
                        block = b
                sized = block is not None and any(
                    isinstance(x, ast.AugAssign) and isinstance(x.op, ast.Mult)
                    and isinstance(x.target, ast.Name) and x.target.id == S for x in block)
                if not sized:
                    bad = st
        C.require(n_keep >= 1, "compute_contracted_info: stores into the returned legs not found")
        if bad is None:
            r.ok(key, ev.loc, f"each of the {n_keep} places that keep an index also multiply the size by its dimension")
        else:
            r.violation(key, C.loc(ev, bad), f"`{C.unparse(bad)}` keeps an index in the returned legs without "
                        f"multiplying `{S}` by its dimension in the same block: the size the tree caches for "
                        "the new node (and write / max size / peak) is too small although the tensor "
                        "really carries that axis")
    # leaf legs carry occurrence counts (the survival test compares them with the
    # global table): no constant may be substituted for a count
    tc = ctx.p.cls(C.CORE, "ContractionTree")
    cl = tc.lookup("compute_leaf_legs")
    key = ctx.key(cl, "C18-SURV", "leaf-counts")
    bad = None
    for n in walk_local(cl.node):
        if isinstance(n, ast.Assign) and any(isinstance(t, ast.Name) and t.id == "legs"
                                             for t in n.targets):
            v = n.value
            if isinstance(v, ast.Call) and (dotted(v.func) or "").endswith("fromkeys"):
                bad = n
            elif isinstance(v, ast.DictComp) and isinstance(v.value, ast.Constant):
                bad = n
            elif isinstance(v, ast.Call) and dotted(v.func) == "dict" and v.args and \
                    isinstance(v.args[0], (ast.GeneratorExp, ast.ListComp)) and \
                    isinstance(v.args[0].elt, ast.Tuple) and \
                    isinstance(v.args[0].elt.elts[-1], ast.Constant):
                bad = n
    if bad is not None:
        r.violation(key, C.loc(cl, bad), "leaf legs are rebuilt with a constant count: an index "
                    "repeated on one tensor never reaches its global count in the ancestors and "
                    "is kept (and paid for) up to the root", stmt=C.unparse(bad))
    else:
        r.ok(key, cl.loc, "leaf legs keep per-index occurrence counts")
    # (seed C04_12) the same for every other place where the tree merges leg tables of several tensors by hand:
    # the getters combine them with legs_union (which adds the counts); a hand-written tally over the *keys*
    # of leg tables adds 1 per tensor and loses the multiplicity of an index repeated on one tensor
    for gname in ("get_legs", "get_involved"):
        g = tc.lookup(gname)
        if g is None:
            continue
        key = ctx.key(g, "C18-SURV", "merge-counts")
        bad = None
        for n in walk_local(g.node):
            if isinstance(n, ast.Assign) and isinstance(n.targets[0], ast.Subscript) and isinstance(n.value, ast.BinOp) \
                    and isinstance(n.value.op, ast.Add) and isinstance(n.value.right, ast.Constant) \
                    and isinstance(n.value.left, ast.Call) and isinstance(n.value.left.func, ast.Attribute) \
                    and n.value.left.func.attr == "get":
                bad = n
            if isinstance(n, ast.AugAssign) and isinstance(n.target, ast.Subscript) and isinstance(n.op, ast.Add) \
                    and isinstance(n.value, ast.Constant):
                bad = n
        if bad is not None:
            r.violation(key, C.loc(g, bad), f"`{C.unparse(bad, 60)}` tallies one per tensor while merging leg tables: an index "
                        f"repeated on one tensor (a diagonal / trace index) is counted short of its number of appearances, "
                        f"stays in the legs of the node and of all its ancestors and is paid for up to the root")
        else:
            r.ok(key, g.loc, "leg tables are merged with their counts (no constant tally)")
    # hypergraph: structural survival
    hg = ctx.p.cls(C.HYPERGRAPH, "HyperGraph")
    for name in ("contract", "compute_contracted_inds"):
        f = hg.methods.get(name)
        C.require(f is not None, f"HyperGraph.{name} not found")
        key = ctx.key(f, "C18-SURV", "structural")
        conds = []
        for n in walk_local(f.node):
            if isinstance(n, ast.comprehension):
                conds += n.ifs
        txt = " ".join(ast.unparse(c) for c in conds)
        other = ("in self.edges" in txt) or ("self.edges[e]) - snodes" in txt) or \
            ("self.edges[" in txt and "-" in txt)
        out = "self.output" in txt
        ors = any(isinstance(c, ast.BoolOp) and isinstance(c.op, ast.Or) for c in conds)
        # the two disjuncts are bare tests: a conjunct or negation inside either of
        # them narrows (or widens) the rule for some class of indices
        narrowed = None
        for c in conds:
            if isinstance(c, ast.BoolOp) and isinstance(c.op, ast.Or):
                for v in c.values:
                    if any(isinstance(x, ast.BoolOp) or
                           (isinstance(x, ast.UnaryOp) and isinstance(x.op, ast.Not)) or
                           (isinstance(x, ast.Compare) and isinstance(x.ops[0], (ast.NotIn,)))
                           for x in ast.walk(v)):
                        narrowed = v
                if len(c.values) != 2:
                    narrowed = narrowed or c
        if len(conds) != 1:
            narrowed = narrowed or (conds[-1] if conds else None)
        if other and out and ors and narrowed is not None:
            r.violation(key, C.loc(f, narrowed), "hypergraph survival rule carries an extra "
                        f"clause `{C.unparse(narrowed, 80)}`: an index still on another node (a "
                        "hyper index) or in the output is no longer kept unconditionally, unlike "
                        "in the tree and the processor", cond=txt)
        elif other and out and ors:
            r.ok(key, f.loc, "keep iff still on another node or in the output")
        else:
            r.violation(key, f.loc, "hypergraph survival rule is not 'on another node OR in the "
                        "output'", cond=txt)
    return r


def rule_appear(ctx):
    r = RuleResult("C18-APPEAR", "appearance tables count the output", 2)
    cp = ctx.p.cls(C.BASIC, "ContractionProcessor")
    init = cp.methods.get("__init__")
    C.require(init is not None, "ContractionProcessor.__init__ not found")
    key = ctx.key(init, "C18-APPEAR")
    ok_in = ok_out = False
    for n in walk_local(init.node):
        if isinstance(n, ast.For):
            it = ast.unparse(n.iter)
            body = " ".join(ast.unparse(s) for s in n.body)
            if "self.appearances" in body:
                if it == "output":
                    ok_out = "+= 1" in body
                if "inputs" in it or any("inputs" in ast.unparse(l.iter)
                                         for l in C.enclosing_loops(init, n)):
                    ok_in = True
                if "term" in it:
                    ok_in = True
    if ok_in and ok_out:
        r.ok(key, init.loc, "counts every occurrence on the inputs and once more for the output")
    else:
        r.violation(key, init.loc, "the processor's appearance table does not count "
                    f"{'the output' if not ok_out else 'the inputs'}: output indices would be "
                    "contracted away in its simulation")
    tc = ctx.p.cls(C.CORE, "ContractionTree")
    tinit = tc.methods.get("__init__")
    key = ctx.key(tinit, "C18-APPEAR")
    srcs = set()
    for n in walk_local(tinit.node):
        if isinstance(n, ast.For) and "self.appearances[" in " ".join(ast.unparse(s) for s in n.body):
            outer = C.enclosing_loops(tinit, n)
            srcs.add(ast.unparse(outer[-1].iter) if outer else ast.unparse(n.iter))
    if {"self.inputs", "self.output"} <= srcs:
        r.ok(key, tinit.loc, "tree's table counts inputs and output")
    else:
        r.violation(key, tinit.loc, f"tree's appearance table built from {sorted(srcs)} only")
    return r


def rule_drop(ctx):
    r = RuleResult("C18-DROP", "no uncompensated index drop under a reported cost", 1)
    cp = ctx.p.cls(C.BASIC, "ContractionProcessor")
    # entries that report a cost: construct the processor with track_flops=True
    reporters = []
    late = []
    for f in ctx.p.all_funcs({C.BASIC}):
        if f.cls is cp:
            continue
        ctor_on = None
        for call in walk_local(f.node):
            if isinstance(call, ast.Call) and dotted(call.func) == "ContractionProcessor":
                for k in call.keywords:
                    if k.arg == "track_flops" and isinstance(k.value, ast.Constant) and k.value.value:
                        ctor_on = call
        sets = [n for n in walk_local(f.node) if isinstance(n, ast.Assign)
                and any(isinstance(t, ast.Attribute) and t.attr == "track_flops" for t in n.targets)
                and isinstance(n.value, ast.Constant) and n.value.value]
        if ctor_on is not None or sets:
            reporters.append(f)
        if ctor_on is None and sets:
            # tracking switched on after construction: every contracting call on the
            # processor must come after it
            fl = ctx.flow(f)
            on = fl.cfg.containing(sets[0], f.module.parents)
            for n, call in fl.calls():
                if isinstance(call.func, ast.Attribute) and call.func.attr in (
                        "simplify", "contract_nodes", "optimize_greedy", "optimize_optimal",
                        "optimize_remaining_by_size", "simplify_scalars", "simplify_hadamard"):
                    if not fl.cfg.dominates(on.id, n.id):
                        late.append((f, call))
    C.require(reporters, "no cost-reporting entry (track_flops) found")
    # the figure is read off the processor only when the path is complete: no
    # contracting call on the same processor follows the read within the iteration
    contracting = {m.name for m in cp.methods.values()
                   if "flops" in (ctx.effects.transitive(m)["write"] | ctx.effects.transitive(m)["mutate"])
                   and m.name not in ("__init__", "copy")}
    n_reads = 0
    for f in reporters:
        fl = ctx.flow(f)
        parents = f.module.parents
        for st in walk_local(f.node):
            if not (isinstance(st, ast.Assign) and isinstance(st.value, ast.Attribute)
                    and st.value.attr == "flops" and isinstance(st.value.value, ast.Name)):
                continue
            recv = st.value.value.id
            rn = fl.cfg.containing(st, parents)
            if rn is None:
                continue
            n_reads += 1
            heads = [fl.cfg.node_of(l) for l in C.enclosing_loops(f, st)]
            heads = [h.id for h in heads if h is not None]
            after = fl.cfg.reachable_from_succs(rn.id, avoid=heads)
            key = ctx.key(f, "C18-DROP", "figure-read-early")
            bad = None
            for n, call in fl.calls():
                if n.id in after and isinstance(call.func, ast.Attribute) and \
                        isinstance(call.func.value, ast.Name) and call.func.value.id == recv and \
                        call.func.attr in contracting:
                    bad = call
            if bad is not None:
                r.violation(key, C.loc(f, bad), f"`{C.unparse(st)}` reads the cost before "
                            f"{recv}.{bad.func.attr}() has performed its contractions: they are part "
                            "of the returned path but missing from the reported (and compared) cost")
            else:
                r.ok(key, C.loc(f, st), "cost read after the last contracting call of the trial")
    for f, call in late:
        r.violation(ctx.key(f, "C18-DROP", "tracking-starts-late"), C.loc(f, call),
                    f"{C.unparse(call.func)}() can perform contractions that become part of the "
                    "returned path before flops tracking is switched on: the reported cost "
                    "misses them")
    reach = set()
    for f in reporters:
        for g in ctx.r.reachable_funcs([f]):
            reach.add(g.key)
    for m in cp.methods.values():
        if m.name in ("__init__", "copy"):
            continue
        for n in walk_local(m.node):
            if not isinstance(n, ast.Assign):
                continue
            for t in n.targets:
                if isinstance(t, ast.Subscript) and C.unparse(t.value) == "self.nodes":
                    v = n.value
                    vt = ast.unparse(v)
                    if isinstance(v, ast.Name) and v.id in m.params:
                        continue  # add_node(legs): legs computed by the caller
                    if "compute_contracted(" in vt or "compute_simplified(" in vt:
                        continue
                    key = ctx.key(m, "C18-DROP")
                    touches_flops = any(a.attr == "flops" and a.kind != "read"
                                        for a in ctx.effects.direct(m)["access"])
                    if m.key in reach and not touches_flops:
                        r.violation(key, C.loc(m, n), "legs are rewritten outside the survival "
                                    "rule (an index is dropped from every node) in a method "
                                    "reachable from a cost-reporting entry "
                                    f"({', '.join(sorted(x.qual for x in reporters))}) without "
                                    "compensating the reported flops", value=C.unparse(v))
                    else:
                        r.ok(key, C.loc(m, n), "not reachable from a cost-reporting entry, or "
                             "compensated")
    # (seed C18_10) the batch simplification removes indices that sit on *every* term — a statement about the
    # network as given.  Once terms have been merged, "on every remaining term" also holds for an ordinary bond
    # between the last terms, which the tree keeps and charges: the call must happen once, before any
    # contracting simplification, never inside the simplification loop
    sm = cp.methods.get("simplify")
    if sm is not None:
        key = ctx.key(sm, "C18-DROP", "batch-once")
        calls = [n for n in walk_local(sm.node) if isinstance(n, ast.Call) and isinstance(n.func, ast.Attribute)
                 and n.func.attr == "simplify_batch"]
        contracting = [n for n in walk_local(sm.node) if isinstance(n, ast.Call) and isinstance(n.func, ast.Attribute)
                       and n.func.attr in ("simplify_single_terms", "simplify_scalars", "simplify_hadamard", "contract_nodes")]
        if not calls:
            r.ok(key, sm.loc, "no batch simplification in simplify()")
        else:
            in_loop = [c for c in calls if C.enclosing_loops(sm, C.enclosing_stmt(sm, c))]
            fl = ctx.flow(sm)
            late = []
            for c in calls:
                cn = fl.cfg.containing(c, sm.module.parents)
                for k_ in contracting:
                    kn = fl.cfg.containing(k_, sm.module.parents)
                    if kn.id != cn.id and cn.id in fl.cfg.reachable_from_succs(kn.id):
                        late.append((c, k_))
            if in_loop or late:
                c = (in_loop or [late[0][0]])[0]
                r.violation(key, C.loc(sm, c), "simplify_batch() can run after terms were merged (inside the simplification loop / "
                            "after a contracting simplification): an index on all *remaining* terms — e.g. the bond between the "
                            "last two — is dropped from the simulator's legs although the tree keeps and charges it, so every "
                            "later cost the simulator reports is too low")
            else:
                r.ok(key, C.loc(sm, calls[0]), "the batch simplification runs once, before any contracting simplification")
    return r


def rule_pre(ctx):
    r = RuleResult("C18-PRE", "pre-supplied figures come from one simulator call", 2)
    tc = ctx.p.cls(C.CORE, "ContractionTree")
    scope = list(ctx.p.all_funcs(None if ctx.tier == "thorough" else {C.CORE, C.ANNEAL, C.HYPER}))
    for f in scope:
        for call in C.method_calls(f, "contract_nodes_pair"):
            kw = {k.arg: k.value for k in call.keywords if k.arg in ("legs", "cost", "size")}
            if not kw:
                continue
            key = ctx.key(f, "C18-PRE", "+".join(sorted(kw)))
            la = ctx.r.local_assignments(f)
            origins = set()
            for name, v in kw.items():
                if isinstance(v, ast.Name):
                    for d in la.get(v.id, []):
                        base = d.value if isinstance(d, ast.Subscript) else d
                        origins.add(ast.unparse(base)[:80] if isinstance(base, ast.Call)
                                    else f"?{v.id}")
                else:
                    origins.add("?expr")
            same = len(origins) == 1 and next(iter(origins)).startswith("compute_contracted_info(")
            if set(kw) == {"legs", "cost", "size"} and same:
                r.ok(key, C.loc(f, call), "legs, cost and size unpacked from one "
                     "compute_contracted_info call")
            else:
                r.violation(key, C.loc(f, call), "figures handed to contract_nodes_pair do not "
                            "all come from a single call of a cross-checked simulator",
                            origins=sorted(origins), supplied=sorted(kw))
    return r


def rule_prelegs(ctx):
    """Processor side of C18-PRE (seed C18_7): legs handed to ``ContractionProcessor.contract_nodes``
    replace the simulator's own survival computation, so they must come from it —
    ``compute_contracted(...)`` — and not be one operand's legs taken over unchanged (the counts of
    shared indices are never summed, the indices never complete and stay on every later
    intermediate)."""
    r = RuleResult("C18-PRELEGS", "legs supplied to the path simulator come from its survival rule", 1)
    cp = ctx.p.cls(C.BASIC, "ContractionProcessor")
    C.require(cp is not None, "ContractionProcessor not found")
    scope = list(cp.methods.values())
    if ctx.tier == "thorough":
        scope = [f for f in ctx.p.all_funcs() if f.module.path.startswith("cotengra/pathfinders")]
    for f in scope:
        fl = None
        for call in C.method_calls(f, "contract_nodes"):
            legs = [k.value for k in call.keywords if k.arg == "new_legs"]
            if len(call.args) >= 3:
                legs.append(call.args[2])
            if not legs:
                continue
            recv = dotted(call.func.value)
            if f.cls is not cp and recv in ("tree", "self"):
                continue
            fl = fl or ctx.flow(f)
            at = fl.cfg.containing(call, f.module.parents)
            key = ctx.key(f, "C18-PRELEGS", C.unparse(legs[0], 30))
            deps = fl.deps(legs[0], at.id, "may")
            from_rule = any(d[0] == "call" and d[1].split(".")[-1] in ("compute_contracted", "compute_simplified")
                            for d in deps)
            if from_rule:
                r.ok(key, C.loc(f, call), "supplied legs derive from compute_contracted(...)")
            else:
                r.violation(key, C.loc(f, call), f"`new_legs={C.unparse(legs[0], 40)}` does not come from the "
                            f"survival rule (compute_contracted): appearance counts of shared indices are not "
                            f"summed, so the indices are never contracted and every later size/flops is too large",
                            deps=sorted(str(d) for d in deps)[:6])
    return r


def rule_bestpair(ctx):
    """An optimizer that keeps 'the best so far' reports one figure and returns one path; they
    describe the same trial only if (a) both attributes are written together and (b) what is
    handed back is the kept path, not the path of the batch just run (seed C18_8)."""
    r = RuleResult("C18-BESTPAIR", "the reported best cost and the returned path belong to one trial", 2)
    c = ctx.p.cls(C.BASIC, "RandomGreedyOptimizer")
    C.require(c is not None, "RandomGreedyOptimizer not found")
    pair = ("best_ssa_path", "best_flops")
    for f in c.methods.values():
        if f.name == "__init__":
            continue
        writes = {}
        for n in walk_local(f.node):
            if isinstance(n, ast.Assign):
                for t in n.targets:
                    if isinstance(t, ast.Attribute) and dotted(t.value) == "self" and t.attr in pair:
                        writes.setdefault(t.attr, []).append(n)
        if not writes:
            continue
        key = ctx.key(f, "C18-BESTPAIR", "together")
        parents = f.module.parents
        ok = set(writes) == set(pair)
        if ok:
            for a in writes[pair[0]]:
                blk = _blk(parents, a)
                if not any(any(b is x for x in blk) for b in writes[pair[1]]):
                    ok = False
        if ok:
            r.ok(key, f.loc, "best path and best cost are replaced in the same block")
        else:
            r.violation(key, f.loc, f"{sorted(writes)} written without the other half of {pair}: the "
                        f"reported cost and the kept path come from different trials")
        # the guard compares the new cost with the kept cost
        key = ctx.key(f, "C18-BESTPAIR", "guard")
        for a in writes.get(pair[1], []):
            ifs = C.enclosing_ifs(f, a)
            g = ifs[0][0].test if ifs else None
            good = isinstance(g, ast.Compare) and isinstance(g.ops[0], (ast.Lt, ast.LtE)) and \
                "best_flops" in C.unparse(g.comparators[0]) and C.unparse(g.left) == C.unparse(a.value)
            good = good or (isinstance(g, ast.Compare) and isinstance(g.ops[0], (ast.Gt, ast.GtE)) and
                            "best_flops" in C.unparse(g.left) and C.unparse(g.comparators[0]) == C.unparse(a.value))
            if good:
                r.ok(key, C.loc(f, a), f"kept iff `{C.unparse(g)}`")
            else:
                r.violation(key, C.loc(f, a), "the best cost is replaced without comparing the new cost "
                            "with it", guard=C.unparse(g) if g is not None else "none")
        # returns
        key = ctx.key(f, "C18-BESTPAIR", "returns")
        fl = ctx.flow(f)
        for ret in [n for n in walk_local(f.node) if isinstance(n, ast.Return) and n.value is not None]:
            v = ret.value
            at = fl.cfg.containing(ret, parents)
            good = dotted(v) == f"self.{pair[0]}"
            if not good and isinstance(v, ast.Name):
                defs = [d for d in fl.defs_reaching(v.id, at.id)]
                good = bool(defs) and all(d.value is not None and dotted(d.value) == f"self.{pair[0]}" for d in defs)
            if good:
                r.ok(key, C.loc(f, ret), "returns the kept best path")
            else:
                r.violation(key, C.loc(f, ret), f"`{C.unparse(ret, 50)}` hands back the path of the batch just "
                            f"run, while best_flops (the reported figure, and the score a reusable wrapper "
                            f"stores) stays at the best seen so far")
    return r


def _blk(parents, st):
    p = parents.get(st)
    for fld in ("body", "orelse", "finalbody"):
        b = getattr(p, fld, None)
        if isinstance(b, list) and any(s is st for s in b):
            return b
    return [st]


def rule_report(ctx):
    """Shared with C08-REFRESH: the costs an optimizer reports for its result are those
    of the tree it returns only if they are refreshed after every in-place
    post-processing of that tree."""
    from .c08 import rule_refresh as src

    return C.reuse_rule(ctx, src, "C08-REFRESH", "C18-REPORT",
                        "reported costs are recomputed from the tree that is returned",
                        lambda i: True, 3)


def _member_truth(test, case, names):
    """truth value of a test made of `ix in X` / `ix not in X` (X one of the two operands), and/or/not,
    under a case {operand name: bool}; None if the test is about something else"""
    if isinstance(test, ast.BoolOp):
        vals = [_member_truth(v, case, names) for v in test.values]
        if any(v is None for v in vals):
            return None
        return all(vals) if isinstance(test.op, ast.And) else any(vals)
    if isinstance(test, ast.UnaryOp) and isinstance(test.op, ast.Not):
        v = _member_truth(test.operand, case, names)
        return None if v is None else (not v)
    if isinstance(test, ast.Compare) and len(test.ops) == 1 and isinstance(test.ops[0], (ast.In, ast.NotIn)) \
            and isinstance(test.comparators[0], ast.Name) and test.comparators[0].id in names:
        v = case[test.comparators[0].id]
        return v if isinstance(test.ops[0], ast.In) else (not v)
    return None


def rule_merge(ctx):
    """The annealing move evaluator re-implements the tree's survival rule for a *pair* of leg tables
    (index -> how many of its appearances the operand already contains).  For an index on the left only, the
    right only, or both, it is evaluated symbolically (counts a, b; dimension d) and compared with the
    definition: merged count = a + b (a, b if one-sided); kept iff merged < appearances; the cost gets the
    dimension exactly once; the size gets it iff kept; the stored count is the merged one."""
    from ..engine.symbolic import Interp, Poly

    r = RuleResult("C18-MERGE", "the move evaluator merges two leg tables by the tree's survival rule", 3)
    f = ctx.p.func(C.ANNEAL, "compute_contracted_info")
    params = [a.arg for a in f.node.args.args]
    C.require(len(params) >= 4, "compute_contracted_info: parameters not recognised")
    la_, lb_, app_, sz_ = params[:4]
    rets = [n for n in f.node.body if isinstance(n, ast.Return) and isinstance(n.value, ast.Tuple) and len(n.value.elts) == 3]
    C.require(rets, "compute_contracted_info: return (legs, cost, size) not found")
    legs_nm, cost_nm, size_nm = [dotted(e) for e in rets[0].value.elts]
    a, b, d, APP = Poly.sym("a"), Poly.sym("b"), Poly.sym("d"), Poly.sym("APP")
    loops = [n for n in f.node.body if isinstance(n, ast.For)]
    C.require(loops, "compute_contracted_info: loops over the operands' legs not found")
    cases = {"left only": {la_: True, lb_: False}, "right only": {la_: False, lb_: True}, "both": {la_: True, lb_: True}}
    merged_want = {"left only": a, "right only": b, "both": a + b}
    per_case = {c: [] for c in cases}     # effects active in that case
    for lp in loops:
        it = lp.iter
        tnames = [x.id for x in ast.walk(lp.target) if isinstance(x, ast.Name)]
        C.require(isinstance(lp.target, ast.Tuple) and len(tnames) == 2, "compute_contracted_info: loop target not (index, count)")
        ixn, cntn = tnames
        # which cases can this loop see, and what the count variable holds in each
        src = C.unparse(it)
        binding = {}
        if src == f"{la_}.items()":
            binding = {"left only": a, "both": a}
        elif src == f"{lb_}.items()":
            binding = {"right only": b, "both": b}
        elif isinstance(it, ast.Call) and isinstance(it.func, ast.Attribute) and it.func.attr == "items" and \
                isinstance(it.func.value, ast.Dict) and all(k is None for k in it.func.value.keys):
            order = [dotted(v) for v in it.func.value.values]
            if set(order) == {la_, lb_}:
                last = order[-1]
                # dict display: the later mapping wins for a shared key
                binding = {"left only": a, "right only": b, "both": (a if last == la_ else b)}
        if not binding:
            raise AnalysisError(f"compute_contracted_info: iteration source `{src}` not understood")
        for cname, cnt in binding.items():
            env = {cntn: cnt, f"{sz_}[{ixn}]": d, f"{app_}[{ixn}]": APP, f"{la_}[{ixn}]": a, f"{lb_}[{ixn}]": b}
            it_ = Interp(env=env)
            it_.watch = {cost_nm, size_nm}
            for e in it_.run(lp.body):
                active = True
                for (txt, outcome), cv in zip(e.conds, e.cvals):
                    tv = _member_truth(it_.tests[txt], cases[cname], (la_, lb_))
                    if tv is not None and tv != outcome:
                        active = False
                if active:
                    per_case[cname].append((e, it_))
    for cname in cases:
        k = ctx.key(f, "C18-MERGE", cname.replace(" ", "-"))
        want = merged_want[cname]
        probs = []
        effs = per_case[cname]
        # distinct execution paths are alternatives (kept / not kept); group by the survival outcome
        def kept_of(e):
            for (txt, outcome), cv in zip(e.conds, e.cvals):
                if cv is not None and cv[1] in ("Lt", "LtE", "Gt", "GtE", "Eq", "NotEq") and cv[2] == APP:
                    return (outcome, cv)
            return None
        costs = [e for e, _ in effs if e.kind == "aug" and e.target == cost_nm]
        # the cost statement may appear once per path alternative; count per alternative
        alts = {}
        for e in costs:
            ko = kept_of(e)
            alts.setdefault(ko[0] if ko else "any", []).append(e)
        for alt, es in alts.items():
            if len(es) != 1 or es[0].op != "Mult" or es[0].value != d:
                probs.append(f"the cost is multiplied by {[str(x.value) for x in es]} ({len(es)} time(s)) for such an index, expected d once")
        if not costs:
            probs.append("the dimension of such an index never enters the cost")
        stores = [e for e, _ in effs if e.kind == "store" and e.target.startswith(f"{legs_nm}[")]
        sizes = [e for e, _ in effs if e.kind == "aug" and e.target == size_nm]
        for e in stores + sizes:
            ko = kept_of(e)
            if ko is None:
                probs.append(f"`{C.unparse(e.node, 40)}` is not under the survival test")
                continue
            outcome, (lv, opn, rv) = ko
            keeps = (opn == "Lt" and outcome) or (opn == "GtE" and not outcome) or (opn == "NotEq" and outcome) or (opn == "Eq" and not outcome)
            if not keeps:
                probs.append(f"`{C.unparse(e.node, 40)}` runs when the merged count has *reached* the number of appearances")
            if lv != want:
                probs.append(f"the count compared with the number of appearances is {lv}, expected {want}")
        if not stores:
            probs.append("a surviving index of this kind is never stored in the resulting legs")
        for e in stores:
            if e.value != want:
                probs.append(f"the count stored for the surviving index is {e.value}, expected {want}")
        for e in sizes:
            if e.op != "Mult" or e.value != d:
                probs.append(f"the size is changed by {e.op} {e.value}")
        if stores and not sizes:
            probs.append("a surviving index does not contribute its dimension to the size")
        if len(stores) > 1 or len(sizes) > 1:
            probs.append(f"such an index is handled {max(len(stores), len(sizes))} times")
        if probs:
            r.violation(k, f.loc, f"index on {cname}: " + "; ".join(dict.fromkeys(probs)))
        else:
            r.ok(k, f.loc, f"index on {cname}: merged count {want}, kept iff < appearances, cost *= d once, size *= d iff kept")
    return r


def rule_flops(ctx):
    """(seed C18_9) 'The scalar-operation count of a step is the product of the dimensions of all indices
    involved' — each index *once*.  The tree takes the product over the union of the children's legs
    ([C03-PROV]); its siblings must do the same: the processor multiplies the second operand's dimension only
    for indices not seen on the first, the hypergraph takes one product over the *set* union of both nodes'
    edges.  'size of the result times size of the shared bond' counts an index twice when it is shared *and*
    survives (hyper index on a third tensor, output index on both operands)."""
    r = RuleResult("C18-FLOPS", "every simulator counts each involved index once per step", 2)
    hg = ctx.p.cls(C.HYPERGRAPH, "HyperGraph")
    f = hg.methods.get("contract_pair_cost") if hg is not None else None
    C.require(f is not None, "HyperGraph.contract_pair_cost not found")
    k = ctx.key(f, "C18-FLOPS")
    rets = [n for n in walk_local(f.node) if isinstance(n, ast.Return) and n.value is not None]
    C.require(len(rets) == 1, "HyperGraph.contract_pair_cost: single return expected")
    v = rets[0].value
    la = ctx.r.local_assignments(f)
    if isinstance(v, ast.Name) and len(la.get(v.id, [])) == 1:
        v = la[v.id][0]
    params = [a.arg for a in f.node.args.args][1:3]
    ok = False
    why = f"`{C.unparse(v, 70)}`"
    if isinstance(v, ast.Call) and isinstance(v.func, ast.Attribute) and v.func.attr == "edges_size" and len(v.args) == 1:
        a = v.args[0]
        txt = C.unparse(a)
        is_set = (isinstance(a, ast.Call) and dotted(a.func) in ("set", "frozenset")) or isinstance(a, (ast.SetComp, ast.Set)) or \
            (isinstance(a, ast.Call) and isinstance(a.func, ast.Attribute) and a.func.attr == "union") or \
            (isinstance(a, ast.BinOp) and isinstance(a.op, ast.BitOr))
        both = all(p_ in {x.id for x in ast.walk(a) if isinstance(x, ast.Name)} for p_ in params)
        ok = is_set and both
        if not is_set:
            why += ": the edges of both nodes are not united as a *set* (a shared edge is multiplied twice)"
        elif not both:
            why += ": not over both nodes"
    elif isinstance(v, ast.BinOp) and isinstance(v.op, ast.Mult):
        why += ": a product of two size figures counts every index that is on both of them twice (a shared index that survives " \
               "the step: a hyper index also on a third tensor, an output index on both operands)"
    if ok:
        r.ok(k, C.loc(f, rets[0]), "one product over the set union of both nodes' edges")
    else:
        r.violation(k, C.loc(f, rets[0]), f"the pair cost is {why}; the tree's flops of the same step is the product over the "
                    f"union of the involved indices, each once")
    # processor
    f = ctx.p.func(C.BASIC, "compute_flops")
    k = ctx.key(f, "C18-FLOPS")
    loops = [n for n in f.node.body if isinstance(n, ast.For)]
    params = [a.arg for a in f.node.args.args]
    probs = []
    if len(loops) != 2:
        probs.append(f"expected one loop per operand, found {len(loops)}")
    else:
        first, second = loops
        seen_adds = [c for c in ast.walk(first) if isinstance(c, ast.Call) and isinstance(c.func, ast.Attribute) and c.func.attr == "add"]
        mul1 = [n for n in first.body if isinstance(n, ast.AugAssign) and isinstance(n.op, ast.Mult)]
        if not mul1 or C.enclosing_ifs(f, mul1[0]):
            probs.append("the first operand's dimensions are not all multiplied in")
        if not seen_adds or C.enclosing_ifs(f, C.enclosing_stmt(f, seen_adds[0])):
            probs.append("the indices of the first operand are not all recorded as seen")
        mul2 = [n for n in ast.walk(second) if isinstance(n, ast.AugAssign) and isinstance(n.op, ast.Mult)]
        g = C.enclosing_ifs(f, mul2[0]) if mul2 else []
        seen_nm = dotted(seen_adds[0].func.value) if seen_adds else None
        t = g[0][0].test if g else None
        guard_ok = g and ((isinstance(t, ast.Compare) and isinstance(t.ops[0], ast.NotIn) and dotted(t.comparators[0]) == seen_nm and g[0][1])
                          or (isinstance(t, ast.Compare) and isinstance(t.ops[0], ast.In) and dotted(t.comparators[0]) == seen_nm and not g[0][1]))
        if not mul2 or not guard_ok:
            probs.append("the second operand's dimension is not multiplied in exactly for the indices not seen on the first")
        if C.unparse(first.iter) == C.unparse(second.iter):
            probs.append("both loops run over the same operand")
    if probs:
        r.violation(k, f.loc, "; ".join(probs))
    else:
        r.ok(k, f.loc, "first operand: every index; second operand: only the indices not seen on the first")
    return r


def rule_freshsub(ctx):
    """Shared with C16-FRESH, reusable-optimizer instances (seed C18_12): the score a reusable optimizer stores — and
    reports — is the cost of the path it returns only if the sub-optimizer that produced both starts from nothing: a
    retained RandomGreedyOptimizer keeps the best flops *and path* of an earlier, cheaper contraction."""
    from .c16 import rule_fresh as src

    return C.reuse_rule(ctx, src, "C16-FRESH", "C18-FRESHSUB", "reported scores come from a sub-optimizer without history",
                        lambda i: "Reusable" in i.construct or "reusable.py" in i.construct, 1)


def rule_purefns(ctx):
    """(engine E9) The lightweight processor's leg arithmetic is a handful of pure functions on sorted lists of
    (index, count) pairs.  Their source is evaluated by the engine's mini-evaluator on every pair of terms over three
    indices with counts 0-2 on each side and 0-1 further appearances elsewhere, and compared with the definitions
    the tree uses: an index survives a merge iff its merged count is below its global count; the operation count is
    the product of the dimensions of all indices involved, the size that of the survivors; each step-cost function
    of the optimal finder is its objective's definition and leaves exactly the surviving legs behind."""
    import itertools

    from ..engine.minieval import Mini, NoEval, Raised

    r = RuleResult("C18-PUREFNS", "the processor's leg arithmetic equals the tree's definitions on a bounded family", 2)
    m = ctx.p.modules[C.BASIC]
    names = ("compute_contracted", "compute_simplified", "compute_size", "compute_flops", "compute_con_cost_flops", "compute_con_cost_max",
             "compute_con_cost_size", "compute_con_cost_write", "compute_con_cost_combo", "compute_con_cost_limit", "is_simplifiable")
    fs = {g.name: g.node for g in m.all_funcs if g.cls is None and g.name in names}
    C.require(len(fs) == len(names), f"leg arithmetic functions not found ({sorted(set(names) - set(fs))})")
    sizes = [2, 3, 5]
    opts = [(ci, cj, ex) for ci in (0, 1, 2) for cj in (0, 1, 2) for ex in (0, 1)]
    bad = {}
    n = 0

    def call(nm, args):
        return Mini(fs, budget=20000).call(fs[nm], args)
    try:
        for combo in itertools.product(opts, repeat=3):
            if sum(1 for ci, cj, ex in combo if ci + cj) == 0:
                continue
            # keep the family moderate: the third index takes four representative patterns
            if combo[2] not in ((0, 0, 0), (1, 1, 0), (1, 0, 1), (2, 1, 1)):
                continue
            app = [max(ci + cj + ex, 1) for ci, cj, ex in combo]
            # precondition of the pairwise functions: both terms are simplified (no index closed within one term)
            if any((ci and ci == a_) or (cj and cj == a_) for (ci, cj, ex), a_ in zip(combo, app)):
                continue
            n += 1
            ilegs = [(ix, ci) for ix, (ci, cj, ex) in enumerate(combo) if ci]
            jlegs = [(ix, cj) for ix, (ci, cj, ex) in enumerate(combo) if cj]
            merged = [(ix, ci + cj) for ix, (ci, cj, ex) in enumerate(combo) if ci + cj]
            surv = [(ix, c) for ix, c in merged if c < app[ix]]
            flops = 1
            for ix, c in merged:
                flops *= sizes[ix]
            size = 1
            for ix, c in surv:
                size *= sizes[ix]
            isc, jsc, fac = 7, 11, 4

            def expect(nm, got, want):
                if got != want and nm not in bad:
                    bad[nm] = (ilegs, jlegs, app, got, want)
            try:
                expect("compute_contracted", call("compute_contracted", [list(ilegs), list(jlegs), app]), surv)
                expect("compute_flops", call("compute_flops", [list(ilegs), list(jlegs), sizes]), flops)
                expect("compute_size", call("compute_size", [list(surv), sizes]), size)
                # a single term with a repeated / closed index: occurrences listed one by one
                # (here the closed case is the point: give the first term's indices one more pattern, closed iff ex == 0 on it)
                app1 = [c + ex for (c, _cj, ex) in combo]
                flat = sorted([(ix, 1) for ix, c in ilegs for _ in range(c)])
                simp = [(ix, c) for ix, c in ilegs if c < max(app1[ix], 1)]
                app1 = [max(a_, 1) for a_ in app1]
                expect("compute_simplified", call("compute_simplified", [list(flat), app1]), simp)
                expect("is_simplifiable", bool(call("is_simplifiable", [list(flat), app1])), flat != simp)
                for nm, want in (("compute_con_cost_flops", isc + jsc + flops), ("compute_con_cost_max", max(isc, jsc, flops)),
                                 ("compute_con_cost_size", max(isc, jsc, size)), ("compute_con_cost_write", isc + jsc + size)):
                    tl = list(merged)
                    expect(nm, call(nm, [tl, app, sizes, isc, jsc]), want)
                    expect(nm + " (legs left behind)", tl, surv)
                for nm, want in (("compute_con_cost_combo", isc + jsc + flops + fac * size), ("compute_con_cost_limit", isc + jsc + max(flops, fac * size))):
                    tl = list(merged)
                    expect(nm, call(nm, [tl, app, sizes, isc, jsc, fac]), want)
                    expect(nm + " (legs left behind)", tl, surv)
            except Raised as e:
                bad.setdefault("raise", (ilegs, jlegs, app, f"raises ({e.text})", ""))
            except NoEval:
                raise
            except Exception as e:
                bad.setdefault("raise", (ilegs, jlegs, app, f"raises ({type(e).__name__}: {e})", ""))
    except NoEval as e:
        raise AnalysisError(f"leg arithmetic not evaluable by the mini-evaluator ({e})")
    for nm in names:
        f = ctx.p.func(C.BASIC, nm)
        k = ctx.key(f, "C18-PUREFNS")
        hits = [(kk, v) for kk, v in bad.items() if kk.startswith(nm) or (kk == "raise" and nm == names[0])]
        if hits:
            kk, (il, jl, ap, got, want) = hits[0]
            r.violation(k, f.loc, f"{kk}: for the terms {il} and {jl} with global counts {ap} (dimensions {sizes}) it gives {got}, the definition "
                        f"gives {want}: the processor's figures differ from the tree's for the same step")
        else:
            r.ok(k, f.loc, f"agrees with the definition on {n} pairs of terms")
    return r


def rule_rgcost(ctx):
    """Shared with C05-RGEVAL reported-cost (engine E9): the random-greedy finder, evaluated end to end on every small
    network without an index on all tensors, reports the operation count of the path it returns."""
    from .c05 import rule_rgeval as src

    return C.reuse_rule(ctx, src, "C05-RGEVAL", "C18-RGCOST", "random-greedy reports the cost of the path it returns (bounded family)",
                        lambda i: "reported-cost" in i.construct, 1)


RULES = [rule_rgcost, rule_purefns, rule_freshsub, rule_surv, rule_appear, rule_drop, rule_pre, rule_prelegs, rule_bestpair, rule_report, rule_merge, rule_flops]
