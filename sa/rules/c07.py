"""C07 — the slice finder's targets are honoured (structural clauses)."""

from __future__ import annotations

import ast

from ..engine.program import AnalysisError, dotted, walk_local
from ..engine.report import RuleResult
from . import common as C
from .c02 import tree_class

PID = "C07"
EXPLANATION = (
    "Structural clauses of SliceFinder, decided on the ast/CFG of slicer.py and "
    "ContractionTree.slice: (FORBID) the statement that extends the sliced set is "
    "dominated by the test `ix in self.forbidden` whose true branch raises, and "
    "`forbidden` is assigned only in __init__ and never mutated; (FILTER) every "
    "value `best` returns is min/sorted over filter(P, self.costs.items()) where P is "
    "a conjunction holding, per target kind, `not specified or attr REL target` with "
    "(size,<=), (overhead,<=), (nslices,>=) against the unscaled target; (AGREE) the "
    "three encodings of the targets (already_satisfied, the loop's stop tests, P) use "
    "the same attribute with a consistent direction; (APPLY) ContractionTree.slice "
    "removes exactly the returned indices. Equality of the predicted costs with the "
    "sliced tree's figures is integer arithmetic over two incremental models and is "
    "not decided."
)
ASSUMPTIONS = ()

KINDS = {"size": ("target_size", "le"), "overhead": ("target_overhead", "le"),
         "nslices": ("target_slices", "ge")}


def _op(o):
    return {ast.LtE: "le", ast.Lt: "lt", ast.GtE: "ge", ast.Gt: "gt", ast.Eq: "eq",
            ast.NotEq: "ne"}.get(type(o), "?")


def _target_compares(expr):
    """[(attr, op, comparand text, Compare)] for compares of <x>.attr with a target"""
    out = []
    for c in [n for n in ast.walk(expr) if isinstance(n, ast.Compare)]:
        if len(c.ops) != 1:
            continue
        l, rr = c.left, c.comparators[0]
        if isinstance(l, ast.Attribute) and l.attr in KINDS:
            out.append((l.attr, _op(c.ops[0]), C.unparse(rr), c))
    return out


def _is_container_name(ctx, f, name):
    """local ``name`` is bound to a list/tuple/set display or constructor (so iterating
    it yields elements, not characters)"""
    for v in ctx.r.local_assignments(f).get(name, []):
        if isinstance(v, (ast.List, ast.Tuple, ast.Set, ast.ListComp, ast.SetComp)):
            return True
        if isinstance(v, ast.Call) and dotted(v.func) in ("list", "tuple", "set", "frozenset"):
            return True
    return False


def rule_forbid(ctx):
    r = RuleResult("C07-FORBID", "forbidden indices are never selected", 2)
    sf = ctx.p.cls(C.SLICER, "SliceFinder")
    tr = sf.methods.get("trial")
    C.require(tr is not None, "SliceFinder.trial not found")
    fl = ctx.flow(tr)
    ext = []
    for n in fl.cfg.nodes:
        if n.kind == "stmt" and isinstance(n.ast, ast.Assign):
            v = n.ast.value
            if isinstance(v, ast.BinOp) and isinstance(v.op, ast.BitOr) and \
                    "frozenset" in ast.unparse(v):
                ext.append(n)
            elif isinstance(v, ast.Call) and isinstance(v.func, ast.Attribute) and \
                    v.func.attr == "union" and "ix" in ast.unparse(v):
                ext.append(n)
    C.require(ext, "statement extending the sliced index set not recognised in trial")
    guards = []
    for n in fl.cfg.nodes:
        if n.kind == "test" and isinstance(n.ast, ast.If):
            t = n.ast.test
            if isinstance(t, ast.Compare) and len(t.ops) == 1 and isinstance(t.ops[0], ast.In) \
                    and C.unparse(t.comparators[0]) == "self.forbidden" and \
                    isinstance(n.ast.body[-1], ast.Raise):
                guards.append(n)
    for e in ext:
        key = ctx.key(tr, "C07-FORBID", "guard")
        picked = None
        if isinstance(e.ast.value, ast.BinOp):
            picked = [x.id for x in ast.walk(e.ast.value) if isinstance(x, ast.Name)]
        gs = [g for g in guards if fl.cfg.dominates(g.id, e.id)
              and C.unparse(g.ast.test.left) in (picked or [C.unparse(g.ast.test.left)])]
        if gs:
            r.ok(key, C.loc(tr, e.ast), "dominated by `ix in self.forbidden: raise`")
        else:
            r.violation(key, C.loc(tr, e.ast), "an index is added to the sliced set without the "
                        "forbidden test dominating it: with only forbidden indices left the "
                        "-inf penalty ties and a forbidden (output) index is chosen")
    # the chosen index enters the set as *one element*: set algebra with the bare label
    # (``ix_sl.union(ix)``, ``frozenset(ix)``) iterates the label's characters
    for e in ext:
        key = ctx.key(tr, "C07-FORBID", "element")
        v = e.ast.value
        added = None
        if isinstance(v, ast.BinOp):
            added = v.right if "ix_sl" in C.unparse(v.left) or isinstance(v.left, ast.Name) else v.left
        elif isinstance(v, ast.Call) and v.args:
            added = v.args[0]
        inner = added
        if isinstance(inner, ast.Call) and dotted(inner.func) in ("frozenset", "set") and inner.args:
            inner = inner.args[0]
        bare = isinstance(inner, ast.Name) and not _is_container_name(ctx, tr, inner.id)
        if added is not None and bare:
            r.violation(key, C.loc(tr, e.ast), f"`{C.unparse(v)}` builds the set from the label `{inner.id}` "
                        "itself, i.e. from its characters: for multi-character index names the recorded "
                        "set is not the set of indices removed from the cost model")
        else:
            r.ok(key, C.loc(tr, e.ast), "the chosen index is added as a single element")
    # option handling: an equality test against a truthy constant placed after a bare
    # truthiness test of the same option can never be reached
    init0 = sf.methods["__init__"]
    for n in walk_local(init0.node):
        if not isinstance(n, ast.If):
            continue
        chain, cur = [], n
        while True:
            chain.append(cur.test)
            if len(cur.orelse) == 1 and isinstance(cur.orelse[0], ast.If):
                cur = cur.orelse[0]
            else:
                break
        if init0.module.parents.get(n) is not None and isinstance(init0.module.parents.get(n), ast.If) \
                and n in init0.module.parents.get(n).orelse:
            continue  # inner link of a chain already handled
        for i, t in enumerate(chain):
            if isinstance(t, ast.Compare) and len(t.ops) == 1 and isinstance(t.ops[0], ast.Eq) and \
                    isinstance(t.left, ast.Name) and isinstance(t.comparators[0], ast.Constant) \
                    and bool(t.comparators[0].value):
                key = ctx.key(init0, "C07-FORBID", f"option:{t.left.id}={t.comparators[0].value!r}")
                shadow = [u for u in chain[:i] if isinstance(u, ast.Name) and u.id == t.left.id]
                if shadow:
                    r.violation(key, C.loc(init0, t), f"`{C.unparse(t)}` is tested after the bare truthiness "
                                f"test `{t.left.id}`; {t.comparators[0].value!r} is truthy, so this branch is "
                                "unreachable and the option silently behaves like True (no index forbidden)")
                else:
                    r.ok(key, C.loc(init0, t), "option value tested before any truthiness test of the option")
    # forbidden assigned only in __init__, never mutated
    key = ctx.key(sf.methods["__init__"], "C07-FORBID", "immutable")
    bad = None
    for f in sf.methods.values():
        for a in ctx.effects.direct(f)["access"]:
            if a.attr == "forbidden" and a.recv == "self" and a.kind != "read":
                if f.name != "__init__" or a.kind == "mutate":
                    bad = a
    if bad is None:
        r.ok(key, sf.methods["__init__"].loc, "assigned in __init__ only, never mutated")
    else:
        r.violation(key, bad.loc, "self.forbidden is changed after construction")
    # the forbidden set derives from the output when outer slicing is disallowed
    init = sf.methods["__init__"]
    fl2 = ctx.flow(init)
    vals = [n.value for n in walk_local(init.node) if isinstance(n, ast.Assign)
            and C.unparse(n.targets[0]) == "self.forbidden"]
    key = ctx.key(init, "C07-FORBID", "source")
    srcs = " ".join(C.unparse(v) for v in vals)
    if "output" in srcs:
        r.ok(key, init.loc, "forbidden set is built from the output indices", values=srcs)
    else:
        r.violation(key, init.loc, "forbidden set is not derived from the output", values=srcs)
    return r


def _valid_name(best):
    """name of the filtered candidate collection: first argument of the
    min(...)/sorted(...) that `best` returns"""
    for n in walk_local(best.node):
        if isinstance(n, ast.Return) and n.value is not None:
            v = n.value.value if isinstance(n.value, ast.Subscript) else n.value
            if isinstance(v, ast.Call) and dotted(v.func) in ("min", "sorted") and v.args and \
                    isinstance(v.args[0], ast.Name):
                return v.args[0].id
    return "valid"


def _best_filter(ctx, best):
    """(lambda/def body expr P, filter call) of `valid = filter(P, self.costs.items())`"""
    la = ctx.r.local_assignments(best)
    vs = la.get(_valid_name(best), [])
    for v in vs:
        if isinstance(v, ast.Call) and dotted(v.func) == "filter" and len(v.args) == 2:
            pred, src = v.args
            if C.unparse(src) != "self.costs.items()":
                return None, v, "filter source is not self.costs.items()"
            if isinstance(pred, ast.Lambda):
                return pred.body, v, None
            if isinstance(pred, ast.Name):
                for nf in ctx.p.nested_funcs(best):
                    if nf.name == pred.id:
                        rets = [n for n in walk_local(nf.node) if isinstance(n, ast.Return)]
                        if len(rets) == 1:
                            return rets[0].value, v, None
            return None, v, "filter predicate not recognised"
        if isinstance(v, (ast.ListComp, ast.GeneratorExp)) and \
                C.unparse(v.generators[0].iter) == "self.costs.items()" and v.generators[0].ifs:
            conds = v.generators[0].ifs
            return (conds[0] if len(conds) == 1 else ast.BoolOp(op=ast.And(), values=conds)), v, None
    return None, None, "no `valid = filter(P, self.costs.items())`"


def rule_filter(ctx):
    r = RuleResult("C07-FILTER", "returned slicing satisfies the requested target", 4)
    sf = ctx.p.cls(C.SLICER, "SliceFinder")
    best = sf.methods.get("best")
    C.require(best is not None, "SliceFinder.best not found")
    P, fcall, err = _best_filter(ctx, best)
    key = ctx.key(best, "C07-FILTER", "predicate")
    if P is None:
        r.violation(key, best.loc, f"target filter not found: {err}")
        return r
    conj = P.values if isinstance(P, ast.BoolOp) and isinstance(P.op, ast.And) else [P]
    found = {}
    for c in conj:
        for attr, op, cmpd, node in _target_compares(c):
            # clause shape: not X_specified or (x.attr REL target)
            shape_ok = isinstance(c, ast.BoolOp) and isinstance(c.op, ast.Or) and \
                isinstance(c.values[0], ast.UnaryOp) and isinstance(c.values[0].op, ast.Not)
            found[attr] = (op, cmpd, shape_ok, node)
    for attr, (tname, want) in KINDS.items():
        k = ctx.key(best, "C07-FILTER", attr)
        if attr not in found:
            r.violation(k, best.loc, f"the filter of `best` has no clause for {attr}: a returned "
                        f"slicing may miss {tname}")
            continue
        op, cmpd, shape_ok, node = found[attr]
        if op == want and cmpd == tname and shape_ok:
            r.ok(k, C.loc(best, node), f"not specified or {attr} {want} {tname}")
        else:
            r.violation(k, C.loc(best, node), f"filter clause for {attr} is `{C.unparse(node)}`; "
                        f"required `{attr} {'<=' if want == 'le' else '>='} {tname}` (unscaled)")
    # every return draws from `valid`
    k = ctx.key(best, "C07-FILTER", "returns")
    bad = None
    for n in walk_local(best.node):
        if isinstance(n, ast.Return) and n.value is not None:
            v = n.value
            if isinstance(v, ast.Subscript):
                v = v.value
            if not (isinstance(v, ast.Call) and dotted(v.func) in ("min", "sorted")
                    and v.args and C.unparse(v.args[0]) == _valid_name(best)):
                bad = n
    if bad is None:
        r.ok(k, best.loc, "every return is min/sorted over the filtered candidates")
    else:
        r.violation(k, C.loc(best, bad), "a return value of `best` bypasses the target filter",
                    ret=C.unparse(bad))
    # search returns best(...) with the same targets
    srch = sf.methods.get("search")
    k = ctx.key(srch, "C07-FILTER", "search")
    rets = [n for n in walk_local(srch.node) if isinstance(n, ast.Return)]
    ok = len(rets) == 1 and isinstance(rets[0].value, ast.Call) and \
        dotted(rets[0].value.func) == "self.best"
    if ok:
        kw = {kk.arg: C.unparse(kk.value) for kk in rets[0].value.keywords}
        ok = all(kw.get(t) == t for t in ("target_size", "target_overhead", "target_slices"))
    if ok:
        r.ok(k, srch.loc, "search returns best(...) under the same targets")
    else:
        r.violation(k, srch.loc, "search does not return self.best(...) with the caller's targets")
    return r


def rule_agree(ctx):
    r = RuleResult("C07-AGREE", "the three target encodings agree", 3)
    sf = ctx.p.cls(C.SLICER, "SliceFinder")
    tr = sf.methods.get("trial")
    la = ctx.r.local_assignments(tr)
    # the entry flag: the name negated in the search loop's ``while not <flag>``
    flag = None
    for n in walk_local(tr.node):
        if isinstance(n, ast.While) and isinstance(n.test, ast.UnaryOp) and \
                isinstance(n.test.op, ast.Not) and isinstance(n.test.operand, ast.Name):
            flag = n.test.operand.id
    sat = la.get(flag, []) if flag else []
    C.require(len(sat) == 1, "entry test (`while not <already satisfied>`) of trial not recognised")
    enc_sat = {a: (op, t) for a, op, t, _ in _target_compares(sat[0])}
    enc_loop = {}
    for n in walk_local(tr.node):
        if isinstance(n, ast.If) and any(isinstance(x, ast.Break) for x in n.body):
            for a, op, t, _ in _target_compares(n.test):
                enc_loop[a] = (op, t)
    # expected: stop once size <= target; stop *before* overhead > target; stop at nslices >= target
    want = {"size": "le", "overhead": "gt", "nslices": "ge"}
    for attr, (tname, _) in KINDS.items():
        k = ctx.key(tr, "C07-AGREE", attr)
        a = enc_sat.get(attr)
        b = enc_loop.get(attr)
        if a is None or b is None:
            r.violation(k, tr.loc, f"target kind {attr} is not encoded in both the entry test and "
                        "the loop's stop tests")
        elif a == b == (want[attr], tname):
            r.ok(k, tr.loc, f"{attr} {want[attr]} {tname} in both the entry test and the loop")
        else:
            r.violation(k, tr.loc, f"inconsistent encodings of the {attr} target: entry test "
                        f"{a}, loop {b}, expected {(want[attr], tname)}")
    return r


def rule_apply(ctx):
    r = RuleResult("C07-APPLY", "ContractionTree.slice applies exactly the returned set", 3)
    tc = tree_class(ctx)
    sl = tc.lookup("slice")
    C.require(sl is not None, "ContractionTree.slice not found")
    key = ctx.key(sl, "C07-APPLY")
    la = ctx.r.local_assignments(sl)
    ok = False
    why = "loop applying the returned indices not found"
    for n in walk_local(sl.node):
        if isinstance(n, ast.For) and isinstance(n.iter, ast.Name):
            src = la.get(n.iter.id, [])
            from_search = any("search(" in C.unparse(s) for s in src)
            if not from_search:
                continue
            body = n.body
            if len(body) == 1 and isinstance(body[0], ast.Expr) and \
                    isinstance(body[0].value, ast.Call) and \
                    isinstance(body[0].value.func, ast.Attribute) and \
                    body[0].value.func.attr in ("remove_ind_", "remove_ind") and \
                    C.unparse(body[0].value.args[0]) == C.unparse(n.target):
                ok = True
            else:
                why = "the loop over the returned indices filters or transforms them"
    if ok:
        r.ok(key, sl.loc, "every returned index is removed, nothing else")
    else:
        r.violation(key, sl.loc, why)
    # the finder receives the caller's restrictions
    key = ctx.key(sl, "C07-APPLY", "options")
    calls = [n for n in walk_local(sl.node) if isinstance(n, ast.Call)
             and dotted(n.func) == "SliceFinder"]
    C.require(calls, "SliceFinder(...) in ContractionTree.slice not found")
    kw = {k.arg: C.unparse(k.value) for k in calls[0].keywords}
    need = ("target_size", "target_overhead", "target_slices", "allow_outer")
    miss = [x for x in need if kw.get(x) != x]
    if miss:
        r.violation(key, C.loc(sl, calls[0]), f"slice() does not forward {miss} to SliceFinder")
    else:
        r.ok(key, C.loc(sl, calls[0]), "targets and allow_outer forwarded")
    # the model is built from the very object the indices are then removed from
    # (with reslice / inplace=False the working tree differs from self)
    key = ctx.key(sl, "C07-APPLY", "same-tree")

    def root(e):
        seen = set()
        while isinstance(e, ast.Name) and e.id not in seen:
            seen.add(e.id)
            defs = la.get(e.id, [])
            if len(defs) == 1 and isinstance(defs[0], ast.Name):
                e = defs[0]
            else:
                break
        return C.unparse(e)

    modelled = root(calls[0].args[0]) if calls[0].args else None
    applied = {root(n.func.value) for n in walk_local(sl.node)
               if isinstance(n, ast.Call) and isinstance(n.func, ast.Attribute)
               and n.func.attr in ("remove_ind_", "remove_ind")}
    if modelled is not None and applied == {modelled}:
        r.ok(key, C.loc(sl, calls[0]), f"SliceFinder models `{modelled}`, the tree that is sliced")
    else:
        r.violation(key, C.loc(sl, calls[0]), f"SliceFinder models `{modelled}` but the indices are "
                    f"removed from {sorted(applied)}: with reslice=True / inplace=False these are "
                    "different trees and the targets hold for the wrong one")
    return r


def rule_model(ctx):
    r = RuleResult("C07-MODEL", "the cost model only slices indices it knows, against its own baseline", 3)
    cc = ctx.p.cls(C.SLICER, "ContractionCosts")
    rm = cc.methods.get("remove")
    C.require(rm is not None, "ContractionCosts.remove not found")
    # (a) strict lookup: an index that features in no contraction (already sliced, or
    # unknown) must not be 'removed' by just multiplying nslices
    key = ctx.key(rm, "C07-MODEL", "strict-lookup")
    fl = ctx.flow(rm)
    lookups = []
    for n, call in fl.calls():
        if isinstance(call.func, ast.Attribute) and call.func.attr in ("pop", "get") and \
                "_where" in ast.unparse(call.func.value):
            lookups.append((n, call))
    subs = [n for n in walk_local(rm.node) if isinstance(n, ast.Subscript)
            and "_where" in ast.unparse(n.value) and isinstance(n.ctx, ast.Load)]
    guarded = any(isinstance(n, ast.If) and "not in" in ast.unparse(n.test)
                  and any(isinstance(x, ast.Raise) for x in n.body) for n in walk_local(rm.node))
    lenient = [c for _, c in lookups if len(c.args) >= 2 or c.func.attr == "get"]
    if (lookups or subs) and (not lenient or guarded):
        r.ok(key, rm.loc, "per-index bookkeeping is looked up strictly (unknown index raises)")
    elif lenient:
        r.violation(key, C.loc(rm, lenient[0]), "an index that features in no contraction of the "
                    "model (e.g. one the tree is already sliced on) is accepted silently: "
                    "nslices is multiplied although nothing is sliced, so the prediction "
                    "differs from the tree sliced on the returned set")
    else:
        raise AnalysisError("ContractionCosts.remove: per-index lookup not recognised")
    # (a') (seed C07_10) the model maintains every figure for every removal: no update of a figure in
    # `remove` is switched by a caller option — the object returned (and cached by the finder, and used as
    # the parent of later removals) reports .size/.flops/.nslices of the sliced contraction
    params = {a.arg for a in rm.node.args.args + rm.node.args.kwonlyargs} - {"self", "ix"}
    la = ctx.r.local_assignments(rm)

    def option_names(test):
        out = set()
        for x in ast.walk(test):
            if isinstance(x, ast.Name):
                if x.id in params:
                    out.add(x.id)
                else:
                    for v in la.get(x.id, []):
                        if {y.id for y in ast.walk(v) if isinstance(y, ast.Name)} & params and \
                                not isinstance(v, ast.IfExp):
                            out.add(x.id)
        return out
    figures = ("_flops", "_sizes", "_where", "_flop_reductions", "_write_reductions", "contractions", "nslices", "size_dict")
    n_upd = 0
    switched = []
    for n in walk_local(rm.node):
        tgt = None
        if isinstance(n, (ast.Assign, ast.AugAssign, ast.Delete)):
            tg = n.targets if not isinstance(n, ast.AugAssign) else [n.target]
            for t in tg:
                b_ = t
                while isinstance(b_, ast.Subscript):
                    b_ = b_.value
                if isinstance(b_, ast.Attribute) and b_.attr in figures:
                    tgt = b_.attr
        elif isinstance(n, ast.Expr) and isinstance(n.value, ast.Call) and isinstance(n.value.func, ast.Attribute) \
                and isinstance(n.value.func.value, ast.Attribute) and n.value.func.value.attr in figures \
                and n.value.func.attr in ("add", "discard", "pop", "remove", "update", "append"):
            tgt = n.value.func.value.attr
        if tgt is None:
            continue
        n_upd += 1
        for i, in_true in C.enclosing_ifs(rm, n):
            opts = option_names(i.test)
            if opts:
                switched.append((n, tgt, i, opts))
    key = ctx.key(rm, "C07-MODEL", "always-maintained")
    if switched:
        n, tgt, i, opts = switched[0]
        r.violation(key, C.loc(rm, n), f"the update of `{tgt}` runs only under `{C.unparse(i.test, 50)}` (caller option "
                    f"{sorted(opts)}): with it switched off the returned model — which the finder caches and derives "
                    f"later removals from — reports a `{tgt.strip('_')}` figure of a different (less sliced) contraction")
    else:
        C.require(n_upd >= 6, "ContractionCosts.remove: figure updates not recognised")
        r.ok(key, rm.loc, f"all {n_upd} figure updates are unconditional with respect to caller options")
    # (b) overhead baseline: original_flops comes from the model's own flops or is copied
    for f in cc.methods.values():
        for n in walk_local(f.node):
            val = None
            if isinstance(n, ast.Assign) and any(C.unparse(t).endswith(".original_flops")
                                                 for t in n.targets):
                val = n.value
            elif isinstance(n, ast.Call) and isinstance(n.func, ast.Attribute) and \
                    n.func.attr == "setdefault" and n.args and \
                    isinstance(n.args[0], ast.Constant) and n.args[0].value == "original_flops":
                val = n.args[1] if len(n.args) > 1 else None
            elif isinstance(n, ast.keyword) and n.arg == "original_flops":
                val = n.value
            if val is None:
                continue
            key = ctx.key(f, "C07-MODEL", "baseline")
            txt = C.unparse(val)
            own = txt in ("original_flops", "other.original_flops", "self._flops") or \
                isinstance(val, ast.Name)
            if own:
                r.ok(key, C.loc(f, n), "baseline is the model's own per-slice flops (or a copy)")
            else:
                r.violation(key, C.loc(f, n), f"the overhead baseline is taken from `{txt}`, a "
                            "figure on a different scale than the model's nslices x flops "
                            "(e.g. it already includes the tree's slice count): the reported "
                            "overhead and the target_overhead test are off by that factor")
    return r


EXACT_ATTRS = {"_flops", "_sizes", "_write", "nslices", "contractions", "_flop_reductions", "_where",
               "original_flops", "multiplicity"}


def exact_cost_divisions(ctx, funcs, rule_id, r):
    """Costs routinely exceed 2**53 and are kept as exact Python integers; a true division turns a
    figure into a float, after which running totals silently drop low-order terms.  In every
    function that writes an exact figure, no assigned value is computed with `/`."""
    for f in funcs:
        writes = False
        for n in walk_local(f.node):
            tg = []
            if isinstance(n, ast.Assign):
                tg = n.targets
            elif isinstance(n, ast.AugAssign):
                tg = [n.target]
            for t in tg:
                base = t
                while isinstance(base, ast.Subscript):
                    base = base.value
                if isinstance(base, ast.Attribute) and base.attr in EXACT_ATTRS:
                    writes = True
                if isinstance(t, ast.Subscript) and isinstance(t.slice, ast.Constant) and \
                        t.slice.value in ("flops", "size"):
                    writes = True
        if not writes:
            continue
        divs = []
        for n in walk_local(f.node):
            if isinstance(n, (ast.Assign, ast.AugAssign)):
                if isinstance(n, ast.AugAssign) and isinstance(n.op, ast.Div):
                    divs.append(n)
                for x in ast.walk(n.value):
                    if isinstance(x, ast.BinOp) and isinstance(x.op, ast.Div):
                        # ratios fed to float-valued helpers are not exact figures
                        par = f.module.parents.get(x)
                        if isinstance(par, ast.Call) and (dotted(par.func) or "").split(".")[-1] in (
                                "log", "log2", "log10", "float", "exp", "sqrt"):
                            continue
                        divs.append(n)
        key = ctx.key(f, rule_id)
        if divs:
            r.violation(key, C.loc(f, divs[0]), f"`{C.unparse(divs[0], 60)}` computes a stored cost figure with true "
                        f"division: the figure becomes a float and is exact only below 2**53, while the "
                        f"contractions worth slicing cost far more")
        else:
            r.ok(key, f.loc, "stored figures are computed with integer arithmetic only")


def rule_intcost(ctx):
    r = RuleResult("C07-INTCOST", "the cost model keeps exact integers", 2)
    cc = ctx.p.cls(C.SLICER, "ContractionCosts")
    C.require(cc is not None, "ContractionCosts not found")
    exact_cost_divisions(ctx, list(cc.methods.values()), "C07-INTCOST", r)
    return r


RULES = [rule_forbid, rule_filter, rule_agree, rule_apply, rule_model, rule_intcost]
