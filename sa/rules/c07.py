"""C07 — the slice finder's targets are honoured (structural clauses)."""

from __future__ import annotations

import ast

from ..engine.program import AnalysisError, dotted, walk_local
from ..engine.report import RuleResult
from . import common as C
from .c02 import tree_class

PID = "C07"
EXPLANATION = (
    "Structural clauses of SliceFinder, decided on the ast/CFG of slicer.py and "
    "ContractionTree.slice: (FORBID) the statement that extends the sliced set is "
    "dominated by the test `ix in self.forbidden` whose true branch raises, and "
    "`forbidden` is assigned only in __init__ and never mutated; (FILTER) every "
    "value `best` returns is min/sorted over filter(P, self.costs.items()) where P is "
    "a conjunction holding, per target kind, `not specified or attr REL target` with "
    "(size,<=), (overhead,<=), (nslices,>=) against the unscaled target; (AGREE) the "
    "three encodings of the targets (already_satisfied, the loop's stop tests, P) use "
    "the same attribute with a consistent direction; (APPLY) ContractionTree.slice "
    "removes exactly the returned indices; (ARITH) the arithmetic of the independent cost "
    "model is evaluated symbolically for one abstract contraction (monomials in the index "
    "dimensions) and equals the tree's definitions: initial totals and per-index "
    "potentials, removal deltas, stored entry, entry layout, figures; (MODELCOPY) removing "
    "an index from a cached model leaves it intact; (MODES) the three allow_outer modes; "
    "(SPECIFIED) which targets are supplied, and every target test switched by its own "
    "flag; (INTCOST) integer arithmetic only. That the model, so defined, predicts the "
    "figures of the tree sliced on the returned set *for every tree* additionally needs "
    "the tree's own updates to follow the same definitions (C04-ARITH) and is not "
    "decided beyond that."
    "Round 7: (MODELOWN) only class ContractionCosts writes a cost model's running figures (expected count zero; built-in positive example on every run). "
)
ASSUMPTIONS = ()

KINDS = {"size": ("target_size", "le"), "overhead": ("target_overhead", "le"),
         "nslices": ("target_slices", "ge")}


def _op(o):
    return {ast.LtE: "le", ast.Lt: "lt", ast.GtE: "ge", ast.Gt: "gt", ast.Eq: "eq",
            ast.NotEq: "ne"}.get(type(o), "?")


def _target_compares(expr):
    """[(attr, op, comparand text, Compare)] for compares of <x>.attr with a target"""
    out = []
    for c in [n for n in ast.walk(expr) if isinstance(n, ast.Compare)]:
        if len(c.ops) != 1:
            continue
        l, rr = c.left, c.comparators[0]
        if isinstance(l, ast.Attribute) and l.attr in KINDS:
            out.append((l.attr, _op(c.ops[0]), C.unparse(rr), c))
    return out


def _is_container_name(ctx, f, name):
    """local ``name`` is bound to a list/tuple/set display or constructor (so iterating
    it yields elements, not characters)"""
    for v in ctx.r.local_assignments(f).get(name, []):
        if isinstance(v, (ast.List, ast.Tuple, ast.Set, ast.ListComp, ast.SetComp)):
            return True
        if isinstance(v, ast.Call) and dotted(v.func) in ("list", "tuple", "set", "frozenset"):
            return True
    return False


def rule_forbid(ctx):
    r = RuleResult("C07-FORBID", "forbidden indices are never selected", 2)
    sf = ctx.p.cls(C.SLICER, "SliceFinder")
    tr = sf.methods.get("trial")
    C.require(tr is not None, "SliceFinder.trial not found")
    fl = ctx.flow(tr)
    ext = []
    for n in fl.cfg.nodes:
        if n.kind == "stmt" and isinstance(n.ast, ast.Assign):
            v = n.ast.value
            if isinstance(v, ast.BinOp) and isinstance(v.op, ast.BitOr) and \
                    "frozenset" in ast.unparse(v):
                ext.append(n)
            elif isinstance(v, ast.Call) and isinstance(v.func, ast.Attribute) and \
                    v.func.attr == "union" and "ix" in ast.unparse(v):
                ext.append(n)
    C.require(ext, "statement extending the sliced index set not recognised in trial")
    guards = []
    for n in fl.cfg.nodes:
        if n.kind == "test" and isinstance(n.ast, ast.If):
            t = n.ast.test
            if isinstance(t, ast.Compare) and len(t.ops) == 1 and isinstance(t.ops[0], ast.In) \
                    and C.unparse(t.comparators[0]) == "self.forbidden" and \
                    isinstance(n.ast.body[-1], ast.Raise):
                guards.append(n)
    for e in ext:
        key = ctx.key(tr, "C07-FORBID", "guard")
        picked = None
        if isinstance(e.ast.value, ast.BinOp):
            picked = [x.id for x in ast.walk(e.ast.value) if isinstance(x, ast.Name)]
        gs = [g for g in guards if fl.cfg.dominates(g.id, e.id)
              and C.unparse(g.ast.test.left) in (picked or [C.unparse(g.ast.test.left)])]
        if gs:
            r.ok(key, C.loc(tr, e.ast), "dominated by `ix in self.forbidden: raise`")
        else:
            r.violation(key, C.loc(tr, e.ast), "an index is added to the sliced set without the "
                        "forbidden test dominating it: with only forbidden indices left the "
                        "-inf penalty ties and a forbidden (output) index is chosen")
    # the chosen index enters the set as *one element*: set algebra with the bare label
    # (``ix_sl.union(ix)``, ``frozenset(ix)``) iterates the label's characters
    for e in ext:
        key = ctx.key(tr, "C07-FORBID", "element")
        v = e.ast.value
        added = None
        if isinstance(v, ast.BinOp):
            added = v.right if "ix_sl" in C.unparse(v.left) or isinstance(v.left, ast.Name) else v.left
        elif isinstance(v, ast.Call) and v.args:
            added = v.args[0]
        inner = added
        if isinstance(inner, ast.Call) and dotted(inner.func) in ("frozenset", "set") and inner.args:
            inner = inner.args[0]
        bare = isinstance(inner, ast.Name) and not _is_container_name(ctx, tr, inner.id)
        if added is not None and bare:
            r.violation(key, C.loc(tr, e.ast), f"`{C.unparse(v)}` builds the set from the label `{inner.id}` "
                        "itself, i.e. from its characters: for multi-character index names the recorded "
                        "set is not the set of indices removed from the cost model")
        else:
            r.ok(key, C.loc(tr, e.ast), "the chosen index is added as a single element")
    # option handling: an equality test against a truthy constant placed after a bare
    # truthiness test of the same option can never be reached
    init0 = sf.methods["__init__"]
    for n in walk_local(init0.node):
        if not isinstance(n, ast.If):
            continue
        chain, cur = [], n
        while True:
            chain.append(cur.test)
            if len(cur.orelse) == 1 and isinstance(cur.orelse[0], ast.If):
                cur = cur.orelse[0]
            else:
                break
        if init0.module.parents.get(n) is not None and isinstance(init0.module.parents.get(n), ast.If) \
                and n in init0.module.parents.get(n).orelse:
            continue  # inner link of a chain already handled
        for i, t in enumerate(chain):
            if isinstance(t, ast.Compare) and len(t.ops) == 1 and isinstance(t.ops[0], ast.Eq) and \
                    isinstance(t.left, ast.Name) and isinstance(t.comparators[0], ast.Constant) \
                    and bool(t.comparators[0].value):
                key = ctx.key(init0, "C07-FORBID", f"option:{t.left.id}={t.comparators[0].value!r}")
                shadow = [u for u in chain[:i] if isinstance(u, ast.Name) and u.id == t.left.id]
                if shadow:
                    r.violation(key, C.loc(init0, t), f"`{C.unparse(t)}` is tested after the bare truthiness "
                                f"test `{t.left.id}`; {t.comparators[0].value!r} is truthy, so this branch is "
                                "unreachable and the option silently behaves like True (no index forbidden)")
                else:
                    r.ok(key, C.loc(init0, t), "option value tested before any truthiness test of the option")
    # forbidden assigned only in __init__, never mutated
    key = ctx.key(sf.methods["__init__"], "C07-FORBID", "immutable")
    bad = None
    for f in sf.methods.values():
        for a in ctx.effects.direct(f)["access"]:
            if a.attr == "forbidden" and a.recv == "self" and a.kind != "read":
                if f.name != "__init__" or a.kind == "mutate":
                    bad = a
    if bad is None:
        r.ok(key, sf.methods["__init__"].loc, "assigned in __init__ only, never mutated")
    else:
        r.violation(key, bad.loc, "self.forbidden is changed after construction")
    # the forbidden set derives from the output when outer slicing is disallowed
    init = sf.methods["__init__"]
    fl2 = ctx.flow(init)
    vals = [n.value for n in walk_local(init.node) if isinstance(n, ast.Assign)
            and C.unparse(n.targets[0]) == "self.forbidden"]
    key = ctx.key(init, "C07-FORBID", "source")
    srcs = " ".join(C.unparse(v) for v in vals)
    if "output" in srcs:
        r.ok(key, init.loc, "forbidden set is built from the output indices", values=srcs)
    else:
        r.violation(key, init.loc, "forbidden set is not derived from the output", values=srcs)
    return r


def _valid_name(best):
    """name of the filtered candidate collection: first argument of the
    min(...)/sorted(...) that `best` returns"""
    for n in walk_local(best.node):
        if isinstance(n, ast.Return) and n.value is not None:
            v = n.value.value if isinstance(n.value, ast.Subscript) else n.value
            if isinstance(v, ast.Call) and dotted(v.func) in ("min", "sorted") and v.args and \
                    isinstance(v.args[0], ast.Name):
                return v.args[0].id
    return "valid"


def _best_filter(ctx, best):
    """(lambda/def body expr P, filter call) of `valid = filter(P, self.costs.items())`"""
    la = ctx.r.local_assignments(best)
    vs = la.get(_valid_name(best), [])
    for v in vs:
        if isinstance(v, ast.Call) and dotted(v.func) == "filter" and len(v.args) == 2:
            pred, src = v.args
            if C.unparse(src) != "self.costs.items()":
                return None, v, "filter source is not self.costs.items()"
            if isinstance(pred, ast.Lambda):
                return pred.body, v, None
            if isinstance(pred, ast.Name):
                for nf in ctx.p.nested_funcs(best):
                    if nf.name == pred.id:
                        rets = [n for n in walk_local(nf.node) if isinstance(n, ast.Return)]
                        if len(rets) == 1:
                            return rets[0].value, v, None
            return None, v, "filter predicate not recognised"
        if isinstance(v, (ast.ListComp, ast.GeneratorExp)) and \
                C.unparse(v.generators[0].iter) == "self.costs.items()" and v.generators[0].ifs:
            conds = v.generators[0].ifs
            return (conds[0] if len(conds) == 1 else ast.BoolOp(op=ast.And(), values=conds)), v, None
    return None, None, "no `valid = filter(P, self.costs.items())`"


def rule_filter(ctx):
    r = RuleResult("C07-FILTER", "returned slicing satisfies the requested target", 4)
    sf = ctx.p.cls(C.SLICER, "SliceFinder")
    best = sf.methods.get("best")
    C.require(best is not None, "SliceFinder.best not found")
    P, fcall, err = _best_filter(ctx, best)
    key = ctx.key(best, "C07-FILTER", "predicate")
    if P is None:
        r.violation(key, best.loc, f"target filter not found: {err}")
        return r
    conj = P.values if isinstance(P, ast.BoolOp) and isinstance(P.op, ast.And) else [P]
    found = {}
    for c in conj:
        for attr, op, cmpd, node in _target_compares(c):
            # clause shape: not X_specified or (x.attr REL target)
            shape_ok = isinstance(c, ast.BoolOp) and isinstance(c.op, ast.Or) and \
                isinstance(c.values[0], ast.UnaryOp) and isinstance(c.values[0].op, ast.Not)
            found[attr] = (op, cmpd, shape_ok, node)
    for attr, (tname, want) in KINDS.items():
        k = ctx.key(best, "C07-FILTER", attr)
        if attr not in found:
            r.violation(k, best.loc, f"the filter of `best` has no clause for {attr}: a returned "
                        f"slicing may miss {tname}")
            continue
        op, cmpd, shape_ok, node = found[attr]
        if op == want and cmpd == tname and shape_ok:
            r.ok(k, C.loc(best, node), f"not specified or {attr} {want} {tname}")
        else:
            r.violation(k, C.loc(best, node), f"filter clause for {attr} is `{C.unparse(node)}`; "
                        f"required `{attr} {'<=' if want == 'le' else '>='} {tname}` (unscaled)")
    # every return draws from `valid`
    k = ctx.key(best, "C07-FILTER", "returns")
    bad = None
    for n in walk_local(best.node):
        if isinstance(n, ast.Return) and n.value is not None:
            v = n.value
            if isinstance(v, ast.Subscript):
                v = v.value
            if not (isinstance(v, ast.Call) and dotted(v.func) in ("min", "sorted")
                    and v.args and C.unparse(v.args[0]) == _valid_name(best)):
                bad = n
    if bad is None:
        r.ok(k, best.loc, "every return is min/sorted over the filtered candidates")
    else:
        r.violation(k, C.loc(best, bad), "a return value of `best` bypasses the target filter",
                    ret=C.unparse(bad))
    # search returns best(...) with the same targets
    srch = sf.methods.get("search")
    k = ctx.key(srch, "C07-FILTER", "search")
    rets = [n for n in walk_local(srch.node) if isinstance(n, ast.Return)]
    ok = len(rets) == 1 and isinstance(rets[0].value, ast.Call) and \
        dotted(rets[0].value.func) == "self.best"
    if ok:
        kw = {kk.arg: C.unparse(kk.value) for kk in rets[0].value.keywords}
        ok = all(kw.get(t) == t for t in ("target_size", "target_overhead", "target_slices"))
    if ok:
        r.ok(k, srch.loc, "search returns best(...) under the same targets")
    else:
        r.violation(k, srch.loc, "search does not return self.best(...) with the caller's targets")
    return r


def rule_agree(ctx):
    r = RuleResult("C07-AGREE", "the three target encodings agree", 3)
    sf = ctx.p.cls(C.SLICER, "SliceFinder")
    tr = sf.methods.get("trial")
    la = ctx.r.local_assignments(tr)
    # the entry flag: the name negated in the search loop's ``while not <flag>``
    flag = None
    for n in walk_local(tr.node):
        if isinstance(n, ast.While) and isinstance(n.test, ast.UnaryOp) and \
                isinstance(n.test.op, ast.Not) and isinstance(n.test.operand, ast.Name):
            flag = n.test.operand.id
    sat = la.get(flag, []) if flag else []
    C.require(len(sat) == 1, "entry test (`while not <already satisfied>`) of trial not recognised")
    enc_sat = {a: (op, t) for a, op, t, _ in _target_compares(sat[0])}
    enc_loop = {}
    for n in walk_local(tr.node):
        if isinstance(n, ast.If) and any(isinstance(x, ast.Break) for x in n.body):
            for a, op, t, _ in _target_compares(n.test):
                enc_loop[a] = (op, t)
    # polarity: none of these comparisons sits under a negation
    parents = tr.module.parents
    negated = []
    for src in [sat[0]] + [n.test for n in walk_local(tr.node) if isinstance(n, ast.If)
                           and any(isinstance(x, ast.Break) for x in n.body)]:
        for a, op, t, cmpn in _target_compares(src):
            cur = cmpn
            while cur is not src and cur is not None:
                cur = parents.get(cur)
                if isinstance(cur, ast.UnaryOp) and isinstance(cur.op, ast.Not):
                    negated.append((a, C.unparse(cur, 60)))
                    break
    for a, txt in negated:
        enc_loop[a] = ("negated:" + txt, None)
    # expected: stop once size <= target; stop *before* overhead > target; stop at nslices >= target
    want = {"size": "le", "overhead": "gt", "nslices": "ge"}
    for attr, (tname, _) in KINDS.items():
        k = ctx.key(tr, "C07-AGREE", attr)
        a = enc_sat.get(attr)
        b = enc_loop.get(attr)
        if a is None or b is None:
            r.violation(k, tr.loc, f"target kind {attr} is not encoded in both the entry test and "
                        "the loop's stop tests")
        elif a == b == (want[attr], tname):
            r.ok(k, tr.loc, f"{attr} {want[attr]} {tname} in both the entry test and the loop")
        else:
            r.violation(k, tr.loc, f"inconsistent encodings of the {attr} target: entry test "
                        f"{a}, loop {b}, expected {(want[attr], tname)}")
    return r


def rule_apply(ctx):
    r = RuleResult("C07-APPLY", "ContractionTree.slice applies exactly the returned set", 3)
    tc = tree_class(ctx)
    sl = tc.lookup("slice")
    C.require(sl is not None, "ContractionTree.slice not found")
    key = ctx.key(sl, "C07-APPLY")
    la = ctx.r.local_assignments(sl)
    ok = False
    why = "loop applying the returned indices not found"
    for n in walk_local(sl.node):
        if isinstance(n, ast.For) and isinstance(n.iter, ast.Name):
            src = la.get(n.iter.id, [])
            from_search = any("search(" in C.unparse(s) for s in src)
            if not from_search:
                continue
            body = n.body
            if len(body) == 1 and isinstance(body[0], ast.Expr) and \
                    isinstance(body[0].value, ast.Call) and \
                    isinstance(body[0].value.func, ast.Attribute) and \
                    body[0].value.func.attr in ("remove_ind_", "remove_ind") and \
                    C.unparse(body[0].value.args[0]) == C.unparse(n.target):
                ok = True
            else:
                why = "the loop over the returned indices filters or transforms them"
    if ok:
        r.ok(key, sl.loc, "every returned index is removed, nothing else")
    else:
        r.violation(key, sl.loc, why)
    # the finder receives the caller's restrictions
    key = ctx.key(sl, "C07-APPLY", "options")
    calls = [n for n in walk_local(sl.node) if isinstance(n, ast.Call)
             and dotted(n.func) == "SliceFinder"]
    C.require(calls, "SliceFinder(...) in ContractionTree.slice not found")
    kw = {k.arg: C.unparse(k.value) for k in calls[0].keywords}
    need = ("target_size", "target_overhead", "target_slices", "allow_outer")
    miss = [x for x in need if kw.get(x) != x]
    if miss:
        r.violation(key, C.loc(sl, calls[0]), f"slice() does not forward {miss} to SliceFinder")
    else:
        r.ok(key, C.loc(sl, calls[0]), "targets and allow_outer forwarded")
    # the model is built from the very object the indices are then removed from
    # (with reslice / inplace=False the working tree differs from self)
    key = ctx.key(sl, "C07-APPLY", "same-tree")

    def root(e):
        seen = set()
        while isinstance(e, ast.Name) and e.id not in seen:
            seen.add(e.id)
            defs = la.get(e.id, [])
            if len(defs) == 1 and isinstance(defs[0], ast.Name):
                e = defs[0]
            else:
                break
        return C.unparse(e)

    modelled = root(calls[0].args[0]) if calls[0].args else None
    applied = {root(n.func.value) for n in walk_local(sl.node)
               if isinstance(n, ast.Call) and isinstance(n.func, ast.Attribute)
               and n.func.attr in ("remove_ind_", "remove_ind")}
    if modelled is not None and applied == {modelled}:
        r.ok(key, C.loc(sl, calls[0]), f"SliceFinder models `{modelled}`, the tree that is sliced")
    else:
        r.violation(key, C.loc(sl, calls[0]), f"SliceFinder models `{modelled}` but the indices are "
                    f"removed from {sorted(applied)}: with reslice=True / inplace=False these are "
                    "different trees and the targets hold for the wrong one")
    # (seed C07_12) every driver that accepts `allow_outer` hands it to every slicing it delegates: a delegation is
    # a call, or a dict of options, that carries a `target_size` / `target_slices` / `target_overhead`
    for f in tree_funcs_all(ctx):
        if "allow_outer" not in f.params:
            continue
        la = ctx.r.local_assignments(f)
        sites = []
        for n in walk_local(f.node):
            keys = {}
            if isinstance(n, ast.Call):
                for kx in n.keywords:
                    if kx.arg is not None:
                        keys[kx.arg] = kx.value
                    elif isinstance(kx.value, ast.Name):      # **opts with a literal dict behind it
                        for v in la.get(kx.value.id, []):
                            if isinstance(v, ast.Dict):
                                for k_, v_ in zip(v.keys, v.values):
                                    if isinstance(k_, ast.Constant):
                                        keys[k_.value] = v_
            elif isinstance(n, ast.Dict):
                for k_, v_ in zip(n.keys, n.values):
                    if isinstance(k_, ast.Constant):
                        keys[k_.value] = v_
                    elif k_ is None and isinstance(v_, ast.Name):       # {**opts, ...}
                        for v in la.get(v_.id, []):
                            if isinstance(v, ast.Dict):
                                for k2, v2 in zip(v.keys, v.values):
                                    if isinstance(k2, ast.Constant):
                                        keys[k2.value] = v2
            if keys and any(t in keys for t in ("target_size", "target_slices", "target_overhead")):
                # the dict that only *defines* hoisted options is judged where it is expanded
                sites.append((n, keys))
        for n, keys in sites:
            key = ctx.key(f, "C07-APPLY", f"forward:{len([i for i in r.instances if f.qual in i.construct])}")
            v = keys.get("allow_outer")
            if v is not None and "allow_outer" in {x.id for x in ast.walk(v) if isinstance(x, ast.Name)}:
                r.ok(key, C.loc(f, n), "the delegated slicing receives this call's allow_outer")
            else:
                r.violation(key, C.loc(f, n), f"`{C.unparse(n, 60)}` delegates a slicing search (it carries a target) without this "
                            f"function's `allow_outer`: the search runs with the default (everything allowed) and slices output "
                            f"indices although the caller disallowed it")
    return r


def tree_funcs_all(ctx):
    tc = tree_class(ctx)
    out = list(tc.methods.values())
    for c in tc.all_subclasses():
        out += [m_ for m_ in c.methods.values() if m_ not in out]
    return out


def rule_model(ctx):
    r = RuleResult("C07-MODEL", "the cost model only slices indices it knows, against its own baseline", 3)
    cc = ctx.p.cls(C.SLICER, "ContractionCosts")
    rm = cc.methods.get("remove")
    C.require(rm is not None, "ContractionCosts.remove not found")
    # (a) strict lookup: an index that features in no contraction (already sliced, or
    # unknown) must not be 'removed' by just multiplying nslices
    key = ctx.key(rm, "C07-MODEL", "strict-lookup")
    fl = ctx.flow(rm)
    lookups = []
    for n, call in fl.calls():
        if isinstance(call.func, ast.Attribute) and call.func.attr in ("pop", "get") and \
                "_where" in ast.unparse(call.func.value):
            lookups.append((n, call))
    subs = [n for n in walk_local(rm.node) if isinstance(n, ast.Subscript)
            and "_where" in ast.unparse(n.value) and isinstance(n.ctx, ast.Load)]
    guarded = any(isinstance(n, ast.If) and "not in" in ast.unparse(n.test)
                  and any(isinstance(x, ast.Raise) for x in n.body) for n in walk_local(rm.node))
    lenient = [c for _, c in lookups if len(c.args) >= 2 or c.func.attr == "get"]
    if (lookups or subs) and (not lenient or guarded):
        r.ok(key, rm.loc, "per-index bookkeeping is looked up strictly (unknown index raises)")
    elif lenient:
        r.violation(key, C.loc(rm, lenient[0]), "an index that features in no contraction of the "
                    "model (e.g. one the tree is already sliced on) is accepted silently: "
                    "nslices is multiplied although nothing is sliced, so the prediction "
                    "differs from the tree sliced on the returned set")
    else:
        raise AnalysisError("ContractionCosts.remove: per-index lookup not recognised")
    # (a') (seed C07_10) the model maintains every figure for every removal: no update of a figure in
    # `remove` is switched by a caller option — the object returned (and cached by the finder, and used as
    # the parent of later removals) reports .size/.flops/.nslices of the sliced contraction
    ixp = rm.node.args.args[1].arg if len(rm.node.args.args) > 1 else "ix"
    params = {a.arg for a in rm.node.args.args + rm.node.args.kwonlyargs} - {"self", ixp}
    la = ctx.r.local_assignments(rm)

    def option_names(test):
        out = set()
        for x in ast.walk(test):
            if isinstance(x, ast.Name):
                if x.id in params:
                    out.add(x.id)
                else:
                    for v in la.get(x.id, []):
                        if {y.id for y in ast.walk(v) if isinstance(y, ast.Name)} & params and \
                                not isinstance(v, ast.IfExp):
                            out.add(x.id)
        return out
    figures = ("_flops", "_sizes", "_where", "_flop_reductions", "_write_reductions", "contractions", "nslices", "size_dict")
    n_upd = 0
    switched = []
    for n in walk_local(rm.node):
        tgt = None
        if isinstance(n, (ast.Assign, ast.AugAssign, ast.Delete)):
            tg = n.targets if not isinstance(n, ast.AugAssign) else [n.target]
            for t in tg:
                b_ = t
                while isinstance(b_, ast.Subscript):
                    b_ = b_.value
                if isinstance(b_, ast.Attribute) and b_.attr in figures:
                    tgt = b_.attr
        elif isinstance(n, ast.Expr) and isinstance(n.value, ast.Call) and isinstance(n.value.func, ast.Attribute) \
                and isinstance(n.value.func.value, ast.Attribute) and n.value.func.value.attr in figures \
                and n.value.func.attr in ("add", "discard", "pop", "remove", "update", "append"):
            tgt = n.value.func.value.attr
        if tgt is None:
            continue
        n_upd += 1
        for i, in_true in C.enclosing_ifs(rm, n):
            opts = option_names(i.test)
            if opts:
                switched.append((n, tgt, i, opts))
    key = ctx.key(rm, "C07-MODEL", "always-maintained")
    if switched:
        n, tgt, i, opts = switched[0]
        r.violation(key, C.loc(rm, n), f"the update of `{tgt}` runs only under `{C.unparse(i.test, 50)}` (caller option "
                    f"{sorted(opts)}): with it switched off the returned model — which the finder caches and derives "
                    f"later removals from — reports a `{tgt.strip('_')}` figure of a different (less sliced) contraction")
    else:
        C.require(n_upd >= 6, "ContractionCosts.remove: figure updates not recognised")
        r.ok(key, rm.loc, f"all {n_upd} figure updates are unconditional with respect to caller options")
    # (b) overhead baseline: original_flops comes from the model's own flops or is copied
    for f in cc.methods.values():
        for n in walk_local(f.node):
            val = None
            if isinstance(n, ast.Assign) and any(C.unparse(t).endswith(".original_flops")
                                                 for t in n.targets):
                val = n.value
            elif isinstance(n, ast.Call) and isinstance(n.func, ast.Attribute) and \
                    n.func.attr == "setdefault" and n.args and \
                    isinstance(n.args[0], ast.Constant) and n.args[0].value == "original_flops":
                val = n.args[1] if len(n.args) > 1 else None
            elif isinstance(n, ast.keyword) and n.arg == "original_flops":
                val = n.value
            if val is None:
                continue
            key = ctx.key(f, "C07-MODEL", "baseline")
            txt = C.unparse(val)
            own = txt in ("original_flops", "other.original_flops", "self._flops") or \
                isinstance(val, ast.Name)
            if own:
                r.ok(key, C.loc(f, n), "baseline is the model's own per-slice flops (or a copy)")
            else:
                r.violation(key, C.loc(f, n), f"the overhead baseline is taken from `{txt}`, a "
                            "figure on a different scale than the model's nslices x flops "
                            "(e.g. it already includes the tree's slice count): the reported "
                            "overhead and the target_overhead test are off by that factor")
    return r


EXACT_ATTRS = {"_flops", "_sizes", "_write", "nslices", "contractions", "_flop_reductions", "_where",
               "original_flops", "multiplicity"}


def exact_cost_divisions(ctx, funcs, rule_id, r):
    """Costs routinely exceed 2**53 and are kept as exact Python integers; a true division turns a
    figure into a float, after which running totals silently drop low-order terms.  In every
    function that writes an exact figure, no assigned value is computed with `/`."""
    for f in funcs:
        writes = False
        for n in walk_local(f.node):
            tg = []
            if isinstance(n, ast.Assign):
                tg = n.targets
            elif isinstance(n, ast.AugAssign):
                tg = [n.target]
            for t in tg:
                base = t
                while isinstance(base, ast.Subscript):
                    base = base.value
                if isinstance(base, ast.Attribute) and base.attr in EXACT_ATTRS:
                    writes = True
                if isinstance(t, ast.Subscript) and isinstance(t.slice, ast.Constant) and \
                        t.slice.value in ("flops", "size"):
                    writes = True
        if not writes:
            continue
        divs = []
        for n in walk_local(f.node):
            if isinstance(n, (ast.Assign, ast.AugAssign)):
                if isinstance(n, ast.AugAssign) and isinstance(n.op, ast.Div):
                    divs.append(n)
                for x in ast.walk(n.value):
                    if isinstance(x, ast.BinOp) and isinstance(x.op, ast.Div):
                        # ratios fed to float-valued helpers are not exact figures
                        par = f.module.parents.get(x)
                        if isinstance(par, ast.Call) and (dotted(par.func) or "").split(".")[-1] in (
                                "log", "log2", "log10", "float", "exp", "sqrt"):
                            continue
                        divs.append(n)
        key = ctx.key(f, rule_id)
        if divs:
            r.violation(key, C.loc(f, divs[0]), f"`{C.unparse(divs[0], 60)}` computes a stored cost figure with true "
                        f"division: the figure becomes a float and is exact only below 2**53, while the "
                        f"contractions worth slicing cost far more")
        else:
            r.ok(key, f.loc, "stored figures are computed with integer arithmetic only")


def rule_intcost(ctx):
    r = RuleResult("C07-INTCOST", "the cost model keeps exact integers", 2)
    cc = ctx.p.cls(C.SLICER, "ContractionCosts")
    C.require(cc is not None, "ContractionCosts not found")
    exact_cost_divisions(ctx, list(cc.methods.values()), "C07-INTCOST", r)
    return r


def rule_arith(ctx):
    """'The predicted size/flops/slices equal what the tree reports after slicing the returned set': the
    model is an *independent* incremental re-implementation of the tree's cost definitions.  Its arithmetic
    is evaluated symbolically (sa/engine/symbolic.py: monomials in the index dimensions) for one abstract
    contraction (involved I, legs L, size S, flops F) and compared with the definition: slicing an index of
    dimension d that the contraction involves divides its flops by d, divides its size by d iff the index is
    on the result, multiplies the number of slices by d; totals move by exactly those differences."""
    from ..engine.symbolic import Interp, Poly

    r = RuleResult("C07-ARITH", "the cost model's arithmetic is the tree's cost definition", 14)
    cc = ctx.p.cls(C.SLICER, "ContractionCosts")
    C.require(cc is not None, "ContractionCosts not found")
    m = cc.module
    # --- layout of a model entry: as produced, as indexed, as unpacked
    fct = cc.methods.get("from_contraction_tree")
    C.require(fct is not None, "from_contraction_tree not found")
    layout = None
    for n in walk_local(fct.node):
        if isinstance(n, ast.Tuple) and len(n.elts) == 4:
            kinds = []
            for e in n.elts:
                g = [x.func.attr for x in ast.walk(e) if isinstance(x, ast.Call) and isinstance(x.func, ast.Attribute)
                     and x.func.attr.startswith("get_")]
                kinds.append(g[0][4:] if g else None)
            if set(kinds) == {"involved", "legs", "size", "flops"}:
                layout = kinds
    C.require(layout is not None, "from_contraction_tree: entry tuple (involved, legs, size, flops) not recognised")
    k = ctx.key(fct, "C07-ARITH", "layout")
    idx = {}
    for nm, kind in (("IDX_INVOLVED", "involved"), ("IDX_LEGS", "legs"), ("IDX_SIZE", "size"), ("IDX_FLOPS", "flops")):
        v = m.assigns.get(nm)
        if v and len(v) == 1 and isinstance(v[0], ast.Constant):
            idx[nm] = (kind, v[0].value)
    wrong = [f"{nm} = {pos} but the producer puts {kind} at {layout.index(kind)}" for nm, (kind, pos) in idx.items()
             if layout.index(kind) != pos]
    if wrong:
        r.violation(k, fct.loc, "; ".join(wrong))
    else:
        C.require(len(idx) == 4, "IDX_* constants not found")
        r.ok(k, fct.loc, f"entries are {tuple(layout)}; IDX_* constants agree")
    S, F, d, di = Poly.sym("S"), Poly.sym("F"), Poly.sym("d"), Poly.sym("di")
    entry = tuple({"involved": ("set", "I", ()), "legs": ("set", "L", ()), "size": S, "flops": F}[kd] for kd in layout)

    def report(key, f, problems, okmsg, node=None):
        if problems:
            r.violation(key, C.loc(f, node) if node is not None else f.loc, "; ".join(problems))
        else:
            r.ok(key, f.loc, okmsg)

    def eff(effects, kind, target_frag, cond=None, loop_frag=None):
        out = []
        for e in effects:
            if e.kind != kind or target_frag not in e.target:
                continue
            if loop_frag is not None and not any(loop_frag in lp for lp in e.loops):
                continue
            if cond is not None and not all((c in e.conds) for c in cond):
                continue
            out.append(e)
        return out

    # --- __init__
    f = cc.methods.get("__init__")
    C.require(f is not None, "ContractionCosts.__init__ not found")
    loops = [n for n in f.node.body if isinstance(n, ast.For)]
    C.require(loops, "ContractionCosts.__init__: loop over the contractions not found")
    lp = loops[0]
    cvar = [t.id for t in ast.walk(lp.target) if isinstance(t, ast.Name)][-1]
    env = {f"{cvar}[IDX_SIZE]": S, f"{cvar}[IDX_FLOPS]": F, "self.size_dict[ix]": d}
    it = Interp(env=env, sets={})
    # the inner loop variable's dimension
    inner = [n for n in ast.walk(lp) if isinstance(n, ast.For) and n is not lp]
    if inner and isinstance(inner[0].target, ast.Name):
        it.env0[f"self.size_dict[{inner[0].target.id}]"] = d
        ivar = inner[0].target.id
    else:
        ivar = "ix"
    effects = it.run(lp.body)
    probs = []
    e = eff(effects, "aug", "self._flops")
    if not (len(e) == 1 and e[0].delta == F and not e[0].conds and len(e[0].loops) == 0):
        probs.append(f"the per-slice flops total does not accumulate each contraction's flops once "
                     f"({[(x.op, x.value) for x in e]})")
    e = eff(effects, "call", "self._sizes.add")
    if not (len(e) == 1 and e[0].value == (S,) and not e[0].conds and len(e[0].loops) == 0):
        probs.append("the size multiset does not receive each contraction's size once")
    report(ctx.key(f, "C07-ARITH", "init-totals"), f, probs, "flops total += F, sizes.add(S) once per contraction", lp)
    probs = []
    inv_loop = f"{cvar}[IDX_INVOLVED]"
    e = eff(effects, "aug", "self._flop_reductions", loop_frag=inv_loop)
    if not (len(e) == 1 and e[0].delta == F - F.div(d) and not e[0].conds):
        probs.append(f"the potential flops reduction of an involved index is not F - F/d "
                     f"(found {[(x.op, x.value, list(x.conds)) for x in e]})")
    e = eff(effects, "call", "self._where", loop_frag=inv_loop)
    if not (len(e) == 1 and not e[0].conds and e[0].target.endswith(".add")):
        probs.append("the contraction is not registered under every index it involves")
    e = eff(effects, "aug", "self._write_reductions", loop_frag=inv_loop)
    legs_cond = (f"{ivar} in {cvar}[IDX_LEGS]", True)
    if not (len(e) == 1 and e[0].delta == S - S.div(d) and legs_cond in e[0].conds
            and len(e[0].conds) == 1):
        probs.append(f"the potential size reduction S - S/d is not added exactly for the indices on the result "
                     f"(found {[(x.op, x.value, list(x.conds)) for x in e]})")
    report(ctx.key(f, "C07-ARITH", "init-reductions"), f, probs,
           "reductions: F - F/d for involved indices, S - S/d for indices on the result; registered under every involved index", lp)
    # starting values and defaults
    probs = []
    pre = {}
    for n in f.node.body:
        if n is lp:
            break
        if isinstance(n, ast.Assign) and isinstance(n.targets[0], ast.Attribute) and dotted(n.targets[0].value) == "self":
            pre[n.targets[0].attr] = n.value
    if not (isinstance(pre.get("_flops"), ast.Constant) and pre["_flops"].value == 0):
        probs.append("the flops total does not start at 0")
    if "_sizes" not in pre or C.unparse(pre["_sizes"]) != "MaxCounter()":
        probs.append("the size multiset does not start empty")
    for a_ in ("_flop_reductions", "_write_reductions"):
        v = pre.get(a_)
        zero = isinstance(v, ast.Call) and v.args and ((isinstance(v.args[0], ast.Lambda) and
                isinstance(v.args[0].body, ast.Constant) and v.args[0].body.value == 0) or C.unparse(v.args[0]) == "int")
        if not zero:
            probs.append(f"{a_} does not start from zero for every index")
    dflt = {a.arg: dv for a, dv in zip(f.node.args.args[-len(f.node.args.defaults):], f.node.args.defaults)}
    if not (isinstance(dflt.get("nslices"), ast.Constant) and dflt["nslices"].value == 1):
        probs.append("an unsliced model does not start with nslices = 1")
    base = [n for n in f.node.body if isinstance(n, ast.If) and "original_flops" in C.unparse(n.test)]
    if base:
        t = base[0].test
        good = isinstance(t, ast.Compare) and isinstance(t.ops[0], ast.Is) and C.unparse(t.comparators[0]) == "None" \
            and any(isinstance(x, ast.Assign) and C.unparse(x.value) == "self._flops" for x in base[0].body)
        if not good:
            probs.append("the overhead baseline does not default to the model's own flops exactly when none is given")
    report(ctx.key(f, "C07-ARITH", "init-start"), f, probs, "totals start at zero, nslices defaults to 1, baseline defaults to own flops")
    # the model ranges over the intermediates only (as the tree's totals do)
    gens = [n for n in walk_local(fct.node) if isinstance(n, ast.GeneratorExp)]
    key = ctx.key(fct, "C07-ARITH", "non-leaves")
    flt = [c for g in gens for gg in g.generators for c in gg.ifs]
    good = False
    for c in flt:
        if isinstance(c, ast.Compare) and isinstance(c.left, ast.Call) and dotted(c.left.func) == "len" and \
                isinstance(c.comparators[0], ast.Constant):
            op, v = c.ops[0], c.comparators[0].value
            good = (isinstance(op, ast.NotEq) and v == 1) or (isinstance(op, ast.Gt) and v == 1) or \
                (isinstance(op, ast.GtE) and v == 2)
    src_iter = [C.unparse(gg.iter) for g in gens for gg in g.generators]
    if good and any(x.endswith(".info") or x.endswith(".children") for x in src_iter):
        r.ok(key, fct.loc, "one entry per intermediate of the tree (leaves filtered out), as in the tree's totals")
    elif any(x.endswith(".children") for x in src_iter) and not flt:
        r.ok(key, fct.loc, "one entry per intermediate of the tree")
    else:
        r.violation(key, fct.loc, f"the model's entries are not exactly the tree's intermediates (filter {[C.unparse(c) for c in flt]} "
                    f"over {src_iter}): the tree's flops/size totals range over contractions, not over input tensors")
    # --- figures
    for nm, want, desc in (("total_flops", Poly.sym("n") * Poly.sym("f"), "nslices * flops"),
                           ("overhead", Poly.sym("T").div(Poly.sym("O")), "total_flops / original_flops")):
        pf = cc.methods.get(nm)
        C.require(pf is not None, f"ContractionCosts.{nm} not found")
        env = {"self.nslices": Poly.sym("n"), "self.flops": Poly.sym("f"), "self._flops": Poly.sym("f"),
               "self.total_flops": Poly.sym("T"), "self.original_flops": Poly.sym("O")}
        if nm == "overhead":
            env["self.nslices * self.flops"] = Poly.sym("T")
        rets = eff(Interp(env=env).run(pf.node.body), "return", "")
        key = ctx.key(pf, "C07-ARITH", "figure")
        if len(rets) == 1 and rets[0].value == want:
            r.ok(key, pf.loc, f"{nm} = {desc}")
        else:
            r.violation(key, pf.loc, f"{nm} is not {desc} (found `{C.unparse(rets[0].expr) if rets else '?'}`)")
    for nm, want in (("size", "self._sizes.max()"), ("flops", "self._flops")):
        pf = cc.methods.get(nm)
        C.require(pf is not None, f"ContractionCosts.{nm} not found")
        rets = [n for n in walk_local(pf.node) if isinstance(n, ast.Return)]
        key = ctx.key(pf, "C07-ARITH", "figure")
        if len(rets) == 1 and C.unparse(rets[0].value) == want:
            r.ok(key, pf.loc, f"{nm} = {want}")
        else:
            r.violation(key, pf.loc, f"{nm} is not `{want}`")
    # --- remove
    f = cc.methods.get("remove")
    C.require(f is not None, "ContractionCosts.remove not found")
    cost = None
    for n in f.node.body:
        if isinstance(n, ast.Assign) and isinstance(n.targets[0], ast.Name) and isinstance(n.value, ast.IfExp):
            cost = n.targets[0].id
    C.require(cost is not None, "ContractionCosts.remove: working copy not found")
    loops = [n for n in f.node.body if isinstance(n, ast.For)]
    C.require(len(loops) == 1, "ContractionCosts.remove: expected one loop over the affected contractions")
    lp = loops[0]
    ivar = lp.target.id if isinstance(lp.target, ast.Name) else "i"
    IX = f.node.args.args[1].arg          # the removed index, whatever the parameter is called
    env = {f"{cost}.size_dict[{IX}]": d}
    it = Interp(env=env, tuples={f"{cost}.contractions[{ivar}]": entry})

    def on_loop(st, env_, sets_):
        if isinstance(st, ast.For) and isinstance(st.target, ast.Name) and st is not lp:
            env_[f"{cost}.size_dict[{st.target.id}]"] = di
    it.on_loop = on_loop
    effects = it.run(f.node.body)
    inloop = f"{cost}._where"
    probs = []
    e = [x for x in eff(effects, "aug", f"{cost}.nslices") if not x.loops]
    if not (len(e) == 1 and e[0].op == "Mult" and e[0].value == d and not e[0].conds):
        probs.append(f"the number of slices is not multiplied by the dimension of the removed index exactly once "
                     f"({[(x.op, x.value) for x in e]})")
    e = eff(effects, "call", f"{cost}._where.pop")
    strict = [n for n in walk_local(f.node) if isinstance(n, ast.Call) and C.unparse(n.func) == f"{cost}._where.pop"]
    if not strict or C.unparse(lp.iter) != C.unparse(strict[0]):
        probs.append("the loop does not run over the contractions registered under the removed index")
    report(ctx.key(f, "C07-ARITH", "remove-slices"), f, probs, "nslices *= d, once; loop over the contractions that involve the index", lp)
    in_legs, not_in_legs = (f"{IX} in old_legs", True), (f"{IX} in old_legs", False)
    # names of the unpacked legs may differ: find the membership test actually used
    tests = {c for x in effects for c in x.conds if c[0].startswith(f"{IX} in ")}
    if tests:
        tname = sorted(tests)[0][0]
        in_legs, not_in_legs = (tname, True), (tname, False)
    probs = []
    e = eff(effects, "aug", f"{cost}._flops", loop_frag=inloop)
    if not (e and all(x.delta == F.div(d) - F for x in e) and
            len({x.conds for x in e}) == len(e)):
        probs.append(f"the flops total does not move by F/d - F per affected contraction "
                     f"({[(x.op, x.value) for x in e[:2]]})")
    for cond, cname, want_size, want_legs in ((in_legs, "on the result", S.div(d), ("set", "L", (IX,))),
                                              (not_in_legs, "summed", S, ("set", "L", ()))):
        st = [x for x in eff(effects, "store", f"{cost}.contractions[{ivar}]") if cond in x.conds]
        if len(st) != 1 or not isinstance(st[0].value, tuple) or len(st[0].value) != 4:
            probs.append(f"index {cname}: the updated entry is not stored once as a 4-tuple")
            continue
        got = dict(zip(layout, st[0].value))
        if got["involved"] != ("set", "I", (IX,)):
            probs.append(f"index {cname}: the stored involved set is not the old one minus the index ({got['involved']})")
        if got["legs"] != want_legs:
            probs.append(f"index {cname}: the stored legs are {got['legs']}, expected {want_legs}")
        if got["size"] != want_size:
            probs.append(f"index {cname}: the stored size is {got['size']}, expected {want_size}")
        if got["flops"] != F.div(d):
            probs.append(f"index {cname}: the stored flops are {got['flops']}, expected F/d")
    report(ctx.key(f, "C07-ARITH", "remove-entry"), f, probs,
           "flops total += F/d - F; entry becomes (I - ix, L - ix, S/d, F/d) if the index is on the result, (I - ix, L, S, F/d) otherwise", lp)
    probs = []
    dis = eff(effects, "call", f"{cost}._sizes.discard", loop_frag=inloop)
    add = eff(effects, "call", f"{cost}._sizes.add", loop_frag=inloop)
    if not (len(dis) == 1 and in_legs in dis[0].conds and dis[0].value == (S,)):
        probs.append("the old size is not struck off the size multiset exactly when the index is on the result")
    if not (len(add) == 1 and in_legs in add[0].conds and add[0].value == (S.div(d),)):
        probs.append("S/d is not entered into the size multiset exactly when the index is on the result")
    report(ctx.key(f, "C07-ARITH", "remove-sizes"), f, probs, "sizes: discard(S), add(S/d) iff the index is on the result", lp)
    probs = []
    fr = eff(effects, "aug", f"{cost}._flop_reductions", loop_frag=f"set:('I', ('{IX}',))")
    want = (F.div(d) - F.div(d).div(di)) - (F - F.div(di))
    if not (fr and all(x.delta == want for x in fr)):
        got = [(x.op, x.value, x.loops[-1]) for x in eff(effects, "aug", f"{cost}._flop_reductions")][:2]
        probs.append(f"the potential flops reduction of the other involved indices does not move by "
                     f"(F/d - F/(d di)) - (F - F/di) (found {got})")
    wr = eff(effects, "aug", f"{cost}._write_reductions", loop_frag=f"set:('L', ('{IX}',))")
    want_w = (S.div(d) - S.div(d).div(di)) - (S - S.div(di))
    if not (wr and all(x.delta == want_w and in_legs in x.conds for x in wr)):
        got = [(x.op, x.value, x.loops[-1], list(x.conds)) for x in eff(effects, "aug", f"{cost}._write_reductions")][:2]
        probs.append(f"the potential size reduction of the other result indices does not move by "
                     f"(S/d - S/(d di)) - (S - S/di), only when the removed index is on the result (found {got})")
    report(ctx.key(f, "C07-ARITH", "remove-reductions"), f, probs,
           "reductions of the remaining indices move by the difference of new and old potential", lp)
    probs = []
    dels = {x.target for x in effects if x.kind == "del" and not x.loops}
    for t in (f"{cost}.size_dict[{IX}]", f"{cost}._flop_reductions[{IX}]", f"{cost}._write_reductions[{IX}]"):
        if t not in dels:
            probs.append(f"`del {t}` missing: the removed index stays a candidate")
    report(ctx.key(f, "C07-ARITH", "remove-forget"), f, probs, "the removed index leaves size_dict and both reduction tables")
    return r


def rule_modelcopy(ctx):
    """The finder derives every candidate from a cached parent with `parent.remove(ix)` (not in place): the
    parent must come out unchanged, so `remove` works on `self` only under `inplace`, and a copy owns
    every container `remove` edits."""
    r = RuleResult("C07-MODELCOPY", "removing an index from a cached model leaves the cached model intact", 3)
    cc = ctx.p.cls(C.SLICER, "ContractionCosts")
    rm, ssf, cp = cc.methods.get("remove"), cc.methods.get("_set_state_from"), cc.methods.get("copy")
    C.require(rm is not None and ssf is not None and cp is not None, "ContractionCosts.remove/_set_state_from/copy not found")
    key = ctx.key(rm, "C07-MODELCOPY", "working-copy")
    ife = [n for n in rm.node.body if isinstance(n, ast.Assign) and isinstance(n.value, ast.IfExp)]
    C.require(ife, "ContractionCosts.remove: working copy not found")
    v = ife[0].value
    tname = dotted(v.test)
    if tname == "inplace" and dotted(v.body) == "self" and C.unparse(v.orelse) == "self.copy()":
        r.ok(key, C.loc(rm, ife[0]), "self only under `inplace`, otherwise a copy")
    elif isinstance(v.test, ast.UnaryOp) and isinstance(v.test.op, ast.Not) and dotted(v.test.operand) == "inplace" and \
            dotted(v.orelse) == "self" and C.unparse(v.body) == "self.copy()":
        r.ok(key, C.loc(rm, ife[0]), "self only under `inplace`, otherwise a copy")
    else:
        r.violation(key, C.loc(rm, ife[0]), f"`{C.unparse(v)}`: with inplace=False the cached parent model itself is edited "
                    f"(every entry of the finder's cache derived from it afterwards starts from a wrong state)")
    # attributes edited in place by remove
    cost = ife[0].targets[0].id
    edited = set()
    for n in walk_local(rm.node):
        t = None
        if isinstance(n, (ast.Assign, ast.AugAssign, ast.Delete)):
            for tt in (n.targets if not isinstance(n, ast.AugAssign) else [n.target]):
                if isinstance(tt, ast.Subscript) and isinstance(tt.value, ast.Attribute) and dotted(tt.value.value) == cost:
                    edited.add(tt.value.attr)
        elif isinstance(n, ast.Call) and isinstance(n.func, ast.Attribute) and isinstance(n.func.value, ast.Attribute) \
                and dotted(n.func.value.value) == cost and n.func.attr in ("pop", "add", "discard", "remove", "append", "update"):
            edited.add(n.func.value.attr)
    slots = C.str_consts(cc.class_assigns.get("__slots__")) if "__slots__" in cc.class_assigns else None
    C.require(slots, "ContractionCosts.__slots__ not found")
    transfer = {}
    for n in ssf.node.body:
        if isinstance(n, ast.Assign) and isinstance(n.targets[0], ast.Attribute) and dotted(n.targets[0].value) == "self":
            transfer[n.targets[0].attr] = n.value
    key = ctx.key(ssf, "C07-MODELCOPY", "transfer")
    probs = []
    for a_ in slots:
        v = transfer.get(a_)
        if v is None:
            probs.append(f"`{a_}` is not transferred: a copy lacks it")
            continue
        src_ok = a_ in C.unparse(v) and "other." in C.unparse(v)
        if not src_ok:
            probs.append(f"`{a_}` is transferred from `{C.unparse(v, 40)}`")
        if a_ in edited and not (isinstance(v, ast.Call) and isinstance(v.func, ast.Attribute) and v.func.attr in ("copy",)
                                 or (isinstance(v, ast.Call) and dotted(v.func) in ("dict", "list", "set", "copy.copy", "copy.deepcopy"))):
            probs.append(f"`{a_}` is edited in place by remove() but shared with the copy (`{C.unparse(v, 40)}`)")
    if probs:
        r.violation(key, ssf.loc, "; ".join(probs))
    else:
        r.ok(key, ssf.loc, f"all {len(slots)} slots transferred; {sorted(edited)} (edited in place by remove) by copy")
    key = ctx.key(cp, "C07-MODELCOPY", "copy")
    calls = [n for n in walk_local(cp.node) if isinstance(n, ast.Call) and isinstance(n.func, ast.Attribute)
             and n.func.attr == "_set_state_from" and n.args and dotted(n.args[0]) == "self"]
    rets = [n for n in walk_local(cp.node) if isinstance(n, ast.Return)]
    if calls and rets and dotted(rets[0].value) == dotted(calls[0].func.value):
        r.ok(key, cp.loc, "a new object receives the state and is returned")
    else:
        r.violation(key, cp.loc, "copy() does not return a new object that received this object's state")
    return r


def rule_modes(ctx):
    """`allow_outer` has three values; which indices are forbidden under each is a small decision table in
    `SliceFinder.__init__`: False -> the output indices, "only" -> everything *except* the output indices,
    True -> nothing.  The table is read off the branch structure."""
    r = RuleResult("C07-MODES", "the forbidden set implements the three allow_outer modes", 3)
    sf = ctx.p.cls(C.SLICER, "SliceFinder")
    f = sf.methods["__init__"]
    stores = [n for n in walk_local(f.node) if isinstance(n, ast.Assign) and
              any(C.unparse(t) == "self.forbidden" for t in n.targets)]
    C.require(stores, "SliceFinder.__init__: stores to self.forbidden not found")
    base, invert, empty = [], [], []
    for n in stores:
        v = n.value
        txt = C.unparse(v)
        if isinstance(v, ast.BinOp) and isinstance(v.op, ast.Sub) and "self.forbidden" in C.unparse(v.right):
            invert.append(n)
        elif isinstance(v, ast.BinOp):
            invert.append(n)
        elif txt in ("()", "set()", "frozenset()", "[]", "{}"):
            empty.append(n)
        elif "output" in txt:
            base.append(n)
        else:
            base.append(n)
    # (1) base: every way of constructing the finder starts from the output indices
    key = ctx.key(f, "C07-MODES", "disallowed")
    fl = ctx.flow(f)
    bad = [n for n in base if "output" not in C.unparse(n.value)]
    base_nodes = [fl.cfg.containing(n, f.module.parents).id for n in base if n not in bad]
    later = (invert + empty)
    ok_paths = bool(base_nodes) and all(
        fl.cfg.all_paths_pass(fl.cfg.entry.id, base_nodes, dst=fl.cfg.containing(x, f.module.parents).id) for x in later) \
        and fl.cfg.all_paths_pass(fl.cfg.entry.id, base_nodes)
    if bad:
        r.violation(key, C.loc(f, bad[0]), f"`{C.unparse(bad[0])}`: with outer slicing disallowed the forbidden set is "
                    f"not the set of output indices")
    elif not ok_paths:
        r.violation(key, f.loc, "on some path through the constructor the forbidden set is never initialised from "
                    "the output indices (allow_outer=False then forbids nothing, or the attribute is missing)")
    else:
        r.ok(key, C.loc(f, base[0]), "every construction path starts from forbidden = set(output indices)")
    # (2) "only": complement with respect to all indices of the model, under == "only"
    key = ctx.key(f, "C07-MODES", "only")
    if len(invert) != 1:
        r.violation(key, f.loc, f"expected one store inverting the forbidden set for allow_outer='only', found {len(invert)}")
    else:
        n = invert[0]
        v = n.value
        g = C.enclosing_ifs(f, n)
        t = g[0][0].test if g else None
        is_only = g and g[0][1] and isinstance(t, ast.Compare) and len(t.ops) == 1 and isinstance(t.ops[0], ast.Eq) and \
            C.unparse(t.left) == "allow_outer" and isinstance(t.comparators[0], ast.Constant) and t.comparators[0].value == "only"
        form = isinstance(v.op, ast.Sub) and "size_dict" in C.unparse(v.left) and C.unparse(v.right) == "self.forbidden"
        if is_only and form:
            r.ok(key, C.loc(f, n), "under allow_outer == 'only': all indices minus the output indices")
        else:
            r.violation(key, C.loc(f, n), f"`{C.unparse(n)}` under `{C.unparse(t) if t is not None else 'no test'}`: with "
                        f"allow_outer='only' the forbidden set must be (all indices) - (output indices), and only then")
    # (3) True: nothing forbidden, under plain truthiness of the option (after the 'only' test)
    key = ctx.key(f, "C07-MODES", "allowed")
    if len(empty) != 1:
        r.violation(key, f.loc, f"expected one store emptying the forbidden set for allow_outer=True, found {len(empty)}")
    else:
        n = empty[0]
        g = C.enclosing_ifs(f, n)
        t = g[0][0].test if g else None
        pos = g and g[0][1] and (C.unparse(t) in ("allow_outer", "allow_outer is True", "allow_outer == True"))
        if pos:
            r.ok(key, C.loc(f, n), "nothing forbidden exactly when allow_outer is true (and not 'only')")
        else:
            r.violation(key, C.loc(f, n), f"the forbidden set is emptied under `{C.unparse(t) if t is not None else 'no test'}`"
                        f"{'' if (g and g[0][1]) else ' (else branch)'}: output indices become sliceable although outer "
                        f"slicing was disallowed (or stay forbidden although it was allowed)")
    return r


def rule_specified(ctx):
    """A target counts as 'supplied' iff it is not None after the call's value replaced the finder's default;
    every test against a target is switched by the flag of *that* target."""
    r = RuleResult("C07-SPECIFIED", "which targets are supplied is decided the same way everywhere", 8)
    sf = ctx.p.cls(C.SLICER, "SliceFinder")
    targets = [t for t, _ in KINDS.values()]
    md = sf.methods.get("_maybe_default")
    C.require(md is not None, "SliceFinder._maybe_default not found")
    key = ctx.key(md, "C07-SPECIFIED", "default")
    ifs = [n for n in md.node.body if isinstance(n, ast.If)]
    good = False
    if ifs:
        t = ifs[0].test
        pname = md.node.args.args[2].arg if len(md.node.args.args) > 2 else None
        if isinstance(t, ast.Compare) and isinstance(t.ops[0], ast.Is) and C.unparse(t.comparators[0]) == "None" \
                and dotted(t.left) == pname and any(isinstance(x, ast.Return) and "getattr(self" in C.unparse(x) for x in ifs[0].body):
            rest = [x for x in md.node.body if isinstance(x, ast.Return)]
            good = bool(rest) and dotted(rest[0].value) == pname
    if good:
        r.ok(key, md.loc, "the finder's own setting is used exactly when the call passes None")
    else:
        r.violation(key, md.loc, "_maybe_default does not return the finder's setting iff the given value is None: a target "
                    "supplied per call is ignored, or the finder's targets are")
    init = sf.methods["__init__"]
    key = ctx.key(init, "C07-SPECIFIED", "stored")
    miss = []
    for t in targets:
        st = [n for n in walk_local(init.node) if isinstance(n, ast.Assign) and C.unparse(n.targets[0]) == f"self.{t}"]
        if not st or C.unparse(st[0].value) != t:
            miss.append(t)
    if miss:
        r.violation(key, init.loc, f"the constructor does not store {miss} under its own name")
    else:
        r.ok(key, init.loc, "the constructor stores each target under its own name")
    for fn in ("best", "trial"):
        f = sf.methods.get(fn)
        C.require(f is not None, f"SliceFinder.{fn} not found")
        la = ctx.r.local_assignments(f)
        # resolution of the effective targets
        key = ctx.key(f, "C07-SPECIFIED", "resolve")
        bad = []
        for t in targets:
            vs = [v for v in la.get(t, []) if isinstance(v, ast.Call) and C.call_name(v) == "_maybe_default"]
            if len(vs) != 1 or len(vs[0].args) != 2 or not isinstance(vs[0].args[0], ast.Constant) or \
                    vs[0].args[0].value != t or dotted(vs[0].args[1]) != t:
                bad.append(t)
        if bad:
            r.violation(key, f.loc, f"{bad}: the effective target is not `_maybe_default('<same name>', <same parameter>)`")
        else:
            r.ok(key, f.loc, "each effective target = the call's value, else the finder's setting of the same name")
        # flags
        flags = {}
        for nm, vs in la.items():
            for v in vs:
                if isinstance(v, ast.Compare) and len(v.ops) == 1 and dotted(v.left) in targets and \
                        C.unparse(v.comparators[0]) == "None":
                    flags[nm] = (dotted(v.left), type(v.ops[0]).__name__)
        key = ctx.key(f, "C07-SPECIFIED", "flags")
        wrong = [f"{nm} = {t} {op} None" for nm, (t, op) in flags.items() if op not in ("IsNot", "NotEq")]
        if wrong or {t for t, _ in flags.values()} != set(targets):
            r.violation(key, f.loc, f"'supplied' flags {wrong or sorted(flags)}: a target must count as supplied exactly when "
                        f"it is not None")
            continue
        r.ok(key, f.loc, f"{sorted(flags)} = `<target> is not None`")
        # every comparison with a target is switched by the flag of the same target
        key = ctx.key(f, "C07-SPECIFIED", "switch")
        probs = []
        parents = f.module.parents
        flag_of = {t: nm for nm, (t, _) in flags.items()}
        ncmp = 0
        for attr, op, tname, cmpn in _target_compares(f.node):
            if tname not in flag_of:
                continue
            ncmp += 1
            want = flag_of[tname]
            par = parents.get(cmpn)
            ok_ = False
            if isinstance(par, ast.BoolOp):
                others = [x for x in par.values if x is not cmpn]
                if isinstance(par.op, ast.And):
                    ok_ = any(isinstance(x, ast.Name) and x.id == want for x in others)
                else:
                    ok_ = any(isinstance(x, ast.UnaryOp) and isinstance(x.op, ast.Not) and
                              isinstance(x.operand, ast.Name) and x.operand.id == want for x in others)
            if not ok_:
                probs.append(f"`{C.unparse(cmpn)}` is not switched by `{want}` (found `{C.unparse(par, 70) if par is not None else ''}`)")
        if probs or ncmp < 3:
            r.violation(key, f.loc, "; ".join(probs) or "fewer than three target tests found")
        else:
            r.ok(key, f.loc, f"all {ncmp} tests against a target are `flag and test` / `not flag or test` with the flag of that target")
    return r


_MUTATORS = {"add", "discard", "remove", "update", "pop", "popitem", "clear", "append", "extend", "insert", "setdefault",
             "subtract", "sort", "reverse", "__setitem__", "__delitem__"}


def rule_modelown(ctx):
    """(seed C07_14) The predicted size / cost / number of slices are those of the tree actually sliced only while the
    model's running figures are the ones its own constructor and `remove` derive from the contractions.  Ownership:
    outside class ContractionCosts nothing stores into, deletes from, augments or calls a mutating method on a
    model's state attributes (a finder that drops 'uninteresting' sizes from `cost0._sizes` predicts a smaller
    largest-intermediate than `tree.max_size()` of the sliced tree)."""
    r = RuleResult("C07-MODELOWN", "only ContractionCosts writes a cost model's running figures", 1)
    cc = ctx.p.cls(C.SLICER, "ContractionCosts")
    C.require(cc is not None, "ContractionCosts not found")
    slots = None
    for st in cc.node.body:
        if isinstance(st, ast.Assign) and any(isinstance(t, ast.Name) and t.id == "__slots__" for t in st.targets):
            slots = C.str_consts(st.value)
    C.require(slots and len(slots) >= 6, "ContractionCosts.__slots__ not found")
    private = {a for a in slots if a.startswith("_")}
    public = set(slots) - private
    n_funcs = 0
    bad = []
    for m in ctx.p.modules.values():
        parents = m.parents
        for f in m.all_funcs:
            if f.cls is not None and f.cls.name == "ContractionCosts" and f.module.path == C.SLICER:
                continue
            n_funcs += 1
            for n in walk_local(f.node):
                if not isinstance(n, ast.Attribute):
                    continue
                recv = C.unparse(n.value, 80)
                is_model = "cost" in recv.lower()
                if not ((n.attr in private and (is_model or f.module.path == C.SLICER)) or (n.attr in public and is_model)):
                    continue
                # a tree has `_flops` / `_sizes` too
                if recv in ("self", "tree", "other", "new") and not (f.module.path == C.SLICER):
                    continue
                par = parents.get(n)
                how = None
                if isinstance(n.ctx, (ast.Store, ast.Del)):
                    how = "assigns" if isinstance(n.ctx, ast.Store) else "deletes"
                elif isinstance(par, ast.AugAssign) and par.target is n:
                    how = "augments"
                elif isinstance(par, ast.Subscript) and par.value is n and isinstance(par.ctx, (ast.Store, ast.Del)):
                    how = "stores into"
                elif isinstance(par, ast.Subscript) and par.value is n and isinstance(parents.get(par), ast.AugAssign) and parents.get(par).target is par:
                    how = "augments an entry of"
                elif isinstance(par, ast.Attribute) and par.value is n and par.attr in _MUTATORS and isinstance(parents.get(par), ast.Call) \
                        and parents.get(par).func is par:
                    how = f"calls .{par.attr}() on"
                if how:
                    bad.append((f, n, how, recv))
    k = f"{C.SLICER}::ContractionCosts::C07-MODELOWN"
    if bad:
        for f, n, how, recv in bad:
            r.violation(f"{f.module.path}::{f.qual}::C07-MODELOWN::{recv}.{n.attr}", C.loc(f, n),
                        f"{f.qual} {how} `{recv}.{n.attr}`: the model's figures no longer follow from its contractions, so the size / cost it "
                        "predicts for a set of indices is not that of the tree sliced on them")
    else:
        r.ok(k, C.loc(cc, cc.node), f"no write to {sorted(slots)} of a cost model outside its class ({n_funcs} functions scanned)")
        if not getattr(ctx, "_is_positive_example", False):
            src = ctx.p.sources[C.SLICER]
            r.note(C.positive_example(
                ctx, rule_modelown,
                [(C.SLICER, None, src + "\n\ndef _c07_modelown_positive_example(finder):\n    finder.cost0._sizes.discard(1)\n")],
                "_c07_modelown_positive_example"))
    return r


def _shared_rules():
    """The model's predictions equal the figures of the sliced tree only if the tree's own slicing arithmetic follows the same definitions."""
    out = []

    def _mk(src_mod="c04", fn="rule_arith", old="C04-ARITH", new="C07-TREEARITH", mn=3):
        def rule(ctx):
            import importlib
            srcf = getattr(importlib.import_module("sa.rules." + src_mod), fn)
            return C.reuse_rule(ctx, srcf, old, new, "shared clause of " + old + " (also a necessary condition here)", lambda i: True, mn)
        rule.__name__ = "shared_" + new.lower().replace("-", "_")
        return rule
    out.append(_mk())
    return out


RULES = [rule_modelown, rule_forbid, rule_filter, rule_agree, rule_apply, rule_model, rule_intcost, rule_arith, rule_modelcopy,
         rule_modes, rule_specified] + _shared_rules()
