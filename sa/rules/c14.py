"""C14 — a reusable optimizer's cache hit is a correct answer (structural clauses)."""

from __future__ import annotations

import ast

from ..engine.program import AnalysisError, dotted, walk_local
from ..engine.report import RuleResult
from . import common as C

PID = "C14"
EXPLANATION = (
    "Structural clauses of the reusable optimizers, decided on reusable.py, hyper.py "
    "and path_basic.py: (FPDET) contraction fingerprints are hashlib digests of a "
    "value-canonical byte encoding — no builtin hash()/id(), no iteration of a "
    "set/dict that is not sorted, and pickle.dumps only where no label string can "
    "occur twice in the pickled structure (pickle's memo makes the bytes depend on "
    "object identity otherwise); (FPCOV) both fingerprint methods depend on inputs, "
    "output and size_dict; (FPPOS) tensor positions are preserved (sorting only "
    "inside a term), since cached paths are positional; (POLICY) in "
    "_maybe_run_optimizer every search is dominated by should_run and by the raising "
    "cache_only test, a hit returns the stored record without searching, under "
    "overwrite='improved' the store is dominated by new score < old score and the "
    "other branch hands back the old record, and lookup and store use the key of one "
    "hash_query; same for update_from_tree; (SCHEMA) every writer of a cache record "
    "produces the keys every reader consumes, and a reader that rebuilds a tree "
    "re-applies every stored sliced index unconditionally unless its writer stores "
    "the constant () / its constructor rejects slicing options. That a reconstructed "
    "tree equals the searched one is not decided. "
    "Later rounds added: "
    "(OVERWRITE) the durable store's publish step displaces an existing record; "
    "(OBJECTIVE) the objective a wrapper stores depends on the same constructor "
    "parameters its sub-optimizer folds into its own. "
    'Round 7: (FPCOV labelled-sizes) sizes enter the fingerprint as (label, size) pairs. '
)
ASSUMPTIONS = (
    "hashlib digests are collision-free for the purpose of the property",
    "auto_hash_path_relevant_opts fingerprints options (directory naming), not contractions",
)

RECORD_KEYS = {"path", "score", "sliced_inds"}


def _inline(ctx, f, e, depth=0):
    """expression with single-assignment locals inlined (best effort)"""
    if depth > 6:
        return e
    if isinstance(e, ast.Name):
        la = ctx.r.local_assignments(f).get(e.id, [])
        if len(la) == 1 and e.id not in f.params:
            return _inline(ctx, f, la[0], depth + 1)
    return e


def _param_mentions(ctx, f, e, under_values=False, depth=0, out=None):
    """parameters reaching expression e as *labels* (not under .values())"""
    out = out if out is not None else set()
    if depth > 8:
        return out
    if isinstance(e, ast.Name):
        la = ctx.r.local_assignments(f).get(e.id, [])
        if e.id in f.params and not la:
            out.add(e.id)
        elif len(la) == 1:
            _param_mentions(ctx, f, la[0], under_values, depth + 1, out)
        elif e.id in f.params:
            out.add(e.id)
        return out
    if isinstance(e, ast.Call) and isinstance(e.func, ast.Attribute) and \
            e.func.attr == "values" and not e.args:
        return out  # labels (keys) are dropped
    if isinstance(e, ast.Call) and dotted(e.func) in ("len", "int", "bool", "sum", "min", "max"):
        return out  # a number: no label object reaches the pickled structure through it
    for ch in ast.iter_child_nodes(e):
        if isinstance(ch, (ast.expr, ast.keyword, ast.comprehension)):
            if isinstance(ch, ast.keyword):
                ch = ch.value
            if isinstance(ch, ast.comprehension):
                _param_mentions(ctx, f, ch.iter, under_values, depth + 1, out)
                continue
            _param_mentions(ctx, f, ch, under_values, depth + 1, out)
    return out


def _fp_funcs(ctx):
    m = ctx.p.module(C.REUSABLE)
    fs = []
    for name in ("hash_contraction_a", "hash_contraction_b"):
        f = m.funcs.get(name)
        C.require(f is not None, f"{name} not found")
        fs.append(f)
    for f in m.funcs.values():
        if f.name.startswith("hash_contraction_") and f not in fs:
            fs.append(f)
    return fs


def rule_fpdet(ctx):
    r = RuleResult("C14-FPDET", "fingerprints are deterministic functions of values", 4)
    for f in _fp_funcs(ctx):
        problems = {}  # discriminator -> (node, why)
        digest = None
        for n in walk_local(f.node):
            if isinstance(n, ast.Call):
                d = dotted(n.func)
                if d in ("hash", "id"):
                    problems["builtin-hash"] = (n, f"builtin {d}() is process/identity dependent")
                if d and d.startswith("hashlib."):
                    digest = n
                if d in ("tuple", "list", "str", "repr", "sortedtuple") and n.args:
                    a = n.args[0]
                    if d != "sortedtuple" and isinstance(a, ast.Call) and \
                            dotted(a.func) in ("set", "frozenset"):
                        problems["set-order"] = (n, "iterates a set in hash order")
                if d in ("str", "repr", "format") and n.args:
                    problems["format"] = (n, f"{d}() formatting of values")
            # any set/frozenset built inside a fingerprint function must be consumed by
            # an order-normalising function before it can reach the digest
            is_set = isinstance(n, (ast.Set, ast.SetComp)) or (
                isinstance(n, ast.Call) and dotted(n.func) in ("set", "frozenset"))
            if is_set:
                par = f.module.parents.get(n)
                wrapped = isinstance(par, ast.Call) and n in par.args and \
                    (dotted(par.func) or "") in ("sorted", "sortedtuple", "len", "min", "max",
                                                 "sum", "any", "all", "bool")
                membership = isinstance(par, ast.Compare)
                if not wrapped and not membership:
                    problems["set-order"] = (n, "a set/frozenset (iteration and pickle order "
                                             "follow the per-process string hash) is used in the "
                                             "fingerprint without sorting")
        key = ctx.key(f, "C14-FPDET", "digest")
        if digest is None:
            r.violation(key, f.loc, "fingerprint is not a hashlib digest")
            continue
        r.ok(key, C.loc(f, digest), "hashlib digest")
        # encoder
        enc = digest.args[0] if digest.args else None
        if isinstance(enc, ast.Call) and dotted(enc.func) == "pickle.dumps":
            srcs = _param_mentions(ctx, f, enc.args[0])
            label_srcs = srcs & {"inputs", "output", "size_dict"}
            if len(label_srcs) > 1:
                problems["pickle-identity"] = (
                    enc, "pickle.dumps is identity-sensitive: index labels from "
                    f"{sorted(label_srcs)} occur more than once in the pickled structure, so "
                    "equal-but-distinct string objects change the bytes (memo back-references)")
        for disc in ("builtin-hash", "set-order", "format", "pickle-identity"):
            key = ctx.key(f, "C14-FPDET", disc)
            if disc in problems:
                n, why = problems[disc]
                r.violation(key, C.loc(f, n), why)
            elif disc == "pickle-identity":
                r.ok(key, f.loc, "value-canonical encoding (each label pickled at most once)")
    return r


def rule_fpcov(ctx):
    r = RuleResult("C14-FPCOV", "fingerprints cover inputs, output and size_dict", 2)
    for f in _fp_funcs(ctx):
        key = ctx.key(f, "C14-FPCOV")
        fl = ctx.flow(f)
        rets = [n for n in fl.returns() if n.ast.value is not None]
        missing = set()
        for n in rets:
            deps = fl.deps(n.ast.value, n.id)
            ps = {d[1] for d in deps if d[0] == "param"}
            missing |= {"inputs", "output", "size_dict"} - ps
        if missing or not rets:
            r.violation(key, f.loc, f"the fingerprint does not depend on {sorted(missing)}: "
                        "contractions differing only there share a cache entry")
        else:
            r.ok(key, f.loc, "depends on inputs, output and size_dict")
        # (F23) the fingerprint determines the *number* of tensors: an element-per-input structure does, a
        # structure built per index (incidence lists) does not — a tensor without indices leaves no trace in it,
        # so `ab,bc` and `ab,bc,` (plus a scalar) would share a record and the stored path would be incomplete
        key2 = ctx.key(f, "C14-FPCOV", "count")
        dumps = [n for n in walk_local(f.node) if isinstance(n, ast.Call) and (dotted(n.func) or "").endswith("dumps") and n.args]
        if not dumps:
            r.exempt(key2, f.loc, "no pickled structure recognised: tensor count not decided")
            continue
        struct = dumps[0].args[0]
        per_input = False
        has_len = False
        for x in ast.walk(struct):
            if isinstance(x, ast.Call) and dotted(x.func) == "len" and x.args and dotted(x.args[0]) == "inputs":
                has_len = True
            if isinstance(x, ast.Call) and dotted(x.func) in ("tuple", "list") and x.args:
                a0 = x.args[0]
                if isinstance(a0, ast.Call) and dotted(a0.func) == "map" and len(a0.args) == 2 and dotted(a0.args[1]) == "inputs":
                    per_input = True
                if isinstance(a0, (ast.GeneratorExp, ast.ListComp)) and dotted(a0.generators[0].iter) == "inputs" \
                        and not a0.generators[0].ifs and len(a0.generators) == 1:
                    per_input = True
        # locals of the structure that are themselves len(inputs)
        la = ctx.r.local_assignments(f)
        for x in ast.walk(struct):
            if isinstance(x, ast.Name) and any(C.unparse(v) == "len(inputs)" for v in la.get(x.id, [])):
                has_len = True
        if per_input or has_len:
            r.ok(key2, C.loc(f, dumps[0]), "the hashed structure has one element per tensor" if per_input
                 else "the hashed structure contains the number of tensors")
        else:
            r.violation(key2, C.loc(f, dumps[0]), "the hashed structure is built per *index* and does not contain the number of "
                        "tensors: a contraction with an extra index-free tensor (a scalar factor) has the same fingerprint, so "
                        "the path recorded for the smaller contraction is returned for it — an incomplete path")
    # (seed C14_12) sizes enter the fingerprint *with their labels*: a size dictionary may carry labels the terms do not
    # use, so a bare sequence of sizes (in whatever order) lets two dictionaries with the same multiset-in-order but other
    # sizes on the used indices share an entry
    for f in _fp_funcs(ctx):
        key3 = ctx.key(f, "C14-FPCOV", "labelled-sizes")
        la = ctx.r.local_assignments(f)
        dumps = [n for n in walk_local(f.node) if isinstance(n, ast.Call) and (dotted(n.func) or "").endswith("dumps") and n.args]
        if not dumps:
            r.exempt(key3, f.loc, "no pickled structure recognised: pairing of sizes and labels not decided")
            continue

        def carriers(e, depth=0):
            """sub-expressions of the hashed structure that mention size_dict (through single-definition locals)"""
            out = []
            for x in ast.walk(e):
                if isinstance(x, ast.Name) and x.id != "size_dict" and depth < 3:
                    for v in la.get(x.id, []):
                        out += carriers(v, depth + 1)
            if any(isinstance(x, ast.Name) and x.id == "size_dict" for x in ast.walk(e)):
                out.append(e)
            return out

        cs = carriers(dumps[0].args[0])
        paired = bare = None
        for c in cs:
            for x in ast.walk(c):
                if isinstance(x, ast.Call) and isinstance(x.func, ast.Attribute) and x.func.attr == "items" and dotted(x.func.value) == "size_dict":
                    paired = x
                if isinstance(x, (ast.GeneratorExp, ast.ListComp, ast.SetComp)) and any(dotted(g.iter) == "size_dict" or
                        (isinstance(g.iter, ast.Call) and any(dotted(a) == "size_dict" for a in g.iter.args)) for g in x.generators):
                    tv = {n_.id for g in x.generators for n_ in ast.walk(g.target) if isinstance(n_, ast.Name)}
                    elt_names = {n_.id for n_ in ast.walk(x.elt) if isinstance(n_, ast.Name)}
                    has_value = any(isinstance(y, ast.Subscript) and dotted(y.value) == "size_dict" for y in ast.walk(x.elt))
                    label_outside_subscript = any(isinstance(y, ast.Name) and y.id in tv and not isinstance(f.module.parents.get(y), ast.Subscript)
                                                  for y in ast.walk(x.elt))
                    if has_value and not (isinstance(x.elt, ast.Tuple) and label_outside_subscript):
                        bare = x
                    elif has_value:
                        paired = x
                if isinstance(x, ast.Call) and isinstance(x.func, ast.Attribute) and x.func.attr == "values" and dotted(x.func.value) == "size_dict":
                    bare = x
        if bare is not None:
            r.violation(key3, C.loc(f, bare), f"`{C.unparse(bare, 70)}` puts the sizes into the fingerprint without their labels: a size dictionary may "
                        "carry labels the terms do not use, so two queries with the same terms but other sizes on the used indices can share an "
                        "entry — the second is answered with the first one's path and score")
        elif paired is not None:
            r.ok(key3, C.loc(f, paired), "sizes enter the fingerprint as (label, size) pairs")
        else:
            r.exempt(key3, f.loc, "how size_dict enters the hashed structure was not recognised: not decided")
    return r


def rule_fppos(ctx):
    r = RuleResult("C14-FPPOS", "tensor positions are preserved by the fingerprint", 2)
    m = ctx.p.module(C.REUSABLE)
    fa = m.funcs["hash_contraction_a"]
    key = ctx.key(fa, "C14-FPPOS")
    # find the sub-expression carrying `inputs` in the digest input
    carrier = None
    for n in walk_local(fa.node):
        if isinstance(n, ast.Call) and any(
                isinstance(x, ast.Name) and x.id == "inputs" for x in ast.walk(n)):
            # outermost call containing `inputs` below the pickled tuple
            par = fa.module.parents.get(n)
            if isinstance(par, ast.Tuple):
                carrier = n
    if carrier is None:
        r.violation(key, fa.loc, "cannot find how `inputs` enters the fingerprint")
    else:
        outer = dotted(carrier.func)
        order_preserving = outer in ("tuple", "list") and carrier.args and (
            isinstance(carrier.args[0], ast.Call) and dotted(carrier.args[0].func) == "map"
            or isinstance(carrier.args[0], (ast.GeneratorExp, ast.ListComp, ast.Name)))
        if order_preserving:
            r.ok(key, C.loc(fa, carrier), "terms are normalised individually; their order "
                 "(tensor positions) is kept", expr=C.unparse(carrier))
        else:
            r.violation(key, C.loc(fa, carrier), f"`inputs` enters the fingerprint through "
                        f"{outer}(...), which forgets tensor positions: a permutation of the "
                        "tensors would hit an entry whose positional path pairs the wrong "
                        "tensors", expr=C.unparse(carrier))
    fb = m.funcs["hash_contraction_b"]
    key = ctx.key(fb, "C14-FPPOS")
    txt = ast.unparse(fb.node)
    has_enum = any(isinstance(n, ast.For) and isinstance(n.iter, ast.Call)
                   and dotted(n.iter.func) == "enumerate" and C.unparse(n.iter.args[0]) == "inputs"
                   for n in walk_local(fb.node))
    appends_pos = any(isinstance(n, ast.Call) and isinstance(n.func, ast.Attribute)
                      and n.func.attr == "append" and n.args and isinstance(n.args[0], ast.Name)
                      for n in walk_local(fb.node))
    if has_enum and appends_pos:
        r.ok(key, fb.loc, "edges are labelled by the positions of the tensors they touch")
    else:
        r.violation(key, fb.loc, "method b no longer records tensor positions")
    return r


# ---- POLICY ----------------------------------------------------------------


def _score_lt(test):
    """Compare  X['score'] < Y['score']  ->  (X, Y) names"""
    if isinstance(test, ast.Compare) and len(test.ops) == 1 and \
            isinstance(test.ops[0], (ast.Lt,)):
        l, rr = C.unparse(test.left), C.unparse(test.comparators[0])
        if l.endswith("['score']") and rr.endswith("['score']"):
            return l[:-9], rr[:-9]
    return None


def _policy_names(ctx, f):
    """Derive the local names the policy is written with (so that renaming a local
    does not matter): K, M from ``K, M = self.hash_query(...)``; CON from
    ``CON = self._run_optimizer(...)``; SR = the Name tested by the ``if`` around it."""
    K = M = CON = SR = None
    hq = None
    for n in walk_local(f.node):
        if isinstance(n, ast.Assign) and isinstance(n.value, ast.Call) and \
                isinstance(n.value.func, ast.Attribute):
            if n.value.func.attr == "hash_query" and isinstance(n.targets[0], ast.Tuple) \
                    and len(n.targets[0].elts) == 2:
                K, M = (e.id for e in n.targets[0].elts)
                hq = n.value
            elif n.value.func.attr == "_run_optimizer" and isinstance(n.targets[0], ast.Name):
                CON = n.targets[0].id
                for ifn, t in C.enclosing_ifs(f, n):
                    if t and isinstance(ifn.test, ast.Name):
                        SR = ifn.test.id
    if SR is None:
        # the flag is the second element handed back (`return con, <flag>`), whatever guards the run
        for n in walk_local(f.node):
            if isinstance(n, ast.Return) and isinstance(n.value, ast.Tuple) and len(n.value.elts) == 2:
                others = [e.id for e in n.value.elts if isinstance(e, ast.Name) and e.id != CON]
                if len(others) == 1:
                    SR = others[0]
    return K, M, CON, SR, hq


def rule_policy(ctx):
    r = RuleResult("C14-POLICY", "lookup / run / overwrite policy", 6)
    ro = ctx.p.cls(C.REUSABLE, "ReusableOptimizer")
    f = ro.methods.get("_maybe_run_optimizer")
    C.require(f is not None, "_maybe_run_optimizer not found")
    fl = ctx.flow(f)
    cfg = fl.cfg
    K, M, CON, SR, hq = _policy_names(ctx, f)
    runs = [(n, c) for n, c in fl.calls() if isinstance(c.func, ast.Attribute)
            and c.func.attr == "_run_optimizer"]
    C.require(runs, "call of _run_optimizer not found")
    C.require(K is not None, "`key, missing = self.hash_query(...)` not found")
    cache_k = f"self._cache[{K}]"
    # (a) dominated by should_run and by a raising cache_only test
    for n, c in runs:
        key = ctx.key(f, "C14-POLICY", "run-guards")
        co = [x for x in cfg.nodes if x.kind == "test" and isinstance(x.ast, ast.If)
              and C.unparse(x.ast.test) == "self.cache_only"
              and isinstance(x.ast.body[-1], ast.Raise)]
        co_dom = any(cfg.dominates(x.id, n.id) for x in co)
        sr_def = False
        if SR is not None:
            la = ctx.r.local_assignments(f).get(SR, [])
            sr_def = any(isinstance(v, ast.BoolOp) and isinstance(v.op, ast.Or)
                         and {C.unparse(x) for x in v.values} == {M, "self.overwrite"}
                         for v in la)
        if SR is not None and co_dom and sr_def:
            r.ok(key, C.loc(f, c), "search only when missing/overwrite, never under cache_only")
        else:
            r.violation(key, C.loc(f, c), "a search can run although the entry is present and "
                        "overwrite is off, or although cache_only is set",
                        guarded_by_flag=SR is not None, cache_only_raises=co_dom,
                        flag_is_missing_or_overwrite=sr_def)
    # (b) hit path returns the stored record
    key = ctx.key(f, "C14-POLICY", "hit")
    hit_ok = False
    for n in walk_local(f.node):
        if isinstance(n, ast.If) and SR and C.unparse(n.test) == SR and n.orelse:
            txt = [ast.unparse(s_) for s_ in n.orelse]
            if any(t == f"{CON} = {cache_k}" for t in txt) and \
                    not any("_run_optimizer" in t for t in txt):
                hit_ok = True
    rets = [n for n in walk_local(f.node) if isinstance(n, ast.Return)]
    ret_ok = bool(rets) and all(isinstance(x.value, ast.Tuple) and len(x.value.elts) == 2 and
                                C.unparse(x.value.elts[1]) == CON for x in rets)
    if hit_ok and ret_ok:
        r.ok(key, f.loc, "a hit returns the stored record without searching")
    else:
        r.violation(key, f.loc, "the hit path does not simply return the stored record")
    # (c) stores
    stores = []
    for n in cfg.nodes:
        if n.kind == "stmt" and isinstance(n.ast, ast.Assign):
            for t in n.ast.targets:
                if isinstance(t, ast.Subscript) and C.unparse(t.value) == "self._cache":
                    stores.append((n, t, n.ast.value))
    C.require(stores, "no store into self._cache in _maybe_run_optimizer")
    for n, t, val in stores:
        key = ctx.key(f, "C14-POLICY", "store")
        guards = [(i, tr) for i, tr in C.enclosing_ifs(f, n.ast)]
        improved_if = [(i, tr) for i, tr in guards if "improved" in C.unparse(i.test)]
        why = None
        if not improved_if:
            why = "store is not inside the overwrite=='improved' case analysis"
        else:
            i, tr = improved_if[0]
            tst = C.unparse(i.test)
            if f"not {M}" not in tst:
                why = "the 'improved' test does not require the entry to be present"
            if tr:
                lt = [(_score_lt(g.test), gtr) for g, gtr in guards if _score_lt(g.test)]
                good = [x for x, gtr in lt if gtr and x[0] == C.unparse(val)]
                if not good:
                    why = ("under overwrite='improved' the entry is replaced without "
                           "new score < old score")
                else:
                    old = good[0][1]
                    olddef = ctx.r.local_assignments(f).get(old, [])
                    if not any(C.unparse(v) == f"self._cache[{C.unparse(t.slice)}]" for v in olddef):
                        why = "the compared old record is not the cached record of the same key"
        if C.unparse(t.slice) != K:
            why = "store uses a key other than the one looked up"
        if why:
            r.violation(key, C.loc(f, n.ast), why)
        else:
            r.ok(key, C.loc(f, n.ast), "guarded store with the looked-up key")
    # not-improved branch returns the old record and flags that nothing was searched
    key = ctx.key(f, "C14-POLICY", "not-improved")
    ok = False
    for n in walk_local(f.node):
        if isinstance(n, ast.If) and _score_lt(n.test) and n.orelse:
            txt = [ast.unparse(s_) for s_ in n.orelse]
            old = _score_lt(n.test)[1]
            if any(t == f"{CON} = {old}" for t in txt) and any(t == f"{SR} = False" for t in txt):
                ok = True
    if ok:
        r.ok(key, f.loc, "worse result: old record returned, searched-flag cleared")
    else:
        r.violation(key, f.loc, "when the new result is not better the fresh (worse) result "
                    "is still handed back")
    # (d) key from one hash_query
    key = ctx.key(f, "C14-POLICY", "one-key")
    hqs = [n for n in walk_local(f.node) if isinstance(n, ast.Call)
           and isinstance(n.func, ast.Attribute) and n.func.attr == "hash_query"]
    if len(hqs) == 1 and [a for a in map(C.unparse, hqs[0].args)] == ["inputs", "output", "size_dict"]:
        r.ok(key, C.loc(f, hqs[0]), "one hash_query(inputs, output, size_dict) per call")
    else:
        r.violation(key, f.loc, "lookup and store keys may come from different hash_query calls "
                    "or not from the query's inputs/output/size_dict")
    # search(): tree handed back is the searched one only when searched, else reconstructed
    s_ = ro.methods.get("search")
    key = ctx.key(s_, "C14-POLICY", "search")
    rec = [n for n in walk_local(s_.node) if isinstance(n, ast.Call)
           and isinstance(n.func, ast.Attribute) and n.func.attr == "_reconstruct_tree"]
    flagged = [n for n in walk_local(s_.node) if isinstance(n, ast.If)
               and isinstance(n.test, ast.Name)
               and any(isinstance(x, ast.Return) for x in n.body)]
    mr = [n for n in walk_local(s_.node) if isinstance(n, ast.Assign)
          and isinstance(n.value, ast.Call) and isinstance(n.value.func, ast.Attribute)
          and n.value.func.attr == "_maybe_run_optimizer"]
    good = bool(rec) and bool(flagged) and bool(mr) and isinstance(mr[0].targets[0], ast.Tuple) \
        and flagged[0].test.id == mr[0].targets[0].elts[0].id \
        and C.unparse(rec[0].args[-1]) == mr[0].targets[0].elts[1].id
    if good:
        r.ok(key, s_.loc, "non-searched queries are rebuilt from the stored record")
    else:
        r.violation(key, s_.loc, "search() does not rebuild the tree from the stored record on a hit")
    # update_from_tree
    u = ro.methods.get("update_from_tree")
    C.require(u is not None, "update_from_tree not found")
    Ku, Mu, _, _, _ = _policy_names(ctx, u)
    for n in walk_local(u.node):
        if isinstance(n, ast.Assign) and any(isinstance(t, ast.Subscript)
                                             and C.unparse(t.value) == "self._cache"
                                             for t in n.targets):
            key = ctx.key(u, "C14-POLICY", "store")
            guards = [(C.unparse(i.test), tr, i) for i, tr in C.enclosing_ifs(u, n)]
            tests = [g for g, tr, _ in guards]
            if any(g == Mu and tr for g, tr, _ in guards):
                r.ok(key, C.loc(u, n), "missing entry: write")
            elif any(g == "overwrite == 'improved'" and tr for g, tr, _ in guards):
                if any(_score_lt(i.test) and tr for _, tr, i in guards):
                    r.ok(key, C.loc(u, n), "improved: guarded by new score < old score")
                else:
                    r.violation(key, C.loc(u, n), "update_from_tree(overwrite='improved') "
                                "overwrites without comparing scores")
            elif any(g == "overwrite" and tr for g, tr, _ in guards):
                r.ok(key, C.loc(u, n), "explicit overwrite")
            else:
                r.violation(key, C.loc(u, n), "unguarded store in update_from_tree", guards=tests)
    # (sensitivity map) what was searched is what the next identical query finds: every path from this thread's search
    # to the return either stores the fresh record under the looked-up key or (not improved) hands back the old one
    key = ctx.key(f, "C14-POLICY", "stored-after-search")
    store_nodes = [n.id for n, t, val in stores if C.unparse(t.slice) == K and C.unparse(val) == CON]
    keep_nodes = [n.id for n in cfg.nodes if n.kind == "stmt" and isinstance(n.ast, ast.Assign)
                  and any(isinstance(t, ast.Name) and t.id == CON for t in n.ast.targets)
                  and isinstance(n.ast.value, ast.Name)
                  and any(C.unparse(v) == cache_k for v in ctx.r.local_assignments(f).get(n.ast.value.id, []))]
    bad_path = None
    for n, c in runs:
        p_ = cfg.path_avoiding(n.id, store_nodes + keep_nodes)
        if p_ is not None:
            bad_path = p_
    if bad_path is None:
        r.ok(key, f.loc, "every path from the search to the return stores the fresh record or keeps the old one")
    else:
        r.violation(key, f.loc, "after a search a path reaches the return without the fresh record being stored under the "
                    "looked-up key (and without falling back to the stored one): repeating the query searches again, or "
                    "returns a different contraction order", path=cfg.describe_path(bad_path))
    # update_from_tree: a missing entry is always written; an explicit overwrite always writes
    key = ctx.key(u, "C14-POLICY", "update-writes")
    flu = ctx.flow(u)
    ustores = [flu.cfg.containing(n, u.module.parents).id for n in walk_local(u.node) if isinstance(n, ast.Assign)
               and any(isinstance(t, ast.Subscript) and C.unparse(t.value) == "self._cache" for t in n.targets)]
    probs = []
    for tn in [x for x in flu.cfg.nodes if x.kind == "test" and isinstance(x.ast, ast.If)]:
        tt = C.unparse(tn.ast.test)
        true_succ = [sid for sid in flu.cfg.succ[tn.id] if flu.cfg.branch.get((tn.id, sid)) is True]
        false_succ = [sid for sid in flu.cfg.succ[tn.id] if flu.cfg.branch.get((tn.id, sid)) is False]
        if tt == Mu:
            for s0 in true_succ:
                if s0 not in ustores and flu.cfg.path_avoiding(s0, ustores) is not None:
                    probs.append("a missing entry is not always written")
        if tt == "overwrite == 'improved'":
            for s0 in false_succ:      # plain truthy overwrite
                if s0 not in ustores and flu.cfg.path_avoiding(s0, ustores) is not None:
                    probs.append("overwrite=True does not always write")
    if probs:
        r.violation(key, u.loc, "; ".join(sorted(set(probs))))
    else:
        r.ok(key, u.loc, "missing entries and explicit overwrites are written on every path")
    return r


# ---- SCHEMA ----------------------------------------------------------------


def _dict_keys(d):
    return {k.value for k in d.keys if isinstance(k, ast.Constant)}


def rule_schema(ctx):
    r = RuleResult("C14-SCHEMA", "record writers and readers agree", 6)
    ro = ctx.p.cls(C.REUSABLE, "ReusableOptimizer")
    fam = [ro] + ro.all_subclasses()
    # writers
    for c in fam:
        for name in ("_deconstruct_tree", "update_from_tree", "_run_optimizer"):
            f = c.methods.get(name)
            if f is None:
                continue
            dicts = [n for n in walk_local(f.node) if isinstance(n, ast.Dict)
                     and _dict_keys(n) & RECORD_KEYS]
            if not dicts:
                continue
            for d in dicts:
                key = ctx.key(f, "C14-SCHEMA", "writer")
                ks = _dict_keys(d)
                if RECORD_KEYS <= ks:
                    r.ok(key, C.loc(f, d), "writes path, score, sliced_inds")
                else:
                    r.violation(key, C.loc(f, d), f"record lacks {sorted(RECORD_KEYS - ks)} "
                                "which readers of the cache consume")
    # readers: every con[...] key is a record key
    for c in fam:
        for f in c.methods.values():
            for n in walk_local(f.node):
                if isinstance(n, ast.Subscript) and isinstance(n.value, ast.Name) and \
                        n.value.id in ("con", "old_con", "new_con") and \
                        isinstance(n.slice, ast.Constant) and isinstance(n.ctx, ast.Load):
                    if n.slice.value not in RECORD_KEYS:
                        r.violation(ctx.key(f, "C14-SCHEMA", f"reader:{n.slice.value}"),
                                    C.loc(f, n), f"reads con['{n.slice.value}'] which no writer "
                                    "stores")
    # reconstruction replays the sliced indices
    for c in fam:
        f = c.methods.get("_reconstruct_tree")
        if f is None or any(isinstance(n, ast.Raise) for n in walk_local(f.node)):
            continue
        key = ctx.key(f, "C14-SCHEMA", "replay-slices")
        fl = ctx.flow(f)
        loops = [n for n in fl.cfg.nodes if n.kind == "for"
                 and "['sliced_inds']" in C.unparse(n.ast.iter)
                 and any("remove_ind" in ast.unparse(s) for s in n.ast.body)]
        uses_path = any(isinstance(n, ast.Subscript) and C.unparse(n) == "con['path']"
                        for n in walk_local(f.node))
        if not uses_path:
            r.violation(key, f.loc, "the tree is not rebuilt from the stored path")
            continue
        if loops and all(fl.cfg.all_paths_pass(fl.cfg.entry.id, [l.id]) for l in loops):
            r.ok(key, f.loc, "every stored sliced index is re-applied on every path")
            continue
        # legal only if this class's writer stores () or its constructor rejects slicing
        w = c.lookup("_deconstruct_tree")
        const_empty = False
        if w is not None:
            for d in [n for n in walk_local(w.node) if isinstance(n, ast.Dict)]:
                for k, v in zip(d.keys, d.values):
                    if isinstance(k, ast.Constant) and k.value == "sliced_inds" and \
                            isinstance(v, ast.Tuple) and not v.elts:
                        const_empty = True
        init = c.methods.get("__init__")
        rejects = init is not None and all(
            any(isinstance(n, ast.If) and opt in ast.unparse(n.test)
                and any(isinstance(x, ast.Raise) for x in n.body)
                for n in walk_local(init.node))
            for opt in ("slicing_opts", "slicing_reconf_opts"))
        if const_empty or rejects:
            r.ok(key, f.loc, "no slicing can be stored for this optimizer "
                 f"({'writer stores ()' if const_empty else 'constructor rejects slicing options'})")
        elif loops:
            r.violation(key, f.loc, "stored sliced indices are re-applied only on some paths: a "
                        "cache hit can return an unsliced tree for a record that has slices")
        else:
            r.violation(key, f.loc, "stored sliced indices are ignored when a cache hit is "
                        "turned back into a tree")
    return r


def rule_hitrebuild(ctx):
    """The fingerprint deliberately ignores index order inside terms and output, so a
    record can only be shared at the level of the *path*: on a cache hit ``search``
    rebuilds the tree from the stored path with the query's own inputs and output -
    every return that is not the freshly searched tree is such a rebuild."""
    r = RuleResult("C14-HITREBUILD", "a cache hit rebuilds the tree for the queried contraction", 1)
    ro = ctx.p.cls(C.REUSABLE, "ReusableOptimizer")
    for c in [ro] + [c for c in ctx.p.classes.values() if c is not ro and c.is_subclass_of(ro)]:
        f = c.methods.get("search")
        if f is None:
            continue
        fl = ctx.flow(f)
        for rt in fl.returns():
            v = rt.ast.value
            if v is None:
                continue
            key = ctx.key(f, "C14-HITREBUILD", C.unparse(v, 30))
            txt = C.unparse(v)
            if "last_opt" in txt:
                r.ok(key, C.loc(f, rt.ast), "the tree this query just searched")
                continue
            exprs = [v]
            if isinstance(v, ast.Name):
                exprs = [d.value for d in fl.defs_reaching(v.id, rt.id) if d.value is not None] or [v]
            ok = True
            for e in exprs:
                if "last_opt" in C.unparse(e):
                    continue
                calls = [x for x in ast.walk(e) if isinstance(x, ast.Call) and isinstance(x.func, ast.Attribute)
                         and x.func.attr == "_reconstruct_tree"]
                own = {p_ for p_ in f.params if p_ != "self"}
                good = [x for x in calls if own & {a.id for a in x.args if isinstance(a, ast.Name)}
                        >= {"inputs", "output"} & own]
                if not (isinstance(e, ast.Call) and good and e is good[0]) and \
                        not (isinstance(e, ast.Call) and dotted(e.func) and "super" in C.unparse(e.func)):
                    ok = False
            if ok:
                r.ok(key, C.loc(f, rt.ast), "rebuilt from the stored path with the query's inputs and output")
            else:
                r.violation(key, C.loc(f, rt.ast), f"`return {txt}` hands back something other than a rebuild "
                            "for the queried inputs/output: the fingerprint ignores index order within "
                            "terms and output, so a tree kept from an equal-fingerprint query has the "
                            "wrong axis order for this one")
    return r


def rule_memkey(ctx):
    """The store behind the reusable optimizers keeps entries in a memory dict in
    front of the directory.  Writer and readers (``__setitem__``, ``__getitem__``,
    ``__contains__``) must address that dict with the key in the *same* form: either
    all before the key is normalised to a tuple or all after - decided by which
    definitions of the key variable reach each access."""
    r = RuleResult("C14-MEMKEY", "the memory layer of the store is addressed with one key form", 3)
    dd = ctx.p.cls(C.UTILS, "DiskDict")
    forms = {}
    for name in ("__setitem__", "__getitem__", "__contains__", "__delitem__"):
        f = dd.methods.get(name)
        if f is None:
            continue
        fl = ctx.flow(f)
        kname = f.positional[1] if len(f.positional) > 1 else None
        for n in walk_local(f.node):
            keyexpr = None
            if isinstance(n, ast.Subscript) and C.unparse(n.value).endswith("._mem_cache"):
                keyexpr = n.slice
            elif isinstance(n, ast.Compare) and len(n.ops) == 1 and isinstance(n.ops[0], (ast.In, ast.NotIn)) \
                    and C.unparse(n.comparators[0]).endswith("._mem_cache"):
                keyexpr = n.left
            elif isinstance(n, ast.Call) and isinstance(n.func, ast.Attribute) and \
                    n.func.attr in ("get", "pop", "setdefault") and \
                    C.unparse(n.func.value).endswith("._mem_cache") and n.args:
                keyexpr = n.args[0]
            if keyexpr is None:
                continue
            if isinstance(n, ast.Subscript) and isinstance(n.ctx, ast.Store) and name != "__setitem__":
                # a reader refilling the memory layer from disk: a miss under the other
                # form only costs a reload, the entry is still found
                continue
            if not (isinstance(keyexpr, ast.Name) and keyexpr.id == kname):
                forms.setdefault("other", []).append((f, n, C.unparse(keyexpr)))
                continue
            at = fl.node_of_expr(n)
            kinds = {("raw" if d.kind == "param" else "normalised")
                     for d in fl.defs_reaching(kname, at)}
            form = "raw" if kinds == {"raw"} else ("normalised" if kinds == {"normalised"} else "mixed")
            forms.setdefault(form, []).append((f, n, form))
    C.require(sum(len(v) for v in forms.values()) >= 3, "accesses to DiskDict._mem_cache not recognised")
    majority = max(forms, key=lambda k: len(forms[k]))
    for form, sites in sorted(forms.items()):
        for f, n, _ in sites:
            key = ctx.key(f, "C14-MEMKEY")
            if form == majority and form != "mixed":
                r.ok(key, C.loc(f, n), f"memory layer addressed with the {form} key")
            else:
                r.violation(key, C.loc(f, n), f"{f.name} addresses the memory layer with the {form} key "
                            f"while the other accessors use the {majority} key: an entry stored under "
                            "one form is never found under the other (plain-string keys, i.e. "
                            "directory_split=False), so stored contractions are searched again and "
                            "'improved' overwrites lose their reference")
    return r


def rule_ownresult(ctx):
    """Shared with C16-FRESH (reusable wrappers only): the tree handed back as
    'searched' and the record stored under the fingerprint were found for *this*
    contraction only if the sub-optimizer that ran is fresh or carries no result."""
    from .c16 import rule_fresh as src

    return C.reuse_rule(ctx, src, "C16-FRESH", "C14-OWNRESULT",
                        "the stored record comes from a search of the queried contraction",
                        lambda i: "Reusable" in i.construct, 2)


def rule_ownthread(ctx):
    """Shared with C16-THREADKEY / C16-OWNRUN (reusable.py only; seed C14_7): on a miss
    ``search()`` hands back ``self.last_opt.tree``; it is a tree of the *queried* contraction
    only if the slot it is read from belongs to the querying thread and was filled by the run
    for this query."""
    from .c16 import rule_threadkey, rule_ownrun
    from ..engine.report import RuleResult

    r = RuleResult("C14-OWNTHREAD", "the tree returned after a miss is the one this query's search built", 3)
    for src, old in ((rule_threadkey, "C16-THREADKEY"), (rule_ownrun, "C16-OWNRUN")):
        for i in src(ctx).instances:
            if "reusable.py" not in i.construct:
                continue
            c = i.construct.replace(old, "C14-OWNTHREAD::" + old.split("-")[1].lower())
            if i.verdict == "violation":
                r.violation(c, i.loc, i.reason, **i.detail)
            elif i.verdict == "exempt":
                r.exempt(c, i.loc, i.reason)
            else:
                r.ok(c, i.loc, i.reason)
    return r


def rule_overwrite(ctx):
    """(seed C14_9) 'The stored score never gets worse' and `overwrite=True/'improved'` / `update_from_tree`
    need a store to *displace* the record already on disk: the publishing step of the durable store overwrites
    (replace / rename).  A hard link (`os.link`, `Path.hardlink_to`) or an exclusive create fails or is skipped
    when the entry exists — the improvement lives in the memory layer only and is gone after a reload."""
    r = RuleResult("C14-OVERWRITE", "a store displaces the record already on disk", 1)
    dd = ctx.p.cls(C.UTILS, "DiskDict")
    C.require(dd is not None, "DiskDict not found")
    f = dd.methods.get("__setitem__")
    C.require(f is not None, "DiskDict.__setitem__ not found")
    from .c15 import _with_helpers
    pubs, weak = [], []
    for g in _with_helpers(ctx, [f]):
        for n in walk_local(g.node):
            if not isinstance(n, ast.Call):
                continue
            d = dotted(n.func)
            if d in ("os.replace", "os.rename", "shutil.move") and len(n.args) >= 2:
                pubs.append((g, n))
            elif isinstance(n.func, ast.Attribute) and n.func.attr in ("replace", "rename") and len(n.args) == 1 \
                    and not n.keywords and d not in ("os.replace", "os.rename") and not isinstance(n.args[0], ast.Constant):
                pubs.append((g, n))
            elif d in ("os.link", "os.symlink") or (isinstance(n.func, ast.Attribute) and
                                                    n.func.attr in ("link_to", "hardlink_to", "symlink_to")):
                weak.append((g, n))
            elif d == "open" and len(n.args) >= 2 and isinstance(n.args[1], ast.Constant) and "x" in str(n.args[1].value):
                # exclusive create of the entry itself
                weak.append((g, n))
    key = ctx.key(f, "C14-OVERWRITE")
    if weak and not pubs:
        g, n = weak[0]
        r.violation(key, C.loc(g, n), f"`{C.unparse(n, 50)}` publishes the record without displacing an existing one: a better "
                    f"(or forced) record for a known contraction changes the memory layer only; after a reload the old path and "
                    f"score are back")
    elif pubs:
        g, n = pubs[0]
        r.ok(key, C.loc(g, n), f"`{C.unparse(n, 50)}` replaces whatever is stored under the entry name")
    else:
        direct = [n for n in walk_local(f.node) if isinstance(n, ast.Call) and dotted(n.func) == "open"]
        if direct:
            r.ok(key, C.loc(f, direct[0]), "the entry file is (re)written in place")
        else:
            raise AnalysisError("DiskDict.__setitem__: publishing step not recognised")
    return r


def rule_objective(ctx):
    """(seed C14_10) A hit is rebuilt with `objective=self.minimize`, which is the last sub-optimizer's objective
    if this thread searched and the *stored constructor options* otherwise (reload, new instance, other
    thread).  Both must be the same objective.  Where the sub-optimizer class derives its effective objective
    from further constructor parameters (`minimize += f"-{chi}"`), the wrapper has to store the derived objective
    itself: the value it puts under "minimize" depends on the same parameters (sibling agreement of the two
    constructors)."""
    r = RuleResult("C14-OBJECTIVE", "a hit is scored with the objective the record was searched with", 1)
    base = ctx.p.cls(C.REUSABLE, "ReusableOptimizer")
    C.require(base is not None, "ReusableOptimizer not found")
    for w in [base] + list(base.all_subclasses()):
        gs = w.methods.get("_get_suboptimizer")
        if gs is None:
            continue
        sub = None
        for n in walk_local(gs.node):
            if isinstance(n, ast.Return) and isinstance(n.value, ast.Call):
                t = ctx.p.resolve_expr_static(gs.module, n.value.func, gs)
                if hasattr(t, "methods"):
                    sub = t
        if sub is None:
            continue
        sinit = sub.methods.get("__init__")
        key = ctx.key(w.methods.get("__init__") or gs, "C14-OBJECTIVE", w.name)
        if sinit is None:
            r.ok(key, gs.loc, f"{sub.name} takes its objective as given")
            continue
        # parameters of the sub-optimizer's constructor that its effective objective depends on
        fl = ctx.flow(sinit)
        folded = set()
        for n in walk_local(sinit.node):
            tgt = None
            if isinstance(n, ast.AugAssign) and isinstance(n.target, ast.Name) and n.target.id == "minimize":
                tgt = n
            elif isinstance(n, ast.Assign) and any(isinstance(t, ast.Name) and t.id == "minimize" for t in n.targets):
                tgt = n
            if tgt is None:
                continue
            for x in ast.walk(tgt.value):
                if isinstance(x, ast.Name) and x.id in {a.arg for a in sinit.node.args.args} - {"self", "minimize"}:
                    folded.add(x.id)
        winit = w.methods.get("__init__")
        if not folded:
            r.ok(key, (winit or gs).loc, f"{sub.name} does not derive its objective from other options")
            continue
        if winit is None:
            r.violation(key, gs.loc, f"{sub.name} folds {sorted(folded)} into its objective but {w.name} has no constructor "
                        f"that does the same for the options it stores")
            continue
        wfl = ctx.flow(winit)
        stored = None
        for n in walk_local(winit.node):
            if isinstance(n, ast.Assign) and isinstance(n.targets[0], ast.Subscript) and \
                    isinstance(n.targets[0].slice, ast.Constant) and n.targets[0].slice.value == "minimize":
                stored = n
            elif isinstance(n, ast.keyword) and n.arg == "minimize":
                stored = n
        if stored is None:
            raise AnalysisError(f"{w.name}.__init__: the stored objective was not found")
        val = stored.value
        st = stored if isinstance(stored, ast.stmt) else C.enclosing_stmt(winit, stored)
        deps = wfl.deps(val, wfl.cfg.containing(st, winit.module.parents).id, "may")
        dep_params = {d_[1] for d_ in deps if d_[0] == "param"}
        missing = sorted(folded - dep_params)
        if missing:
            r.violation(key, C.loc(winit, st), f"{sub.name} folds {missing} into its objective, but the objective {w.name} stores "
                        f"(`{C.unparse(val, 40)}`) does not depend on {missing}: a hit served without a search of this "
                        f"thread (reload, new instance, other thread) is rebuilt and scored with a different objective than "
                        f"the record was found with")
        else:
            r.ok(key, C.loc(winit, st), f"the stored objective depends on {sorted(folded)} like {sub.name}'s own")
    return r


RULES = [rule_objective, rule_overwrite, rule_fpdet, rule_fpcov, rule_fppos, rule_policy, rule_schema, rule_memkey, rule_ownresult,
         rule_ownthread, rule_hitrebuild]
